"""Specialisation of a function to one variant of its enum parameter.

Several rules are statements "per variant of SpecialRustType": what does `format_special_type` return for `Vec`, for
`Option`, for `U32`?  Reading the arm of a `match` only works while the function *is* one big match whose arms are the
results.  `per_variant` answers the question for any shape the evaluator can follow: early returns through a look-up
helper (`if let Some(s) = scalar_name(ty) { return Ok(s) }`), strings accumulated with `push_str` in a statement-level
match, nested helpers — by partially evaluating the function's exits (value trees + guard frames of the inlined view) under
the assumption "the parameter is variant V".  Conditions the assumption does not decide are kept (both outcomes), so the
result is a set of alternative value trees; alternatives that end in `never` (unreachable!/panic!/return elsewhere) are
dropped.  Nothing is executed: this is constant propagation of one fact over syntax trees."""
import copy

from . import vt

MAXD = 60


def _is_param(v, param):
    v = vt.unvar(v)
    while isinstance(v, dict) and v.get('k') in ('ref', 'deref', 'paren'):
        v = vt.unvar(v.get('v'))
    return isinstance(v, dict) and v.get('k') == 'atom' and v.get('root') == param and not v.get('path')


def _short(variants):
    return [str(x).split('::')[-1].split('(')[0] for x in variants]


def _shape(v):
    """'Some' / 'None' / 'Ok' / 'Err' for an evaluated value, else None."""
    v = vt.unvar(v)
    if not isinstance(v, dict):
        return None
    if v.get('k') == 'some':
        return 'Some'
    if v.get('k') == 'none':
        return 'None'
    if v.get('k') == 'call' and v.get('recv') is None and str(v.get('f')) in ('Some', 'Ok', 'Err') and len(v.get('args', [])) == 1:
        return str(v['f'])
    if v.get('k') == 'path' and str(v.get('text', '')).replace(' ', '').split('::')[-1] == 'None':
        return 'None'
    if v.get('k') == 'payload' and v.get('variant') in ('Some', 'Ok'):
        return None
    return None


def _payload(v):
    v = vt.unvar(v)
    if isinstance(v, dict) and v.get('k') == 'some':
        return v.get('v')
    if isinstance(v, dict) and v.get('k') == 'call' and v.get('args'):
        return v['args'][0]
    return None


def ev(v, param, variant, depth=0):
    """Alternatives (list of value trees) of v under `param is variant`.  `never` alternatives are kept as {'k':'never'} so that
    callers can prune whole exits."""
    if depth > MAXD or not isinstance(v, dict):
        return [v]
    kk = v.get('k')
    if kk == 'var':
        return ev(v.get('v'), param, variant, depth + 1)
    if kk in ('paren',):
        return ev(v.get('v'), param, variant, depth + 1)
    if kk == 'never':
        return [v]
    if kk == 'match':
        if _is_param(v.get('scrut'), param):
            for a in v.get('arms', []):
                vs = _short(a.get('variants', []))
                pat = str(a.get('pat', '')).strip()
                if variant in vs or '_' in vs or (not [x for x in vs if x] and pat.replace('_', 'a').isidentifier()) or (vs and all(not x[:1].isupper() for x in vs)):
                    return ev(a.get('v'), param, variant, depth + 1)
            return [{'k': 'never'}]
        # match on an evaluated Option/Result
        outs = []
        for sc in ev(v.get('scrut'), param, variant, depth + 1):
            sh = _shape(sc)
            hit = False
            if sh is not None:
                for a in v.get('arms', []):
                    vs = _short(a.get('variants', []))
                    if sh in vs or '_' in vs:
                        outs += ev(_bind_payload(a.get('v'), sc), param, variant, depth + 1)
                        hit = True
                        break
            if not hit:
                for a in v.get('arms', []):
                    outs += ev(a.get('v'), param, variant, depth + 1)
        return outs[:24] or [{'k': 'never'}]
    if kk == 'cond':
        c = vt.unvar(v.get('c'))
        if isinstance(c, dict) and c.get('k') == 'iflet':
            if _is_param(c.get('scrut'), param):
                hit = variant in _short(c.get('variants', []))
                return ev(v['t'] if hit else v.get('e'), param, variant, depth + 1)
            outs = []
            for sc in ev(c.get('scrut'), param, variant, depth + 1):
                sh = _shape(sc)
                if sh is None:
                    outs += ev(v.get('t'), param, variant, depth + 1) + ev(v.get('e'), param, variant, depth + 1)
                elif sh in _short(c.get('variants', [])):
                    outs += ev(v.get('t'), param, variant, depth + 1)
                else:
                    outs += ev(v.get('e'), param, variant, depth + 1)
            return outs[:24]
        if isinstance(c, dict) and c.get('k') == 'matches' and _is_param(c.get('scrut'), param) and not c.get('guard'):
            hit = variant in _short(c.get('variants', []))
            return ev(v['t'] if hit else v.get('e'), param, variant, depth + 1)
        # undecided condition: specialise both branches but keep the conditional (rules tabulate it themselves)
        ts, es = ev(v.get('t'), param, variant, depth + 1), ev(v.get('e'), param, variant, depth + 1)
        return [dict(v, t=t, e=e) for t in ts[:4] for e in es[:4]][:16]
    if kk == 'alt':
        outs = []
        guards_ = v.get('alt_guards') or [[] for _ in v.get('alts', [])]
        for a, frames in zip(v.get('alts', []), guards_):
            # alternatives of a function result: early returns (with the frames they sit under) in source order, then the tail
            ts = [frame_truth(fr, param, variant) for fr in frames if fr.get('k') in ('if', 'arm')]
            if any(t is False for t in ts):
                continue
            outs += ev(a, param, variant, depth + 1)
            if frames and ts and all(t is True for t in ts):
                break       # this early return is taken for sure: what follows it is not reached
        return outs[:24] or [{'k': 'never'}]
    if kk == 'fmt':
        alts = [[]]
        for p in v.get('parts', []):
            if 'lit' in p:
                alts = [a + [p] for a in alts]
            else:
                subs = ev(p.get('hole'), param, variant, depth + 1)
                if any(isinstance(s, dict) and s.get('k') == 'never' for s in subs) and len(subs) == 1:
                    return [{'k': 'never'}]
                subs = [s for s in subs if not (isinstance(s, dict) and s.get('k') == 'never')] or subs
                alts = [a + [dict(p, hole=s)] for a in alts for s in subs[:6]][:24]
        return [dict(v, parts=a) for a in alts]
    if kk in ('try', 'some'):
        return [dict(v, v=x) if not (isinstance(x, dict) and x.get('k') == 'never') else x for x in ev(v.get('v'), param, variant, depth + 1)]
    if kk == 'call':
        outs = [v]
        if v.get('recv') is None and str(v.get('f')) in ('Some', 'Ok', 'Err') and len(v.get('args', [])) == 1:
            return [dict(v, args=[x]) if not (isinstance(x, dict) and x.get('k') == 'never') else x for x in ev(v['args'][0], param, variant, depth + 1)]
        if v.get('recv') is not None and v.get('f') in vt.TRANSPARENT_CALLS | {'to_owned', 'to_string', 'into', 'as_str', 'clone', 'as_deref', 'as_ref'}:
            return [dict(v, recv=x) if not (isinstance(x, dict) and x.get('k') == 'never') else x for x in ev(v['recv'], param, variant, depth + 1)]
        return outs
    if kk == 'payload':
        outs = []
        for o in ev(v.get('of'), param, variant, depth + 1):
            sh = _shape(o)
            if sh is not None and sh != v.get('variant'):
                outs.append({'k': 'never'})      # `Some` payload of a value that is `None` on this path: path impossible
                continue
            pl = _payload(o) if sh == v.get('variant') else None
            outs.append(pl if pl is not None else dict(v, of=o))
        live = [o for o in outs if not (isinstance(o, dict) and o.get('k') == 'never')]
        return live or outs
    return [v]


def _bind_payload(v, scrutinee_value):
    return v


def frame_truth(fr, param, variant):
    """True / False / None: does this guard frame hold under `param is variant`?"""
    k = fr.get('k')
    if k == 'arm':
        if _is_param(fr.get('scrut'), param):
            vs = _short(fr.get('variants', []))
            named = [x for x in vs if x[:1].isupper()]
            if variant in vs:
                return True
            if '_' in vs or not named:
                return None    # catch-all: holds iff no earlier arm took the variant — decided by the caller through arm order
            return False
        return None
    if k == 'if':
        c = vt.unvar(fr.get('c'))
        neg = bool(fr.get('neg'))
        t = None
        if isinstance(c, dict) and c.get('k') == 'iflet':
            if _is_param(c.get('scrut'), param):
                t = variant in _short(c.get('variants', []))
            else:
                shapes = {_shape(x) for x in ev(c.get('scrut'), param, variant) if not (isinstance(x, dict) and x.get('k') == 'never')}
                if shapes and None not in shapes:
                    hits = {s in _short(c.get('variants', [])) for s in shapes}
                    if len(hits) == 1:
                        t = hits.pop()
        elif isinstance(c, dict) and c.get('k') == 'matches' and _is_param(c.get('scrut'), param) and not c.get('guard'):
            t = variant in _short(c.get('variants', []))
        if t is None:
            return None
        return t != neg
    return None


def per_variant(ctx, f, enum_name, param=None):
    """{variant name: [value trees]} for every variant of `enum_name`: what `f` (inlined view) returns when its parameter of
    that enum type is the variant.  Exits whose guard frames are false under the assumption are dropped, `never` results too."""
    G = ctx.x(f)
    if param is None:
        cands = [p['name'] for p in f['params'] if enum_name in str(p.get('ty') or '')]
        if not cands:
            return {}
        param = cands[0]
    exits = [(r.get('guard', []), r.get('v')) for r in G.get('returns', []) if r.get('v') is not None]
    if G.get('tail') is not None:
        exits.append(([], G['tail']))
    enum = ctx.item('enum', enum_name)
    out = {}
    for var in enum['variants']:
        V = var['name']
        vals = []
        for frames, val in exits:
            # arm frames with a catch-all pattern hold only if no sibling arm names the variant: approximate by checking the
            # explicit arms of the same match (recorded in f['matches'])
            verdicts = []
            for fr in frames:
                t = frame_truth(fr, param, V)
                if t is None and fr.get('k') == 'arm' and _is_param(fr.get('scrut'), param):
                    named_elsewhere = any(V in _short(a.get('variants', [])) for m in G.get('matches', []) if vt.ckey(m.get('scrut')) == vt.ckey(fr.get('scrut')) and any(a2.get('line') == fr.get('line') for a2 in m.get('arms', [])) for a in m.get('arms', []))
                    t = not named_elsewhere
                verdicts.append(t)
            if any(t is False for t in verdicts):
                continue
            for x in ev(copy.deepcopy(val), param, V):
                if isinstance(x, dict) and x.get('k') == 'never':
                    continue
                if _contains_never(x):
                    continue
                vals.append(x)
        out[V] = vals
    return out


def _contains_never(v, d=0):
    if d > 30:
        return False
    if isinstance(v, dict):
        if v.get('k') == 'never':
            return True
        if v.get('k') in ('cond', 'match', 'alt'):
            return False   # a never inside an undecided alternative does not kill the whole value
        return any(_contains_never(x, d + 1) for x in v.values())
    if isinstance(v, list):
        return any(_contains_never(x, d + 1) for x in v)
    return False
