"""Traversal-coverage helpers: does a match over an IR enum visit every type-carrying payload of every variant?"""
import re

from . import core, vt


def payload_positions(ctx, enum_name, needle='RustType'):
    """{variant: [payload positions (index or field name) whose type mentions `needle`]} from the enum's own definition."""
    e = ctx.item('enum', enum_name)
    out = {}
    for v in e['variants']:
        pos = [f['name'] for f in v['fields'] if re.search(needle, f['ty'])]
        if pos:
            out[v['name']] = (pos, [f['name'] for f in v['fields']], v['kind'])
    return out


def split_alts(pat):
    """Top-level `|` alternatives of a pattern token string."""
    out, depth, cur = [], 0, ''
    for ch in pat:
        if ch in '([{':
            depth += 1
        elif ch in ')]}':
            depth -= 1
        if ch == '|' and depth == 0:
            out.append(cur.strip())
            cur = ''
        else:
            cur += ch
    if cur.strip():
        out.append(cur.strip())
    return out


def alt_bindings(alt, enum_name, variant, field_names, kind):
    """For one pattern alternative naming enum::variant: {payload position -> bound identifier or None}."""
    # strip wrappers such as `RustType :: Special ( ... )` around a nested pattern
    m = re.search(rf'{enum_name}\s*::\s*{variant}\b\s*([\(\{{])?', alt)
    if not m:
        m = re.search(rf'\bSelf\s*::\s*{variant}\b\s*([\(\{{])?', alt)
    if not m:
        return None
    if not m.group(1):
        return {}
    open_ch = m.group(1)
    close_ch = ')' if open_ch == '(' else '}'
    i = m.end()
    depth, cur, parts = 1, '', []
    while i < len(alt) and depth > 0:
        ch = alt[i]
        if ch in '([{':
            depth += 1
        elif ch in ')]}':
            depth -= 1
            if depth == 0:
                break
        if ch == ',' and depth == 1:
            parts.append(cur.strip())
            cur = ''
        else:
            cur += ch
        i += 1
    if cur.strip():
        parts.append(cur.strip())
    res = {}
    if open_ch == '(':
        for ix, p in enumerate(parts):
            name = re.sub(r'^(ref\s+|mut\s+|&\s*)+', '', p).strip()
            res[str(ix)] = name if re.fullmatch(r'[a-z_][A-Za-z0-9_]*', name) and name != '_' else None
    else:
        rest = any(p.strip() == '..' for p in parts)
        for p in parts:
            p = p.strip()
            if p == '..':
                continue
            if ':' in p:
                fld, sub = [x.strip() for x in p.split(':', 1)]
                sub = re.sub(r'^(ref\s+|mut\s+|&\s*)+', '', sub)
                res[fld] = sub if re.fullmatch(r'[a-z_][A-Za-z0-9_]*', sub) and sub != '_' else None
            else:
                nm = re.sub(r'^(ref\s+|mut\s+)+', '', p)
                res[nm] = nm
        for f in field_names:
            res.setdefault(f, None)
    return res


def find_matches(f, enum_name):
    # `Self::Variant` patterns inside `impl Enum`
    if (f.get('self_ty') or '').split('<')[0] == enum_name:
        for m in f['matches']:
            for a in m['arms']:
                a['variants'] = [v.replace('Self::', enum_name + '::') for v in a['variants']]
                a['pat'] = re.sub(r'\bSelf\s*::', enum_name + ' :: ', a['pat'])
    return [m for m in f['matches'] if any(re.search(rf'\b{enum_name}::', v) or v.startswith(f'{enum_name}::') for a in m['arms'] for v in a['variants'])]


def flows(ctx, f, enum_name, variant, pos, callees, uses_ok=False):
    """Dataflow form of "the payload is handed to a callee": in the inlined view of f (local helpers expanded) some call
    to one of `callees`, made under the arm of this variant, has an argument (or receiver) whose value derives from the
    payload position `pos` of `enum_name::variant` — directly, as a loop element, or through an iterator adaptor."""
    v = ctx.x(f)
    full = f'{enum_name}::{variant}'
    for c in v['calls']:
        nm = str(c.get('f') or '').split('::')[-1]
        if nm not in callees and not (uses_ok and nm):
            continue
        if not any(fr.get('k') == 'arm' and any(full in str(x) for x in fr.get('variants', [])) for fr in c.get('guard', [])):
            continue
        vals = list(c.get('args', [])) + ([c['recv']] if c.get('recv') is not None else [])
        for x in (y for val in vals for y in vt.walk(val)):
            if x.get('k') == 'payload' and str(x.get('variant', '')).endswith(full) and (str(x.get('field')) == str(pos) or str(x.get('pos')) == str(pos)):
                return True
        # or-patterns (`A(ty) | B(ty, _) | C(ty) => f(ty)`): one binding stands for the payload of every alternative; the evaluator
        # records it as the payload of the first one — so look the name bound at (variant, pos) up in the arm's own pattern
        e = next((i for i in ctx.astq['items'] if i['kind'] == 'enum' and i['name'] == enum_name), None)
        var = next((w for w in (e or {}).get('variants', []) if w['name'] == variant), None)
        if var is not None:
            for fr in c.get('guard', []):
                if fr.get('k') != 'arm' or not any(full in str(x) for x in fr.get('variants', [])):
                    continue
                b = alt_bindings(str(fr.get('pat', '')), enum_name, variant, [f_['name'] for f_ in var['fields']], var.get('kind'))
                name = (b or {}).get(str(pos))
                if name and any(y.get('k') == 'var' and y.get('name') == name for val in vals for y in vt.walk(val)):
                    return True
    return False


def is_payload_of(x, enum_name, variant, pos):
    """x is the payload node of `enum_name::variant` at position / field `pos` (or-patterns: listed under `also`)."""
    if not (isinstance(x, dict) and x.get('k') == 'payload'):
        return False
    full = f'{enum_name}::{variant}'

    def hit(d):
        vn = str(d.get('variant', '')).replace(' ', '')
        return (vn.endswith(full) or vn == f'Self::{variant}' or vn == variant) and (str(d.get('field')) == str(pos) or str(d.get('pos')) == str(pos))
    return hit(x) or any(hit(d) for d in x.get('also', []) or [])


def flows_special(ctx, f, enum_name, variant, pos, callees, uses_ok=False):
    """Specialised form of `flows`: the function (inlined view: helpers such as `type_arguments()` expanded) is partially
    evaluated under "the enum-typed parameter is `variant`" (vlib/special.py); the payload at `pos` reaches a call to one of
    `callees` when the specialised receiver/argument of such a call, made on a path the assumption does not exclude, contains
    that payload.  No match over the enum has to be written in f itself."""
    from . import special
    v = ctx.x(f)
    param = next((p['name'] for p in f['params'] if enum_name in str(p.get('ty') or '')), None)
    if param is None and (f.get('self_ty') or '').split('<')[0] == enum_name:
        param = 'self'
    if param is None:
        return False
    specs = [special.EnumSpec(param, variant)]
    for c in v['calls']:
        nm = str(c.get('f') or '').split('::')[-1]
        if nm not in callees and not (uses_ok and nm):
            continue
        if not special.frames_hold(v, c.get('guard', []), specs):
            continue
        vals = list(c.get('args', [])) + ([c['recv']] if c.get('recv') is not None else [])
        for val in vals:
            if not isinstance(val, dict):
                continue
            for alt in special.evs(val, specs)[:12]:
                if any(is_payload_of(x, enum_name, variant, pos) for x in vt.walk(alt)):
                    return True
    return False


def check_recursion(rep, rule, ctx, f, enum_name, callees, label, needle='RustType', uses_ok=False):
    """Every payload-carrying variant of `enum_name` has an explicit arm in f's match over it, in which every
    type-carrying payload is bound and handed to one of `callees` (or, with uses_ok, at least used)."""
    pp = payload_positions(ctx, enum_name, needle)
    ms = find_matches(f, enum_name)
    site = {'file': f['file'], 'line': f['line']}
    n = 0
    for variant, (positions, field_names, kind) in pp.items():
        key = f"{label}:{enum_name}::{variant}"
        arms = []
        for m in ms:
            for a in m['arms']:
                if any(v == f'{enum_name}::{variant}' or v.endswith(f'({enum_name}::{variant})') or f'{enum_name}::{variant}' in v for v in a['variants']):
                    arms.append(a)
        n += 1
        if not arms:
            # no arm of its own in f: the variant may be handled through a helper that sorts the payloads out (asked of the
            # specialised, inlined function)
            missing = [pos for pos in positions if not flows_special(ctx, f, enum_name, variant, pos, callees, uses_ok)]
            if not missing:
                rep.ok(rule, key, 'every type payload visited (through a helper; specialised view)', site)
                continue
            if not ms:
                rep.fail(rule, key, f"{f['qual']}: the payload(s) {missing} of {enum_name}::{variant} do not reach {'/'.join(callees) or 'any use'} on the paths taken for that variant: the types inside it are never visited", site)
            else:
                rep.fail(rule, key, f"{f['qual']} has no arm for {enum_name}::{variant} (it falls into the catch-all): the types inside it are never visited", site)
            continue
        a = arms[0]
        problems = []
        for alt in split_alts(a['pat']):
            b = alt_bindings(alt, enum_name, variant, field_names, kind)
            if b is None:
                continue
            for pos in positions:
                name = b.get(pos)
                if not name:
                    problems.append(f"payload `{pos}` is not bound (`_`/`..`)")
                    continue
                body = a['body']
                if flows(ctx, f, enum_name, variant, pos, callees, uses_ok):
                    continue
                called = any(re.search(rf'\b{re.escape(c)}\s*\((?:[^;{{}}]|\{{[^{{}}]*\}})*\b{name}\b', body) or re.search(rf'\b{name}\s*(?:\.\s*(?:as_ref|deref|as_mut)\s*\(\s*\)\s*)?\.\s*{re.escape(c)}\s*\(', body) for c in callees)
                if not called:
                    # the payload may be a collection that is iterated, its elements going to the callee
                    lv = re.search(rf'for\s+(\w+)\s+in\s+&?\s*(?:mut\s+)?{name}\b', body) or re.search(rf'\b{name}\s*\.\s*iter(?:_mut)?\s*\(\s*\)[^;]*?\|\s*(\w+)\s*\|', body)
                    if lv and any(re.search(rf'\b{re.escape(c)}\s*\((?:[^;{{}}]|\{{[^{{}}]*\}})*\b{lv.group(1)}\b', body) for c in callees):
                        continue
                    if uses_ok and re.search(rf'\b{name}\b', body):
                        continue
                    if a.get('empty') or not re.search(rf'\b{name}\b', body):
                        problems.append(f"payload `{pos}` ({name}) is ignored")
                    else:
                        problems.append(f"payload `{pos}` ({name}) is not passed to {'/'.join(callees)}")
        rep.check(not problems, rule, key, 'every type payload visited', f"{f['qual']}, arm {enum_name}::{variant}: " + '; '.join(sorted(set(problems))), {'file': f['file'], 'line': a['line']})
    return n
