"""Rules about the attribute-reading layer of core/src/parser.rs shared by several properties."""
import json
import re

from . import core, vt

ATTR_STREAM = {'iter', 'into_iter', 'filter', 'inspect', 'rev', 'cloned', 'copied', 'enumerate', 'peekable', 'by_ref', 'as_ref', 'to_vec', 'clone'}
TRUNC = {'find', 'first', 'next', 'nth', 'take', 'last', 'position', 'skip', 'get', 'take_while', 'skip_while', 'split_first', 'split_last', 'find_map', 'rposition', 'step_by', 'next_back', 'pop', 'truncate'}


def is_attr_param(p):
    t = (p.get('ty') or '').replace('syn::', '')
    return t in ('[Attribute]', 'Vec<Attribute>') or t.endswith('[Attribute]')


def attr_level(v, params):
    """Is v a stream/slice of whole attributes derived from an attrs parameter through attribute-preserving steps?"""
    v0 = v
    while isinstance(v, dict):
        kk = v.get('k')
        if kk in ('var', 'try', 'some'):
            v = v['v']
            continue
        if kk == 'atom':
            return v.get('root') in params and not v.get('path')
        if kk == 'call' and v.get('f') in ATTR_STREAM and v.get('recv') is not None:
            v = v['recv']
            continue
        return False
    return False


def functions_looking_for(ctx, key, files):
    """Functions with an attribute (list) parameter that mention the attribute-argument name `key` as a string literal
    (is_ident("key"), get_name_value_meta_items(.., "key", ..), a pattern guard ...) or through a constant whose value is it."""
    consts = {it['name'] for it in ctx.astq['items'] if it['kind'] in ('const', 'static') and (it.get('strings') or []) == [key]}
    out = []
    for f in ctx.astq['functions']:
        if not any(f['file'].endswith(x) for x in files):
            continue
        if not any(is_attr_param(p) or (p.get('ty') or '').replace('syn::', '').lstrip('&').strip() in ('Attribute', 'Meta') for p in f['params']):
            continue
        txt = json.dumps(f)
        if f'"v": "{key}"' in txt or f'\\"{key}\\"' in txt or any(re.search(rf'\b{c}\b', txt) for c in consts):
            out.append(f)
    return out


def all_attrs_rule(ctx, rep, rule, roots, floor, files=('parser.rs', 'visitors.rs'), keys=()):
    """Every attribute look-up the property depends on examines all attributes of the node: no truncating adapter on
    the attribute stream itself.  `roots` are the look-ups the property's behaviour goes through; the rule covers them
    and every attribute-reading helper they (transitively) delegate to — look-ups serving other properties are not
    this property's business."""
    fs = [f for f in ctx.astq['functions'] if any(f['file'].endswith(x) for x in files)]
    by = {}
    for f in fs:
        by.setdefault(f['name'].split('::')[-1], []).append(f)
    # the look-ups are identified by what they look for (`keys`: attribute-argument names), so that a renamed, merged or
    # moved look-up function is still covered; the historical names in `roots` are used when they exist
    by_key = []
    for key in keys:
        fk = functions_looking_for(ctx, key, files)
        if not fk:
            raise core.Incomplete(f'{rule}: no attribute-reading function looks for `{key}` in {files}')
        by_key += [f['name'].split('::')[-1] for f in fk]
    missing = [r for r in roots if r not in by]
    if missing and not keys:
        raise core.Incomplete(f'{rule}: attribute look-up(s) {missing} not found in {files}')
    rel, todo = set(), [r for r in roots if r in by] + by_key
    while todo:
        nm = todo.pop()
        if nm in rel:
            continue
        rel.add(nm)
        for f in by.get(nm, []):
            for c in f['calls']:
                cal = c.get('f') if c.get('recv') is None else None
                cal = cal or (c.get('path') or '').split('::')[-1]
                if cal in by and cal not in rel:
                    todo.append(cal)
    n = 0
    for f in fs:
        if f['name'].split('::')[-1] not in rel:
            continue
        params = {p['name'] for p in f['params'] if is_attr_param(p)}
        if not params:
            continue
        n += 1
        bad = []
        for c in f['calls']:
            if c.get('f') in TRUNC and isinstance(c.get('recv'), dict) and attr_level(c['recv'], params):
                bad.append(c)
        for ix in f['indexes']:
            if attr_level(ix['base'], params):
                bad.append({'f': 'index', 'line': ix['line'], 'recv': ix['base']})
        site = {'file': f['file'], 'line': f['line']}
        if bad:
            b = bad[0]
            rep.fail(rule, f"{f['name']}:all-attributes", f"{f['name']} truncates the attribute list itself with `{b['f']}` ({vt.show(b.get('recv'))[:70]}) — an attribute argument placed in a second #[serde(..)]/#[typeshare(..)] attribute (any spelling and order is in scope) is not seen", {'file': f['file'], 'line': b.get('line', f['line'])})
        else:
            rep.ok(rule, f"{f['name']}:all-attributes", 'every attribute of the node is examined', site)
    # with `keys` the coverage requirement is per key (checked above: every key has a reader); the count is informational
    rep.floor(rule, 'attribute-reading functions the property depends on', n, 1 if keys else floor)


FIELD_CONSUMERS = ('parse_struct', 'parse_enum_variant')


def field_sites(ctx):
    """The RustField construction sites in parser.rs: [(fn, struct-literal fact)].  A site inside a helper (a function
    other than the two item parsers) is specialised per call site: the helper's parameters are replaced by the caller's
    arguments, and the pair is attributed to the calling parser.  Fails closed when one of the two item parsers
    (named struct fields / struct-variant fields) reaches no construction site."""
    from . import emit
    fns = ctx.fns(file='parser.rs')
    out = []

    def specialise(f, st, depth=0):
        if f['name'] in FIELD_CONSUMERS or depth > 3:
            return [(f, st)]
        res = []
        params = [p['name'] for p in f['params'] if p['name'] != 'self']
        for g in fns:
            for c in g['calls']:
                if c.get('f') == f['name'] and c.get('recv') is None and len(c.get('args', [])) == len(params):
                    env = dict(zip(params, c['args']))
                    st2 = dict(st, v=emit.subst(st['v'], env), via=f['name'], home=st.get('home') or f)
                    res.extend(specialise(g, st2, depth + 1))
        return res or [(f, st)]

    for f in fns:
        # literals are read from the inlined view of the function that contains them (a `parse_field_type(field)?` helper
        # inside the builder is expanded), literals that only arrive through inlining belong to the helper itself
        fv = ctx.x(f)
        own_lines = {st['line'] for st in f['structs']}
        for st in fv['structs']:
            if st['path'].split('::')[-1] == 'RustField' and st['line'] in own_lines and not st.get('via'):
                out.extend(specialise(f, st))
    have = {f['name'] for f, _ in out}
    missing = [c for c in FIELD_CONSUMERS if c not in have]
    if missing:
        raise core.Incomplete(f'RustField construction not found for {missing} (directly or through a helper)')
    return out


def elem_root(v):
    """For a closure element value (`each(..)`), the root parameter the collection was taken from."""
    seen = 0
    while isinstance(v, dict) and seen < 50:
        seen += 1
        kk = v.get('k')
        if kk in ('var', 'try', 'some'):
            v = v['v']
        elif kk == 'atom':
            return v.get('root')
        elif kk in ('elem', 'payload'):
            v = v.get('of')
        elif kk == 'field':
            v = v.get('base')
        elif kk == 'call':
            v = v.get('recv') if v.get('recv') is not None else (v['args'][0] if v.get('args') else None)
        elif kk == 'index':
            v = v.get('base')
        else:
            return None
    return None


def attr_lookup_spec(ctx, fn_name):
    """(name literal, namespace const) a boolean/valued attribute helper looks for, following one level of delegation."""
    f = ctx.fn(fn_name, file='parser.rs')
    for c in f['calls']:
        if c.get('f') in ('serde_attr', 'get_name_value_meta_items'):
            lits = [vt.strip(a) for a in c.get('args', [])]
            names = [a.get('v') for a in lits if isinstance(a, dict) and a.get('k') == 'lit']
            consts = [a.get('text') for a in lits if isinstance(a, dict) and a.get('k') == 'path']
            return c['f'], names, consts
    return None, [], []


# ---------------------------------------------------------------------------------------------------------------
# Attribute look-up summaries.  For a function of parser.rs: the set of (namespace, argument name, meta kind) triples
# its result can depend on, computed bottom-up through helper calls with parameters bound at each call site — so the
# answer does not depend on whether a look-up is written inline, through a shared helper, as an iterator chain or as
# a loop.  Values are ('const', NAME) | ('lit', text) | ('param', index) | ('?', text).

_CONST_STR = {}


def _const_str(ctx, name):
    """The string a `const NAME: &str = ".."` of parser.rs stands for (None if it is not such a constant)."""
    if not _CONST_STR.get(id(ctx)):
        _CONST_STR.clear()
        _CONST_STR[id(ctx)] = {i['name']: i['strings'][0] for i in ctx.astq['items'] if i['kind'] in ('const', 'static') and i['file'].endswith('parser.rs') and len(i.get('strings') or []) == 1}
    return _CONST_STR[id(ctx)].get(name)


def _val(v, params):
    # a named constant the evaluator resolved (`SERDE` := "serde"): keep the name — namespaces are identified by it, and
    # lookup_closed turns argument-name constants into their string
    c0 = v
    while isinstance(c0, dict) and c0.get('k') in ('ref', 'deref', 'paren'):
        c0 = c0.get('v')
    if isinstance(c0, dict) and c0.get('k') == 'var' and c0.get('const') and c0.get('name'):
        return ('const', str(c0['name']))
    v0 = vt.unvar(v)
    # the loop variable of `for ns in namespaces` (a parameter holding a list): one value per element at the call site
    if isinstance(v0, dict) and v0.get('k') == 'elem':
        of = vt.unvar(v0.get('of'))
        while isinstance(of, dict) and (of.get('k') in ('ref', 'deref', 'paren') or (of.get('k') == 'call' and of.get('f') in ('iter', 'into_iter', 'copied', 'cloned') and of.get('recv') is not None)):
            of = vt.unvar(of.get('v') if of.get('k') != 'call' else of.get('recv'))
        if isinstance(of, dict) and of.get('k') == 'atom' and not of.get('path') and of.get('root') in params:
            return ('param-elem', params.index(of['root']))
    v = vt.strip(v)
    if isinstance(v, dict) and v.get('k') == 'atom' and len(v.get('path') or []) == 1 and v.get('root') in params:
        return ('param-field', params.index(v['root']), v['path'][0])
    if isinstance(v, dict):
        if v.get('k') == 'lit':
            return ('lit', str(v.get('v')))
        if v.get('k') == 'path':
            return ('const', str(v.get('text', '')).replace(' ', '').split('::')[-1])
        if v.get('k') == 'atom' and not v.get('path') and v.get('root') in params:
            return ('param', params.index(v['root']))
        if v.get('k') == 'atom' and not v.get('path') and str(v.get('root', '')).isupper():
            return ('const', v['root'])
    return ('?', vt.show(v)[:30])


def _object_fields(ctx, v, params, depth=0):
    """Field values of a small key object — `{field: _val}` — for: a struct literal; a constant whose initialiser is a struct
    literal or a (const) constructor call `T::ctor("lit")`; such a constructor call written in place.  ('param', i) when the
    value is the caller's own parameter (the object is passed on unchanged); None when it cannot be followed."""
    v = vt.strip(v)
    while isinstance(v, dict) and v.get('k') in ('ref', 'deref', 'paren'):
        v = vt.strip(v.get('v'))
    if not isinstance(v, dict) or depth > 4:
        return None
    if v.get('k') == 'atom' and not v.get('path') and v.get('root') in params:
        return ('param', params.index(v['root']))
    if v.get('k') == 'struct' and isinstance(v.get('fields'), dict):
        return {k2: _val(x, params) for k2, x in v['fields'].items()}
    if v.get('k') in ('path', 'atom') and not v.get('path'):
        name = str(v.get('text') or v.get('root') or '').replace(' ', '').split('::')[-1]
        it = [i for i in ctx.astq['items'] if i['kind'] in ('const', 'static') and i['name'] == name and i['file'].endswith('parser.rs')]
        if len(it) == 1 and it[0].get('expr'):
            m = re.fullmatch(r'\s*([A-Za-z_][A-Za-z0-9_]*)\s*::\s*([a-z_][A-Za-z0-9_]*)\s*\((.*)\)\s*', it[0]['expr'], re.S)
            if m:
                args = [a_.strip() for a_ in m.group(3).split(',') if a_.strip()]
                vals = [('lit', a_[1:-1]) if re.fullmatch(r'"[^"\\]*"', a_) else ('const', a_) if re.fullmatch(r'[A-Z_][A-Z0-9_]*', a_) else ('?', a_[:20]) for a_ in args]
                return _ctor(ctx, m.group(1), m.group(2), vals, depth)
        return None
    if v.get('k') == 'call' and v.get('recv') is None and '::' in str(v.get('f', '')):
        ty, ctor = str(v['f']).replace(' ', '').split('::')[-2:]
        return _ctor(ctx, ty, ctor, [_val(a_, params) for a_ in v.get('args', [])], depth)
    return None


def _ctor(ctx, ty, ctor, vals, depth):
    fs = [g for g in ctx.fns(file='parser.rs') if g['name'].split('::')[-1] == ctor and (g.get('self_ty') or '').split('<')[0] == ty]
    if len(fs) != 1:
        return None
    g = fs[0]
    gp = [p_['name'] for p_ in g['params']]
    lit = vt.strip(g.get('tail'))
    if not (isinstance(lit, dict) and lit.get('k') == 'struct' and isinstance(lit.get('fields'), dict)) or len(gp) != len(vals):
        return None
    out = {}
    for k2, x in lit['fields'].items():
        w = _val(x, gp)
        out[k2] = vals[w[1]] if w[0] == 'param' else w
    return out


def lookup_summary(ctx, fn_name, _memo=None, _stack=()):
    memo = _memo if _memo is not None else {}
    if fn_name in memo:
        return memo[fn_name]
    fl = [f for f in ctx.fns(file='parser.rs') if f['name'] == fn_name]
    if not fl or fn_name in _stack:
        return set()
    f = fl[0]
    params = [p['name'] for p in f['params']]
    local = {g['name'] for g in ctx.fns(file='parser.rs')}
    txt = json.dumps(f)
    kinds = set(re.findall(r'Meta\s*::\s*(Path|NameValue|List)', txt))
    ns = {_val(c['args'][1], params) for c in f['calls'] if c.get('f') == 'get_meta_items' and c.get('recv') is None and len(c.get('args', [])) == 2}
    # is_ident(x) appears as a call or inside a `matches!`/match-arm guard that astq keeps as text
    def on_attribute_path(c):
        # `attr.path().is_ident("cfg")` names the attribute itself (its namespace), not one of its arguments
        r = vt.strip(c.get('recv')) if c.get('recv') is not None else None
        return isinstance(r, dict) and r.get('k') == 'call' and r.get('f') == 'path' and not r.get('args')
    names = {_val(c['args'][0], params) for c in f['calls'] if c.get('f') == 'is_ident' and c.get('args') and not on_attribute_path(c)}
    for x in vt.walk(f.get('tail')):
        if x.get('k') == 'call' and x.get('f') == 'is_ident' and x.get('args') and not on_attribute_path(x):
            names.add(_val(x['args'][0], params))
    for m in re.findall(r'is_ident\s*\(\s*("([^"\\]*)"|[A-Za-z_][A-Za-z0-9_]*)\s*\)', ' '.join(a.get('guard_text') or '' for mm in f['matches'] for a in mm['arms']) + ' ' + ' '.join(str(a.get('pat', '')) for mm in f['matches'] for a in mm['arms'])):
        names.add(('lit', m[1]) if m[0].startswith('"') else (('param', params.index(m[0])) if m[0] in params else ('const', m[0])))
    out = set()
    # fragments of a look-up that live in a private helper without a namespace of its own (`name_value_string(&meta, name)`: the
    # `Meta::NameValue` test and the `is_ident(name)` test, the namespace staying with the caller's get_meta_items): its argument
    # names and meta kinds are this function's, with the helper's parameters bound at the call site
    for c in f['calls']:
        g = c.get('f')
        if g in local and g not in ('get_meta_items', fn_name) and c.get('recv') is None and g not in _stack:
            gf = [gg for gg in ctx.fns(file='parser.rs') if gg['name'] == g][0]
            gtxt = json.dumps(gf)
            g_ns = [cc for cc in gf['calls'] if cc.get('f') == 'get_meta_items']
            if g_ns or lookup_summary(ctx, g, memo, _stack + (fn_name,)):
                continue
            gparams = [p_['name'] for p_ in gf['params']]
            g_kinds = set(re.findall(r'Meta\s*::\s*(Path|NameValue|List)', gtxt))
            g_names = {_val(cc['args'][0], gparams) for cc in gf['calls'] if cc.get('f') == 'is_ident' and cc.get('args') and not on_attribute_path(cc)}
            for x in vt.walk(gf.get('tail')):
                if x.get('k') == 'call' and x.get('f') == 'is_ident' and x.get('args') and not on_attribute_path(x):
                    g_names.add(_val(x['args'][0], gparams))
            if g_kinds and g_names:
                kinds |= g_kinds
                for nm_ in g_names:
                    if nm_[0] == 'param' and nm_[1] < len(c.get('args', [])):
                        names.add(_val(c['args'][nm_[1]], params))
                    elif nm_[0] in ('lit', 'const'):
                        names.add(nm_)
    if ns and names and kinds:
        out |= {(a, b, kd) for a in ns for b in names for kd in kinds}
    for c in f['calls']:
        g = c.get('f')
        if g in local and g not in ('get_meta_items',) and g != fn_name and (c.get('recv') is None or any(p_['name'] == 'self' for gg in ctx.fns(file='parser.rs') if gg['name'] == g for p_ in gg['params'])):
            sub = lookup_summary(ctx, g, memo, _stack + (fn_name,))
            gfs = [gg for gg in ctx.fns(file='parser.rs') if gg['name'] == g]
            gparams = [p['name'] for p in gfs[0]['params']]
            # actual arguments aligned with the callee's parameters (`self` first for a method call)
            actual = ([c['recv']] if c.get('recv') is not None and gparams[:1] == ['self'] else []) + list(c.get('args', []))
            c = dict(c, args=actual)
            for (a, b, kd) in sub:
                def bind(x):
                    if x[0] == 'param-field':
                        if x[1] >= len(c.get('args', [])):
                            return [('?', 'arg')]
                        obj = _object_fields(ctx, c['args'][x[1]], params)
                        if obj is None:
                            return [('?', vt.show(c['args'][x[1]])[:30])]
                        if isinstance(obj, tuple):          # the caller's own parameter object, passed on
                            return [('param-field', obj[1], x[2])]
                        return [obj.get(x[2], ('?', x[2]))]
                    if x[0] == 'param':
                        return [_val(c['args'][x[1]], params)] if x[1] < len(c.get('args', [])) else [('?', 'arg')]
                    if x[0] == 'param-elem':
                        if x[1] >= len(c.get('args', [])):
                            return [('?', 'arg')]
                        lst = vt.strip(c['args'][x[1]])
                        while isinstance(lst, dict) and lst.get('k') in ('ref', 'deref', 'paren'):
                            lst = vt.strip(lst.get('v'))
                        if isinstance(lst, dict) and lst.get('k') == 'array' and lst.get('items'):
                            return [_val(it, params) for it in lst['items']]
                        if isinstance(lst, dict) and lst.get('k') == 'atom' and not lst.get('path') and lst.get('root') in params:
                            return [('param-elem', params.index(lst['root']))]
                        return [('?', vt.show(lst)[:30])]
                    return [x]
                for a2 in bind(a):
                    for b2 in bind(b):
                        out.add((a2, b2, kd))
    memo[fn_name] = out
    return out


def bool_result(f):
    """The value of a bool-returning function as ONE boolean value tree, early returns folded in:
    `if c { return true } rest`  ≡  c || rest;   `if c { return false } rest`  ≡  !c && rest.
    Returns (value, None) or (None, reason) when an early return is not of that foldable form."""
    res = f.get('tail')
    for r in reversed(f.get('returns', [])):
        # frames that only say "an earlier `if .. { return }` was not taken" are implied by folding the returns in order
        frames = [fr for fr in r.get('guard', []) if fr.get('k') in ('if', 'arm', 'for', 'while', 'loop', 'closure') and not (fr.get('k') == 'if' and fr.get('early_exit') and not any(x.get('k') in ('for', 'while', 'loop', 'closure') for x in r.get('guard', [])))]
        v = vt.strip(r.get('v'))
        if len(frames) != 1 or frames[0].get('k') != 'if' or not (isinstance(v, dict) and v.get('k') == 'lit' and isinstance(v.get('v'), bool)):
            return None, f"line {r.get('line')}: `return {vt.show(r.get('v'))[:50]}` under {[fr.get('k') for fr in frames]}"
        c = frames[0].get('c')
        if frames[0].get('neg'):
            c = {'k': 'op', 'op': '!', 'args': [c], 'ty': 'bool'}
        if v['v'] is True:
            res = {'k': 'op', 'op': '||', 'args': [c, res], 'ty': 'bool'}
        else:
            res = {'k': 'op', 'op': '&&', 'args': [{'k': 'op', 'op': '!', 'args': [c], 'ty': 'bool'}, res], 'ty': 'bool'}
    return res, None


def lookup_closed(ctx, fn_name):
    """Summary restricted to fully bound triples: {(NAMESPACE, name, kind)}; unbound ones are returned separately."""
    sm = set()
    for a, b, kd in lookup_summary(ctx, fn_name):
        # an argument name spelled through a string constant (`const FLAG_SKIP: &str = "skip"`) is that string
        if b[0] == 'const' and _const_str(ctx, b[1]) is not None and b[1] not in ('SERDE', 'TYPESHARE'):
            b = ('lit', _const_str(ctx, b[1]))
        sm.add((a, b, kd))
    closed = {(a[1], b[1], kd) for a, b, kd in sm if a[0] == 'const' and b[0] == 'lit'}
    open_ = {(a, b, kd) for a, b, kd in sm if not (a[0] == 'const' and b[0] == 'lit')}
    return closed, open_


def _skip_test(c):
    """(call, negated) when the condition is `is_skipped(<elem>.attrs, target_os)` possibly under `!`s; else None."""
    neg = False
    c = vt.strip(c)
    while isinstance(c, dict) and c.get('k') == 'op' and c.get('op') == '!' and len(c.get('args', [])) == 1:
        neg = not neg
        c = vt.strip(c['args'][0])
    if not (isinstance(c, dict) and c.get('k') == 'call' and c.get('recv') is None and str(c.get('f')) == 'is_skipped' and len(c.get('args', [])) == 2):
        return None
    a0, a1 = vt.strip(c['args'][0]), vt.strip(c['args'][1])
    if not (vt.show(a0).endswith('.attrs') and vt.show(a1) == 'target_os'):
        return None
    return c, neg


def loop_skip_filter(frames):
    """The loop form of `members.iter().filter(|m| !is_skipped(&m.attrs, target_os))`:

        for m in members { if is_skipped(&m.attrs, target_os) { continue; }  <here> }
        for m in members { if !is_skipped(&m.attrs, target_os) { <here> } }

    Returns (for-frame, [other conditional frames between the `for` and <here>]) when <here> is reached only for
    non-skipped members of the innermost enclosing `for`, else None.  The `other` frames are further conditions under which a
    member is (not) taken — rules that demand "exactly one filter" look at them."""
    fi = max((i for i, fr in enumerate(frames) if fr.get('k') == 'for'), default=None)
    if fi is None:
        return None
    loop = frames[fi]
    over = vt.show(vt.strip(loop.get('over') or loop.get('c') or {}))
    found, other = False, []
    for fr in frames[fi + 1:]:
        if fr.get('k') not in ('if', 'arm'):
            continue
        t = _skip_test(fr.get('c')) if fr.get('k') == 'if' else None
        if t is not None:
            call, neg = t
            # reached-when-true polarity of the frame: an enclosing `if c` holds c; an early-exit `if c {continue}` holds !c
            holds_not_skipped = (neg != bool(fr.get('neg')))
            member = vt.show(vt.strip(call['args'][0]))
            if holds_not_skipped and (not over or over in member or 'each(' in member):
                found = True
                continue
        other.append(fr)
    return (loop, other) if found else None


def merge_sides(ctx, field):
    """Which sides of `ParsedData += ParsedData` end up in `self.<field>` — a subset of {'self', 'rhs'} — whatever the idiom:
    in-place `self.f.append(&mut rhs.f)` / `extend(rhs.f)` (keeps self, adds rhs), an assignment `self.f = …`, or a rebuilt value
    `*self = ParsedData { f: take(self).f.into_iter().chain(rhs.f).collect(), ..rhs }` (a field not listed comes from the
    struct-update base alone).  None when the merge function is not found."""
    fs = [g for g in ctx.astq['functions'] if g['name'].split('::')[-1] == 'add_assign' and (g.get('self_ty') or '').split('<')[0] == 'ParsedData']
    if len(fs) != 1:
        return None
    f = ctx.x(fs[0])
    other = next((p_['name'] for p_ in f['params'] if p_['name'] != 'self'), 'rhs')

    def sides(v):
        out = set()
        for x in vt.walk(v or {}):
            if x.get('k') == 'atom' and (x.get('path') or [None])[-1] == field:
                out.add('rhs' if x.get('root') == other else ('self' if x.get('root') == 'self' else '?'))
            if x.get('k') == 'field' and x.get('name') == field:
                b = vt.show(x.get('base'))
                out.add('rhs' if b.startswith(other) else ('self' if 'self' in b else '?'))
        return out
    got = set()
    touched = False
    for c in f['calls']:
        if c.get('f') in ('append', 'extend', 'extend_from_slice', 'push') and c.get('recv') is not None and vt.show(vt.strip(c['recv'])).replace(' ', '').lstrip('&').replace('mut', '') in (f'self.{field}',):
            touched = True
            got |= {'self'} | {x for a in c.get('args', []) for x in sides(a)}
    for a in f['assigns']:
        t = vt.show(a.get('target')).replace(' ', '').lstrip('*')
        if t == f'self.{field}':
            touched = True
            got = sides(a.get('value'))
        elif t == 'self':
            val = vt.unvar(a.get('value'))
            if isinstance(val, dict) and val.get('k') == 'struct':
                touched = True
                if field in val.get('fields', {}):
                    got = sides(val['fields'][field])
                else:
                    base = vt.show(val.get('rest')) if val.get('rest') is not None else ''
                    got = {'rhs'} if base.startswith(other) else ({'self'} if 'self' in base else set())
    return got if touched else {'self'}


def raw_prefix_removed(v, param, ctx=None, file='parser.rs', _depth=0):
    """True when the value tree `v` is derived from `param` through a step that removes the raw-identifier prefix:
    `.replace("r#", "")`, `.trim_start_matches("r#")`, `.strip_prefix("r#")` or syn's `Ident::unraw()` — directly, or inside a
    local helper the identifier is handed to (`ident.map_or_else(.., original_name)`, `original_name(id)`)."""
    import json as _json
    if f'"root": "{param}"' not in _json.dumps(v):
        return False
    for n in vt.walk(v):
        n = vt.unvar(n) if isinstance(n, dict) else n
        if ctx is not None and _depth < 3 and isinstance(n, dict) and (n.get('k') == 'path' or (n.get('k') == 'call' and n.get('recv') is None)):
            nm = str(n.get('text') if n.get('k') == 'path' else n.get('f') or '').replace(' ', '').split('::')[-1]
            gs = [g for g in ctx.astq['functions'] if g['file'].endswith(file) and g['name'].split('::')[-1] == nm and [p_ for p_ in g['params'] if p_['name'] != 'self']]
            if len(gs) == 1:
                g = gs[0]
                p0 = [p_['name'] for p_ in g['params'] if p_['name'] != 'self'][0]
                res = [g.get('tail')] + [r.get('v') for r in g.get('returns', [])]
                if any(r is not None and raw_prefix_removed(r, p0, ctx, file, _depth + 1) for r in res):
                    return True
        if not (isinstance(n, dict) and n.get('k') == 'call'):
            continue
        if n.get('f') == 'unraw':
            return True
        if n.get('f') in ('replace', 'replacen', 'trim_start_matches', 'strip_prefix') and n.get('args'):
            a0 = vt.strip(n['args'][0])
            if isinstance(a0, dict) and a0.get('k') == 'lit' and str(a0.get('v')) == 'r#':
                return True
    return False
