// (included into eval.rs) expression / statement evaluation

const ITER_ADAPTERS: &[&str] = &[
    "map", "filter", "filter_map", "flat_map", "for_each", "try_for_each", "any", "all", "find", "find_map", "position",
    "inspect", "skip_while", "take_while", "map_while", "fold", "retain", "and_then", "map_or", "map_or_else", "is_some_and",
    "then", "unwrap_or_else", "or_else", "map_err", "ok_or_else", "sorted_by", "sorted_by_key", "sort_by", "sort_by_key",
    "max_by_key", "min_by_key", "partition", "and_modify", "or_insert_with", "get_or_init", "scan", "dedup_by_key",
];

fn diverges_block(b: &syn::Block) -> bool {
    match b.stmts.last() {
        Some(Stmt::Expr(e, _)) => diverges_expr(e),
        Some(Stmt::Macro(m)) => is_panic_macro(&m.mac),
        _ => false,
    }
}

fn diverges_expr(e: &Expr) -> bool {
    match e {
        Expr::Return(_) | Expr::Break(_) | Expr::Continue(_) => true,
        Expr::Macro(m) => is_panic_macro(&m.mac),
        Expr::Block(b) => diverges_block(&b.block),
        _ => false,
    }
}

fn is_panic_macro(m: &syn::Macro) -> bool {
    let n = m.path.segments.last().map(|s| s.ident.to_string()).unwrap_or_default();
    matches!(n.as_str(), "panic" | "unreachable" | "todo" | "unimplemented")
}

fn replace_none(v: &Value, with: &Value) -> Value {
    match v.get("k").and_then(|k| k.as_str()) {
        Some("none") => with.clone(),
        Some("some") => v.get("v").cloned().unwrap_or(Value::Null),
        Some("cond") => {
            let mut o = v.clone();
            o["t"] = replace_none(&v["t"], with);
            o["e"] = replace_none(&v["e"], with);
            o
        }
        _ => v.clone(),
    }
}

fn has_none_leaf(v: &Value) -> bool {
    match v.get("k").and_then(|k| k.as_str()) {
        Some("none") | Some("some") => true,
        Some("cond") => has_none_leaf(&v["t"]) || has_none_leaf(&v["e"]),
        _ => false,
    }
}

impl<'a> Ev<'a> {
    pub fn block(&mut self, b: &syn::Block, parent: &str) -> Value {
        self.env.push(HashMap::new());
        let g0 = self.guards.len();
        let mut tail = json!({"k":"unit"});
        let n = b.stmts.len();
        for (i, s) in b.stmts.iter().enumerate() {
            let is_last = i + 1 == n;
            match s {
                Stmt::Local(l) => {
                    let v = match &l.init {
                        Some(init) => {
                            let v = self.expr(&init.expr, "let");
                            if let Some((_, d)) = &init.diverge {
                                // let-else: the else branch diverges; it runs exactly when the pattern does not match
                                let mut vs = Vec::new();
                                pat_variants(&l.pat, &mut vs);
                                let c = json!({"k":"iflet","pat":tok(&l.pat),"scrut": if size(&v) > 800 { json!({"k":"big"}) } else { v.clone() },"variants":vs});
                                self.guards.push(json!({"k":"if","c":c.clone(),"neg":true,"line":line_of(l),"let_else":true}));
                                let _ = self.expr(d, "let_else");
                                self.guards.pop();
                                // … and the rest of the block runs exactly when it does match (the frame lives until the block ends)
                                if !vs.is_empty() {
                                    self.guards.push(json!({"k":"if","c":c,"neg":false,"line":line_of(l),"let_else_rest":true,"early_exit":true}));
                                }
                            }
                            v
                        }
                        None => json!({"k":"uninit"}),
                    };
                    let names = pat_names(&l.pat);
                    if self.silent == 0 {
                        self.lets.push(json!({"names":names,"line":line_of(l),"pat":tok(&l.pat),"guard":self.guard_json(),"v": if size(&v) > 800 { json!({"k":"big"}) } else { v.clone() }}));
                    }
                    self.bind_pat(&l.pat, &v);
                }
                Stmt::Item(it) => {
                    if let syn::Item::Fn(f) = it {
                        // nested fn: record as a closure-like local definition evaluated on its own
                        let nested = eval_fn(self.idx, "", "", None, None, &f.sig, &f.block, &f.attrs, "");
                        if self.silent == 0 {
                            self.lets.push(json!({"names":[f.sig.ident.to_string()],"line":line_of(f),"nested_fn":nested,"guard":self.guard_json()}));
                        }
                    }
                    if let syn::Item::Const(c) = it {
                        // local constant: a named value of this body
                        let v = self.expr(&c.expr, "const_init");
                        let name = c.ident.to_string();
                        self.define(&name, json!({"k":"var","name":name,"v":v,"ty":norm_ty(&c.ty),"const":true}));
                    }
                    if let syn::Item::Impl(i) = it {
                        // impl block local to a function body (e.g. a one-off syn visitor): its methods are functions too
                        let self_ty = norm_ty(&i.self_ty);
                        let trait_name = i.trait_.as_ref().map(|(_, p, _)| tok(p));
                        for ii in &i.items {
                            if let syn::ImplItem::Fn(m) = ii {
                                let nested = eval_fn(self.idx, "", "", Some(self_ty.clone()), trait_name.clone(), &m.sig, &m.block, &m.attrs, "");
                                if self.silent == 0 {
                                    self.lets.push(json!({"names":[],"line":line_of(m),"nested_fn":nested,"guard":self.guard_json()}));
                                }
                            }
                        }
                    }
                }
                Stmt::Expr(e, semi) => {
                    let p = if is_last && semi.is_none() { parent } else { "stmt" };
                    let v = self.expr(e, p);
                    if is_last && semi.is_none() {
                        tail = v;
                    }
                    // early exit: `if c { return .. }` guards the rest of the block
                    if let Expr::If(ife) = e {
                        if ife.else_branch.is_none() && diverges_block(&ife.then_branch) {
                            self.silent += 1;
                            let c = self.cond_of_s(&ife.cond, false, true);
                            self.silent -= 1;
                            self.guards.push(json!({"k":"if","c":c,"neg":true,"line":line_of(ife),"early_exit":true}));
                        }
                    }
                }
                Stmt::Macro(m) => {
                    let v = self.mac(&m.mac, if is_last && m.semi_token.is_none() { parent } else { "stmt" }, line_of(m));
                    if is_last && m.semi_token.is_none() {
                        tail = v;
                    }
                }
            }
        }
        self.guards.truncate(g0);
        self.env.pop();
        if diverges_block(b) {
            return json!({"k":"never"});
        }
        tail
    }

    /// Condition value of an `if` (handles `if let`), without binding.
    fn cond_of(&mut self, c: &Expr, bind: bool) -> Value {
        self.cond_of_s(c, bind, false)
    }

    fn cond_of_s(&mut self, c: &Expr, bind: bool, silent: bool) -> Value {
        if let Expr::Let(l) = c {
            let scrut = self.expr(&l.expr, "iflet_scrut");
            let mut vs = Vec::new();
            pat_variants(&l.pat, &mut vs);
            if bind {
                let sc = scrut.clone();
                self.bind_pat(&l.pat, &sc);
            }
            json!({"k":"iflet","pat":tok(&l.pat),"variants":vs,"scrut":scrut})
        } else {
            if silent {
                self.silent += 1;
            }
            let v = self.expr(c, "cond");
            if silent {
                self.silent -= 1;
            }
            v
        }
    }

    fn merge_env(&mut self, c: &Value, before: &[HashMap<String, Value>], a: Vec<HashMap<String, Value>>, b: Vec<HashMap<String, Value>>) {
        let depth = before.len();
        let mut merged = before.to_vec();
        for d in 0..depth {
            let keys: Vec<String> = before[d].keys().cloned().collect();
            for k in keys {
                let va = a.get(d).and_then(|m| m.get(&k)).cloned().unwrap_or(Value::Null);
                let vb = b.get(d).and_then(|m| m.get(&k)).cloned().unwrap_or(Value::Null);
                if va == vb {
                    merged[d].insert(k, va);
                } else {
                    let ty = ty_of(&va).or_else(|| ty_of(&vb));
                    if va.get("k").and_then(|x| x.as_str()) == Some("vecof") || vb.get("k").and_then(|x| x.as_str()) == Some("vecof") {
                        // union of pushed items (guards are recorded per item)
                        let mut items: Vec<Value> = Vec::new();
                        for side in [&va, &vb] {
                            if let Some(it) = side.get("items").and_then(|i| i.as_array()) {
                                for x in it {
                                    if !items.contains(x) {
                                        items.push(x.clone());
                                    }
                                }
                            }
                        }
                        merged[d].insert(k, with_ty(json!({"k":"vecof","items":items}), ty));
                    } else {
                        merged[d].insert(k, with_ty(json!({"k":"cond","c":c,"t":va,"e":vb,"merge":true}), ty));
                    }
                }
            }
        }
        self.env = merged;
    }

    pub fn expr(&mut self, e: &Expr, parent: &str) -> Value {
        self.depth += 1;
        if self.depth > 200 {
            self.depth -= 1;
            return json!({"k":"unknown","text":"depth"});
        }
        let v = self.expr_inner(e, parent);
        self.depth -= 1;
        v
    }

    fn expr_inner(&mut self, e: &Expr, parent: &str) -> Value {
        match e {
            Expr::Paren(p) => self.expr(&p.expr, parent),
            Expr::Group(p) => self.expr(&p.expr, parent),
            Expr::Reference(r) => self.expr(&r.expr, parent),
            Expr::Lit(l) => match &l.lit {
                syn::Lit::Str(s) => json!({"k":"lit","t":"str","v":s.value(),"ty":"str"}),
                syn::Lit::Char(c) => json!({"k":"lit","t":"char","v":c.value().to_string(),"ty":"char"}),
                syn::Lit::Bool(b) => json!({"k":"lit","t":"bool","v":b.value,"ty":"bool"}),
                syn::Lit::Int(i) => json!({"k":"lit","t":"int","v":i.base10_digits(),"suffix":i.suffix()}),
                other => json!({"k":"lit","t":"other","v":tok(other)}),
            },
            Expr::Path(p) => {
                if p.path.segments.len() == 1 && p.qself.is_none() {
                    let name = p.path.segments[0].ident.to_string();
                    if name == "self" {
                        let t = self.self_ty.clone();
                        return with_ty(json!({"k":"atom","root":"self","root_ty":t,"path":[]}), t);
                    }
                    if let Some(v) = self.lookup(&name) {
                        return v;
                    }
                    if name == "None" {
                        return json!({"k":"none"});
                    }
                    let ty = self.idx.consts.get(&name).cloned();
                    if let Some(init) = self.idx.const_exprs.get(&name) {
                        if self.depth < 150 {
                            let init = init.clone();
                            self.silent += 1;
                            let v = self.expr(&init, "const_init");
                            self.silent -= 1;
                            return json!({"k":"var","name":name,"v":v,"ty":ty,"const":true});
                        }
                    }
                    return with_ty(json!({"k":"path","text":name}), ty);
                }
                json!({"k":"path","text":tok(&p.path)})
            }
            Expr::Field(f) => {
                let base = self.expr(&f.base, "field_base");
                let name = match &f.member {
                    syn::Member::Named(i) => i.to_string(),
                    syn::Member::Unnamed(i) => i.index.to_string(),
                };
                let ty = ty_of(&base).and_then(|t| self.idx.field_ty(&t, &name));
                let inner = see_through(&base);
                project(inner, &name, ty)
            }
            Expr::Unary(u) => {
                let v = self.expr(&u.expr, parent);
                match u.op {
                    syn::UnOp::Deref(_) => v,
                    syn::UnOp::Not(_) => json!({"k":"op","op":"!","args":[v],"ty":"bool"}),
                    syn::UnOp::Neg(_) => json!({"k":"op","op":"neg","args":[v]}),
                    _ => v,
                }
            }
            Expr::Binary(b) => {
                let l = self.expr(&b.left, "operand");
                let r = self.expr(&b.right, "operand");
                let op = tok(&b.op);
                let ty = if matches!(op.as_str(), "&&" | "||" | "==" | "!=" | "<" | ">" | "<=" | ">=") { Some("bool".to_string()) } else { ty_of(&l) };
                // compound assignment on a local
                if op.ends_with('=') && !matches!(op.as_str(), "==" | "!=" | "<=" | ">=") {
                    if op == "+=" {
                        if let Expr::Path(p) = &*b.left {
                            if p.path.segments.len() == 1 {
                                let var = p.path.segments[0].ident.to_string();
                                if let Some(cur) = self.lookup(&var) {
                                    let t = ty_of(&cur).unwrap_or_default();
                                    if t == "String" {
                                        let nv = concat_value(&cur, &r, line_of(b));
                                        self.set_existing(&var, json!({"k":"var","name":var,"v":nv,"ty":"String"}));
                                    }
                                }
                            }
                        }
                    }
                    if self.silent == 0 {
                        self.assigns.push(json!({"target":l,"op":op,"value":r,"line":line_of(b),"guard":self.guard_json(),"text":tok(&b.left)}));
                    }
                    return json!({"k":"unit"});
                }
                with_ty(json!({"k":"op","op":op,"args":[l,r]}), ty)
            }
            Expr::Cast(c) => {
                let v = self.expr(&c.expr, parent);
                json!({"k":"cast","v":v,"ty":norm_ty(&c.ty)})
            }
            Expr::Try(t) => {
                let v = self.expr(&t.expr, "try");
                let ty = ty_of(&v).map(|t| {
                    let (b, a) = split_generic(&t);
                    if (b == "Result" || b == "Option" || b.ends_with("Result")) && !a.is_empty() {
                        a[0].clone()
                    } else {
                        t
                    }
                });
                json!({"k":"try","v":v,"ty":ty})
            }
            Expr::Tuple(t) => {
                let items: Vec<Value> = t.elems.iter().map(|x| self.expr(x, "tuple_elem")).collect();
                let tys: Vec<String> = items.iter().map(|i| ty_of(i).unwrap_or_else(|| "?".into())).collect();
                json!({"k":"tuple","items":items,"ty":format!("({})", tys.join(","))})
            }
            Expr::Array(a) => {
                let items: Vec<Value> = a.elems.iter().map(|x| self.expr(x, "array_elem")).collect();
                let et = items.first().and_then(ty_of);
                with_ty(json!({"k":"array","items":items}), et.map(|t| format!("[{}]", t)))
            }
            Expr::Repeat(r) => {
                let v = self.expr(&r.expr, "array_elem");
                json!({"k":"array","items":[v],"repeat":tok(&r.len)})
            }
            Expr::Index(i) => {
                let base = self.expr(&i.expr, "index_base");
                let ix = self.expr(&i.index, "index");
                let bt = ty_of(&base);
                let is_range = matches!(&*i.index, Expr::Range(_));
                let ty = if is_range { bt.clone() } else { bt.as_ref().and_then(|t| elem_of(t)) };
                if self.silent == 0 {
                    self.indexes.push(json!({"base":base,"index":ix,"range":is_range,"line":line_of(i),"guard":self.guard_json(),"text":tok(e)}));
                }
                with_ty(json!({"k":"index","base":base,"index":ix,"range":is_range}), ty)
            }
            Expr::Range(r) => {
                let s = r.start.as_ref().map(|x| self.expr(x, "range"));
                let en = r.end.as_ref().map(|x| self.expr(x, "range"));
                json!({"k":"range","start":s,"end":en,"inclusive":matches!(r.limits, syn::RangeLimits::Closed(_))})
            }
            Expr::Block(b) => self.block(&b.block, parent),
            Expr::Unsafe(b) => self.block(&b.block, parent),
            Expr::If(i) => self.if_expr(i, parent),
            Expr::Match(m) => self.match_expr(m, parent),
            Expr::Closure(c) => self.closure_value(c, None, parent),
            Expr::MethodCall(m) => self.method_call(m, parent),
            Expr::Call(c) => self.call(c, parent),
            Expr::Macro(m) => self.mac(&m.mac, parent, line_of(m)),
            Expr::Struct(s) => {
                let mut fields = Map::new();
                for f in &s.fields {
                    let name = match &f.member {
                        syn::Member::Named(i) => i.to_string(),
                        syn::Member::Unnamed(i) => i.index.to_string(),
                    };
                    let v = self.expr(&f.expr, "struct_field");
                    fields.insert(name, v);
                }
                let rest = s.rest.as_ref().map(|r| self.expr(r, "struct_rest"));
                let path = path_tail2(&s.path);
                let last = s.path.segments.last().map(|x| x.ident.to_string()).unwrap_or_default();
                let ty = if self.idx.structs.contains_key(&last) {
                    last.clone()
                } else if s.path.segments.len() >= 2 {
                    s.path.segments[s.path.segments.len() - 2].ident.to_string()
                } else if last == "Self" {
                    self.self_ty.clone().unwrap_or(last.clone())
                } else {
                    last.clone()
                };
                let v = json!({"k":"struct","path":path,"fields":fields,"rest":rest,"ty":ty,"line":line_of(s)});
                if self.silent == 0 {
                    self.structs.push(json!({"path":path,"line":line_of(s),"guard":self.guard_json(),"v":v,"parent":parent}));
                }
                v
            }
            Expr::Assign(a) => {
                let val = self.expr(&a.right, "assign_rhs");
                // plain local?
                if let Expr::Path(p) = &*a.left {
                    if p.path.segments.len() == 1 {
                        let name = p.path.segments[0].ident.to_string();
                        let wrapped = json!({"k":"var","name":name,"v":val,"ty":ty_of(&val)});
                        if self.set_existing(&name, wrapped) {
                            if self.silent == 0 {
                                self.assigns.push(json!({"target":{"k":"local","name":name},"op":"=","value":val,"line":line_of(a),"guard":self.guard_json(),"text":name}));
                            }
                            return json!({"k":"unit"});
                        }
                    }
                }
                self.silent += 1;
                let target = self.expr(&a.left, "assign_lhs");
                self.silent -= 1;
                if self.silent == 0 {
                    self.assigns.push(json!({"target":target,"op":"=","value":val,"line":line_of(a),"guard":self.guard_json(),"text":tok(&a.left)}));
                }
                json!({"k":"unit"})
            }
            Expr::Return(r) => {
                let v = r.expr.as_ref().map(|x| self.expr(x, "return"));
                if self.silent == 0 {
                    self.returns.push(json!({"v":v,"line":line_of(r),"guard":self.guard_json()}));
                }
                json!({"k":"never"})
            }
            Expr::Break(_) | Expr::Continue(_) => {
                if self.silent == 0 {
                    self.loops.push(json!({"ctl":tok(e),"line":line_of(e),"guard":self.guard_json()}));
                }
                json!({"k":"never"})
            }
            Expr::ForLoop(f) => {
                let over = self.expr(&f.expr, "for_iter");
                let et = ty_of(&over).and_then(|t| elem_of(&t));
                let names = pat_names(&f.pat);
                let elem = with_ty(json!({"k":"elem","of":over}), et);
                let before = self.env.clone();
                self.env.push(HashMap::new());
                self.bind_pat(&f.pat, &elem);
                self.guards.push(json!({"k":"for","vars":names,"over":over,"line":line_of(f)}));
                if self.silent == 0 {
                    self.loops.push(json!({"kind":"for","vars":names,"over":over,"line":line_of(f),"guard":self.guard_json()}));
                }
                let _ = self.block(&f.body, "loop_body");
                self.guards.pop();
                self.env.pop();
                let after = self.env.clone();
                let c = json!({"k":"loop_ran","over":over});
                self.merge_env(&c, &before, after, before.clone());
                json!({"k":"unit"})
            }
            Expr::While(w) => {
                let before = self.env.clone();
                self.env.push(HashMap::new());
                let c = self.cond_of(&w.cond, true);
                self.guards.push(json!({"k":"while","c":c,"line":line_of(w)}));
                if self.silent == 0 {
                    self.loops.push(json!({"kind":"while","c":c,"line":line_of(w),"guard":self.guard_json()}));
                }
                let _ = self.block(&w.body, "loop_body");
                self.guards.pop();
                self.env.pop();
                let after = self.env.clone();
                self.merge_env(&json!({"k":"loop_ran"}), &before, after, before.clone());
                json!({"k":"unit"})
            }
            Expr::Loop(l) => {
                let before = self.env.clone();
                self.guards.push(json!({"k":"loop","line":line_of(l)}));
                if self.silent == 0 {
                    self.loops.push(json!({"kind":"loop","line":line_of(l),"guard":self.guard_json()}));
                }
                let _ = self.block(&l.body, "loop_body");
                self.guards.pop();
                let after = self.env.clone();
                self.merge_env(&json!({"k":"loop_ran"}), &before, after, before.clone());
                json!({"k":"unit"})
            }
            Expr::Let(l) => {
                // `matches`-like use inside && chains
                let scrut = self.expr(&l.expr, "iflet_scrut");
                let mut vs = Vec::new();
                pat_variants(&l.pat, &mut vs);
                let sc = scrut.clone();
                self.bind_pat(&l.pat, &sc);
                json!({"k":"iflet","pat":tok(&l.pat),"variants":vs,"scrut":scrut,"ty":"bool"})
            }
            other => json!({"k":"unknown","text":tok(other)}),
        }
    }

    fn if_expr(&mut self, i: &syn::ExprIf, parent: &str) -> Value {
        let before = self.env.clone();
        // then branch
        self.env.push(HashMap::new());
        let c = self.cond_of(&i.cond, true);
        self.guards.push(json!({"k":"if","c":c,"neg":false,"line":line_of(i)}));
        let t = self.block(&i.then_branch, parent);
        self.guards.pop();
        self.env.pop();
        let env_t = self.env.clone();
        self.env = before.clone();
        let e = match &i.else_branch {
            Some((_, eb)) => {
                self.guards.push(json!({"k":"if","c":c,"neg":true,"line":line_of(i)}));
                let v = self.expr(eb, parent);
                self.guards.pop();
                v
            }
            None => json!({"k":"unit"}),
        };
        let env_e = self.env.clone();
        let t_div = diverges_block(&i.then_branch);
        let e_div = match &i.else_branch {
            Some((_, eb)) => diverges_expr(eb),
            None => false,
        };
        if t_div && !e_div {
            self.env = env_e;
        } else if e_div && !t_div {
            self.env = env_t;
        } else {
            self.merge_env(&c, &before, env_t, env_e);
        }
        let ty = ty_of(&t).or_else(|| ty_of(&e));
        with_ty(json!({"k":"cond","c":c,"t":t,"e":e}), ty)
    }

    fn match_expr(&mut self, m: &syn::ExprMatch, parent: &str) -> Value {
        let scrut = self.expr(&m.expr, "match_scrut");
        let sty = ty_of(&scrut);
        let before = self.env.clone();
        let mut arms_v = Vec::new();
        let mut arms_fact = Vec::new();
        let mut envs: Vec<(Vec<HashMap<String, Value>>, bool)> = Vec::new();
        for (ai, arm) in m.arms.iter().enumerate() {
            self.env = before.clone();
            self.env.push(HashMap::new());
            let sc = scrut.clone();
            self.bind_pat(&arm.pat, &sc);
            let mut vs = Vec::new();
            pat_variants(&arm.pat, &mut vs);
            let g = arm.guard.as_ref().map(|(_, g)| self.expr(g, "arm_guard"));
            self.guards.push(json!({"k":"arm","scrut":scrut,"pat":tok(&arm.pat),"variants":vs,"idx":ai,"guard":g,"line":line_of(arm)}));
            let calls_before = self.calls.len();
            let sites_before = self.sites.len();
            let v = self.expr(&arm.body, parent);
            self.guards.pop();
            self.env.pop();
            let bindings = pat_names(&arm.pat);
            let body_text = tok(&arm.body);
            let used: Vec<Value> = bindings
                .iter()
                .map(|b| json!({"name":b,"uses":count_ident(&arm.body, b) + arm.guard.as_ref().map(|(_, g)| count_ident(g, b)).unwrap_or(0)}))
                .collect();
            let body_calls: Vec<Value> = self.calls[calls_before..].iter().map(|c| json!({"f":c["f"],"args":c["args"],"recv":c["recv"]})).collect();
            let empty = matches!(&*arm.body, Expr::Block(b) if b.block.stmts.is_empty()) || matches!(&*arm.body, Expr::Tuple(t) if t.elems.is_empty());
            arms_fact.push(json!({
                "pat":tok(&arm.pat),"variants":vs,"guard":g,"bindings":used,"empty":empty,"line":line_of(arm),
                "body": if body_text.len() > 3000 { format!("{}…", &body_text.chars().take(3000).collect::<String>()) } else { body_text },
                "calls": body_calls, "nsites": self.sites.len() - sites_before,
                "diverges": diverges_expr(&arm.body), "value": if size(&v) > 300 { json!({"k":"big"}) } else { v.clone() },
            }));
            let mut av = json!({"pat":tok(&arm.pat),"variants":vs,"v":v});
            if let Some(gv) = &g {
                // the arm's `if` guard belongs to the value: a rule that picks "the arm for variant V" must know it is conditional
                av["guard"] = gv.clone();
            }
            arms_v.push(av);
            envs.push((self.env.clone(), diverges_expr(&arm.body)));
        }
        if self.silent == 0 {
            self.matches.push(json!({"scrut":scrut,"scrut_ty":sty,"scrut_text":tok(&m.expr),"line":line_of(m),"guard":self.guard_json(),"arms":arms_fact,"parent":parent}));
        }
        // merge environments of non-diverging arms
        let live: Vec<&Vec<HashMap<String, Value>>> = envs.iter().filter(|(_, d)| !*d).map(|(e, _)| e).collect();
        let live_arms: Vec<&Value> = envs.iter().zip(arms_v.iter()).filter(|((_, d), _)| !*d).map(|(_, a)| a).collect();
        if live.is_empty() {
            self.env = before;
        } else {
            let mut merged = before.clone();
            for d in 0..before.len() {
                let keys: Vec<String> = before[d].keys().cloned().collect();
                for k in keys {
                    let vals: Vec<Value> = live.iter().map(|e| e.get(d).and_then(|m| m.get(&k)).cloned().unwrap_or(Value::Null)).collect();
                    if vals.iter().all(|v| *v == vals[0]) {
                        merged[d].insert(k, vals[0].clone());
                    } else if vals.iter().any(|v| v.get("k").and_then(|x| x.as_str()) == Some("vecof")) {
                        let mut items: Vec<Value> = Vec::new();
                        for side in &vals {
                            if let Some(it) = side.get("items").and_then(|i| i.as_array()) {
                                for x in it {
                                    if !items.contains(x) {
                                        items.push(x.clone());
                                    }
                                }
                            }
                        }
                        merged[d].insert(k, json!({"k":"vecof","items":items}));
                    } else {
                        // a local assigned differently by the arms: keep which arm gave which value (a `match` value whose
                        // arms carry the patterns of the statement-level match), so that per-variant rules still see it
                        let ty = vals.iter().filter_map(ty_of).next();
                        let arms_m: Vec<Value> = vals.iter().zip(live_arms.iter()).map(|(v, a)| json!({"pat":a["pat"],"variants":a["variants"],"v":v})).collect();
                        merged[d].insert(k, with_ty(json!({"k":"match","scrut":scrut,"arms":arms_m,"merged":true}), ty));
                    }
                }
            }
            self.env = merged;
        }
        let ty = arms_v.iter().filter_map(|a| ty_of(&a["v"])).next();
        with_ty(json!({"k":"match","scrut":scrut,"arms":arms_v}), ty)
    }

    /// Evaluate a closure generically: parameters become atoms typed from `param_tys`.
    fn closure_value(&mut self, c: &syn::ExprClosure, ctx: Option<(&str, &Value, Vec<Option<String>>)>, _parent: &str) -> Value {
        let id = self.closures.len();
        self.closures.push((c.clone(), self.env.clone()));
        self.env.push(HashMap::new());
        let mut params = Vec::new();
        for (i, p) in c.inputs.iter().enumerate() {
            let names = pat_names(p);
            let ty = ctx.as_ref().and_then(|(_, _, tys)| tys.get(i).cloned().flatten());
            let root = names.first().cloned().unwrap_or_else(|| format!("_{}", i));
            let atom = match &ctx {
                Some((via, over, _)) => {
                    let of: Value = if size(over) > 250 { json!({"k":"big","ty":ty_of(over)}) } else { (*over).clone() };
                    with_ty(json!({"k":"elem","of":of,"via":via,"param":root,"pos":i}), ty.clone())
                }
                None => with_ty(json!({"k":"atom","root":root,"root_ty":ty,"path":[],"cparam":id}), ty.clone()),
            };
            self.bind_pat(p, &atom);
            params.push(json!({"names":names,"ty":ty}));
        }
        let frame = match &ctx {
            Some((via, over, _)) => json!({"k":"closure","via":via,"over":over,"id":id,"line":line_of(c)}),
            None => json!({"k":"closure","via":null,"id":id,"line":line_of(c)}),
        };
        self.guards.push(frame);
        let body = self.expr(&c.body, "closure_tail");
        self.guards.pop();
        self.env.pop();
        let body = if size(&body) > 1500 { json!({"k":"big"}) } else { body };
        json!({"k":"closure","id":id,"params":params,"body":body,"line":line_of(c)})
    }

    /// Beta-reduce a previously defined local closure with concrete arguments (silent re-evaluation).
    fn apply_closure(&mut self, id: usize, args: &[Value]) -> Value {
        if self.depth > 60 {
            return json!({"k":"unknown","text":"closure-depth"});
        }
        let (c, cenv) = self.closures[id].clone();
        let saved = std::mem::replace(&mut self.env, cenv);
        self.env.push(HashMap::new());
        for (i, p) in c.inputs.iter().enumerate() {
            let a = args.get(i).cloned().unwrap_or(json!({"k":"unknown","text":"missing-arg"}));
            self.bind_pat(p, &a);
        }
        self.silent += 1;
        let v = self.expr(&c.body, "closure_tail");
        self.silent -= 1;
        self.env = saved;
        v
    }

    fn call(&mut self, c: &syn::ExprCall, parent: &str) -> Value {
        let fname = match &*c.func {
            Expr::Path(p) => tok(&p.path).replace(' ', ""),
            other => tok(other),
        };
        // local closure call?
        if let Expr::Path(p) = &*c.func {
            if p.path.segments.len() == 1 {
                let n = p.path.segments[0].ident.to_string();
                if let Some(v) = self.lookup(&n) {
                    let args: Vec<Value> = c.args.iter().map(|a| self.expr(a, "arg")).collect();
                    let inner = see_through(&v);
                    if inner.get("k").and_then(|k| k.as_str()) == Some("closure") {
                        let id = inner["id"].as_u64().unwrap() as usize;
                        let r = self.apply_closure(id, &args);
                        let out = json!({"k":"call","f":n,"args":args,"local_closure":true,"result":r,"line":line_of(c),"ty":ty_of(&r)});
                        self.record_call(&out, parent);
                        return out;
                    }
                    let out = json!({"k":"call","f":n,"callee_value":inner,"args":args,"line":line_of(c)});
                    self.record_call(&out, parent);
                    return out;
                }
            }
        }
        let args: Vec<Value> = c
            .args
            .iter()
            .map(|a| match a {
                Expr::Closure(cl) => self.closure_value(cl, None, "arg"),
                other => self.expr(other, "arg"),
            })
            .collect();
        // Some(x) / Ok(x) / Err(x) / enum tuple constructors
        let last = fname.rsplit("::").next().unwrap_or("").to_string();
        if last == "Some" && args.len() == 1 {
            let t = ty_of(&args[0]).map(|t| format!("Option<{}>", t));
            return with_ty(json!({"k":"some","v":args[0]}), t);
        }
        if matches!(fname.as_str(), "Vec::new" | "Vec::with_capacity" | "Vec::default" | "VecDeque::new") {
            return json!({"k":"vecof","items":[],"ty":"Vec<?>","line":line_of(c)});
        }
        let mut ty: Option<String> = None;
        if !fname.contains("::") {
            ty = self.idx.fns.get(&fname).cloned();
        } else {
            let parts: Vec<&str> = fname.split("::").collect();
            if parts.len() >= 2 {
                let owner = parts[parts.len() - 2];
                let owner = if owner == "Self" { self.self_ty.clone().unwrap_or_default() } else { owner.to_string() };
                ty = self.idx.method_ret(&owner, &last);
                if ty.is_none() && self.idx.enums.contains_key(&owner) {
                    ty = Some(owner.clone());
                }
                if ty.is_none() && (last == "new" || last == "default" || last == "from" || last == "from_iter") {
                    ty = Some(owner);
                }
            }
        }
        if ty.as_deref() == Some("Self") {
            ty = self.self_ty.clone();
        }
        let out = with_ty(json!({"k":"call","f":fname,"args":args,"line":line_of(c)}), ty);
        self.record_call(&out, parent);
        out
    }

    fn record_call(&mut self, v: &Value, parent: &str) {
        if self.silent > 0 {
            return;
        }
        let mut o = v.clone();
        if let Value::Object(m) = &mut o {
            m.remove("k");
            m.insert("parent".into(), json!(parent));
            m.insert("guard".into(), self.guard_json());
            if let Some(r) = m.get("recv") {
                if size(r) > 400 {
                    m.insert("recv".into(), json!({"k":"big","ty":ty_of(r)}));
                }
            }
        }
        self.calls.push(o);
    }

    fn method_call(&mut self, m: &syn::ExprMethodCall, parent: &str) -> Value {
        let name = m.method.to_string();
        let recv = self.expr(&m.receiver, &format!("recv:{}", name));
        let rty = ty_of(&recv);
        let turbofish = m.turbofish.as_ref().map(|t| tok(t));
        // closure arguments get element-typed parameters
        let elem_ty = rty.as_ref().and_then(|t| elem_of(t));
        let mut args: Vec<Value> = Vec::new();
        for a in &m.args {
            match a {
                Expr::Closure(cl) => {
                    let ptys: Vec<Option<String>> = if ITER_ADAPTERS.contains(&name.as_str()) {
                        match name.as_str() {
                            "fold" => vec![None, elem_ty.clone()],
                            "then" | "unwrap_or_else" | "or_else" | "ok_or_else" | "or_insert_with" | "get_or_init" => vec![],
                            "map_err" => vec![None],
                            _ => vec![elem_ty.clone(), elem_ty.clone()],
                        }
                    } else {
                        vec![]
                    };
                    let v = self.closure_value(cl, Some((name.as_str(), &recv, ptys)), "arg");
                    args.push(v);
                }
                other => args.push(self.expr(other, &format!("arg:{}", name))),
            }
        }
        let line = line_of(m);
        // --- raw emission: `w.write_all(text.as_bytes())` / `w.write_str(text)` put text into the sink like `write!(w, "{}", text)` ---
        if matches!(name.as_str(), "write_all" | "write_str") && args.len() == 1 {
            let mut text = args[0].clone();
            // strip `.as_bytes()` / `&` / `.as_str()` around the text
            loop {
                let k = text.get("k").and_then(|k| k.as_str()).unwrap_or("").to_string();
                if k == "call" && matches!(text.get("f").and_then(|f| f.as_str()), Some("as_bytes") | Some("as_str") | Some("as_ref")) && text.get("recv").map(|r| !r.is_null()).unwrap_or(false) {
                    text = text["recv"].clone();
                } else if k == "ref" || k == "paren" {
                    text = text["v"].clone();
                } else {
                    break;
                }
            }
            let is_bytes_lit = text.get("k").and_then(|k| k.as_str()) == Some("lit") && text.get("t").and_then(|t| t.as_str()) == Some("other");
            if self.silent == 0 && !is_bytes_lit {
                let f = json!({"k":"fmt","parts":[{"hole":text,"named":Value::Null,"spec":""}],"named_bindings":{},"line":line,"raw":true});
                self.sites.push(json!({"macro":name,"sink":recv,"sink_text":tok(&m.receiver),"fmt":f,"nl":false,"line":line,"guard":self.guard_json(),"parent":parent}));
            }
        }
        // --- `x.clone_from(v)` overwrites x with (a clone of) v: an assignment in all but syntax ---
        if name == "clone_from" && args.len() == 1 && self.silent == 0 {
            let mut val = args[0].clone();
            while matches!(val.get("k").and_then(|k| k.as_str()), Some("ref") | Some("paren")) {
                val = val["v"].clone();
            }
            self.assigns.push(json!({"target":recv,"op":"=","value":val,"line":line,"guard":self.guard_json(),"text":tok(&m.receiver),"via":"clone_from"}));
        }
        // --- local container mutation ---
        if matches!(name.as_str(), "push" | "insert" | "push_str" | "extend" | "append" | "push_back") {
            if let Expr::Path(p) = &*m.receiver {
                if p.path.segments.len() == 1 {
                    let var = p.path.segments[0].ident.to_string();
                    if let Some(cur) = self.lookup(&var) {
                        let inner = see_through(&cur).clone();
                        let mut items: Vec<Value> = inner.get("items").and_then(|i| i.as_array()).cloned().unwrap_or_default();
                        let is_vec = matches!(inner.get("k").and_then(|k| k.as_str()), Some("vecof") | Some("vec"));
                        let cur_ty = ty_of(&cur).or_else(|| ty_of(&inner)).unwrap_or_default();
                        let kind = inner.get("k").and_then(|k| k.as_str()).unwrap_or("");
                        let stringish = cur_ty == "String" || cur_ty == "str" || (kind == "fmt") || (kind == "lit" && inner.get("t").and_then(|t| t.as_str()) == Some("str"));
                        let char_lit = args.len() == 1 && args[0].get("k").and_then(|k| k.as_str()) == Some("lit") && args[0].get("t").and_then(|t| t.as_str()) == Some("char");
                        if !is_vec && (name == "push_str" || (name == "push" && (stringish || (cur_ty.is_empty() && char_lit)))) && args.len() == 1 && kind != "vecof" {
                            // in-place string building: the variable now denotes old ++ piece (a conditional piece is
                            // merged into a `cond` at the join point like any other reassignment)
                            let nv = concat_value(&cur, &args[0], line);
                            self.set_existing(&var, json!({"k":"var","name":var,"v":nv,"ty":"String"}));
                        }
                        if is_vec {
                            let val = if name == "insert" && args.len() == 2 { json!({"k":"tuple","items":args.clone()}) } else { args.last().cloned().unwrap_or(Value::Null) };
                            let val = if size(&val) > 6000 { json!({"k":"big"}) } else { val };
                            items.push(json!({"guard":self.guard_json(),"v":val,"how":name,"line":line}));
                            let nv = json!({"k":"vecof","items":items,"ty":ty_of(&inner),"name":var});
                            self.set_existing(&var, nv);
                        }
                    }
                }
            }
        }
        // --- normalisations ---
        match name.as_str() {
            "then_some" if args.len() == 1 => {
                let out = with_ty(json!({"k":"cond","c":recv,"t":{"k":"some","v":args[0]},"e":{"k":"none"},"line":line}), ty_of(&args[0]).map(|t| format!("Option<{}>", t)));
                return out;
            }
            "then" if args.len() == 1 => {
                let body = args[0].get("body").cloned().unwrap_or(json!({"k":"unknown","text":"then-arg"}));
                return json!({"k":"cond","c":recv,"t":{"k":"some","v":body},"e":{"k":"none"},"line":line});
            }
            "or_else" if args.len() == 1 && has_none_leaf(&recv) => {
                let body = args[0].get("body").cloned().unwrap_or(json!({"k":"unknown","text":"or_else-arg"}));
                // body is itself option-valued
                return replace_none_keep_some(&recv, &body);
            }
            "unwrap_or_default" if has_none_leaf(&recv) => {
                return replace_none(&recv, &json!({"k":"lit","t":"default","v":"","ty":"str"}));
            }
            "unwrap_or" if args.len() == 1 && has_none_leaf(&recv) => {
                return replace_none(&recv, &args[0]);
            }
            "unwrap_or_else" if args.len() == 1 && has_none_leaf(&recv) => {
                let body = args[0].get("body").cloned().unwrap_or(json!({"k":"unknown","text":"unwrap_or_else-arg"}));
                return replace_none(&recv, &body);
            }
            _ => {}
        }
        // --- result type ---
        let ty: Option<String> = match name.as_str() {
            "clone" | "to_owned" | "as_ref" | "as_slice" | "borrow" | "deref" | "as_mut" | "by_ref" | "cloned" | "copied" | "rev" | "skip" | "take"
            | "filter" | "inspect" | "skip_while" | "take_while" | "peekable" | "unique" | "sorted" | "chain" | "step_by" | "iter_mut" | "as_deref" => rty.clone(),
            "to_string" | "join" | "to_lowercase" | "to_uppercase" | "replace" | "repeat" | "trim" | "trim_end" | "trim_start" | "into_owned" => Some("String".into()),
            "as_str" => Some("str".into()),
            "iter" | "into_iter" | "drain" | "values" | "keys" => match (&rty, name.as_str()) {
                (Some(t), "values") => split_generic(t).1.get(1).map(|v| format!("Iter<{}>", v)),
                (Some(t), "keys") => split_generic(t).1.first().map(|v| format!("Iter<{}>", v)),
                (Some(t), _) => elem_of(t).map(|e| format!("Iter<{}>", e)),
                _ => None,
            },
            "first" | "last" | "next" | "find" | "get" | "pop" | "nth" | "max" | "min" | "peek" | "split_last_elem" => elem_ty.clone().map(|e| format!("Option<{}>", e)),
            "split_last" | "split_first" => elem_ty.clone().map(|e| format!("Option<({},[{}])>", e, e)),
            "unwrap" | "expect" | "unwrap_or_default" | "unwrap_or" | "unwrap_or_else" => rty.as_ref().and_then(|t| {
                let (b, a) = split_generic(t);
                if b == "Option" || b == "Result" || b.ends_with("Result") {
                    a.first().cloned()
                } else {
                    Some(t.clone())
                }
            }),
            "is_empty" | "is_some" | "is_none" | "contains" | "any" | "all" | "is_ok" | "is_err" | "starts_with" | "ends_with" | "eq" | "ne" | "contains_key" | "is_ident" => Some("bool".into()),
            "len" | "count" => Some("usize".into()),
            "zip" => {
                let ot = args.first().and_then(ty_of).and_then(|t| elem_of(&t));
                match (elem_ty.clone(), ot) {
                    (Some(a), Some(b)) => Some(format!("Iter<({},{})>", a, b)),
                    _ => None,
                }
            }
            "enumerate" => elem_ty.clone().map(|e| format!("Iter<(usize,{})>", e)),
            "collect" | "collect_vec" => match &turbofish {
                Some(t) if t.contains("Vec") => elem_ty.clone().map(|e| format!("Vec<{}>", e)),
                None if name == "collect_vec" => elem_ty.clone().map(|e| format!("Vec<{}>", e)),
                _ => None,
            },
            "map_err" | "ok_or_else" | "ok_or" | "ok" => rty.clone(),
            "map" | "filter_map" | "flat_map" => {
                // element type from the closure body
                let bt = args.first().and_then(|a| a.get("body")).and_then(ty_of);
                let is_iter = rty.as_ref().map(|t| t.starts_with("Iter<") || t.starts_with("Vec<") || t.starts_with('[')).unwrap_or(false);
                match (bt, name.as_str(), is_iter) {
                    (Some(b), "map", true) => Some(format!("Iter<{}>", b)),
                    (Some(b), "filter_map", true) | (Some(b), "flat_map", true) => Some(format!("Iter<{}>", elem_of(&b).unwrap_or(b))),
                    (Some(b), "map", false) => rty.as_ref().map(|t| {
                        let (base, _) = split_generic(t);
                        if base == "Option" { format!("Option<{}>", b) } else { t.clone() }
                    }),
                    _ => None,
                }
            }
            _ => rty.as_ref().and_then(|t| self.idx.method_ret(t, &name)).map(|r| if r == "Self" { rty.clone().unwrap_or(r) } else { r }),
        };
        let ty = match ty {
            Some(t) if t == "Self" => self.self_ty.clone(),
            other => other,
        };
        let recv_out = if size(&recv) > 700 { json!({"k":"big","ty":rty}) } else { recv };
        let out = with_ty(json!({"k":"call","f":name,"recv":recv_out,"args":args,"line":line,"turbofish":turbofish,"recv_text": short(&tok(&m.receiver))}), ty);
        self.record_call(&out, parent);
        out
    }
}

fn short(s: &str) -> String {
    if s.len() > 160 {
        let mut t: String = s.chars().take(160).collect();
        t.push('…');
        t
    } else {
        s.to_string()
    }
}

/// `a.then_some(x).or_else(|| b.then_some(y))`: replace `none` leaves by an option-valued tree.
fn replace_none_keep_some(v: &Value, with: &Value) -> Value {
    match v.get("k").and_then(|k| k.as_str()) {
        Some("none") => with.clone(),
        Some("cond") => {
            let mut o = v.clone();
            o["t"] = replace_none_keep_some(&v["t"], with);
            o["e"] = replace_none_keep_some(&v["e"], with);
            o
        }
        _ => v.clone(),
    }
}

pub fn see_through(v: &Value) -> &Value {
    let mut cur = v;
    loop {
        match cur.get("k").and_then(|k| k.as_str()) {
            Some("var") => cur = &cur["v"],
            _ => return cur,
        }
    }
}

fn count_ident(e: &Expr, name: &str) -> usize {
    fn walk(ts: proc_macro2::TokenStream, name: &str, n: &mut usize) {
        for t in ts {
            match t {
                proc_macro2::TokenTree::Ident(i) => {
                    if i == name {
                        *n += 1
                    }
                }
                proc_macro2::TokenTree::Group(g) => walk(g.stream(), name, n),
                proc_macro2::TokenTree::Literal(l) => {
                    // inline format captures: "{name}"
                    let s = l.to_string();
                    if s.contains(&format!("{{{}}}", name)) || s.contains(&format!("{{{}:", name)) {
                        *n += 1
                    }
                }
                _ => {}
            }
        }
    }
    let mut n = 0;
    walk(quote::ToTokens::to_token_stream(e), name, &mut n);
    n
}
