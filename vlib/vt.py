"""Helpers over astq value trees (JSON dicts)."""
import re

TRANSPARENT_CALLS = {
    'clone', 'to_string', 'to_owned', 'as_str', 'as_ref', 'into', 'as_slice', 'borrow', 'deref',
    'into_owned', 'iter', 'as_mut', 'cloned', 'copied', 'map_err', 'unwrap', 'expect', 'as_deref',
    'String::from', 'to_vec', 'as_bytes', 'String::from_utf8_lossy', 'Cow::Owned', 'Cow::Borrowed', 'Ok',
}


def k(v):
    return v.get('k') if isinstance(v, dict) else None


def strip(v):
    """See through var wrappers, try, casts of no interest and transparent calls."""
    while isinstance(v, dict):
        kk = v.get('k')
        if kk == 'var':
            v = v['v']
        elif kk == 'try':
            v = v['v']
        elif kk == 'some':
            v = v['v']
        elif kk == 'call' and v.get('f') in TRANSPARENT_CALLS:
            if v.get('recv') is not None:
                v = v['recv']
            elif len(v.get('args', [])) == 1:
                v = v['args'][0]
            else:
                return v
        else:
            return v
    return v


def show(v, depth=0):
    """Compact single-line rendering used in reports."""
    if v is None:
        return 'None'
    if not isinstance(v, dict):
        return repr(v)
    if depth > 12:
        return '…'
    kk = v.get('k')
    d = depth + 1
    if kk == 'atom':
        return '.'.join([v.get('root', '?')] + list(v.get('path', [])))
    if kk == 'lit':
        return repr(v.get('v'))
    if kk == 'var':
        return f"{v['name']}:=" + show(v['v'], d) if depth < 3 else v['name']
    if kk == 'path':
        return v.get('text', '?').replace(' ', '')
    if kk == 'fmt':
        out = []
        for p in v.get('parts', []):
            if 'lit' in p:
                out.append(p['lit'])
            else:
                out.append('{' + show(p['hole'], d) + (':' + p['spec'] if p.get('spec') else '') + '}')
        return 'fmt"' + ''.join(out).replace('\n', '\\n') + '"'
    if kk == 'call':
        args = ', '.join(show(a, d) for a in v.get('args', []))
        if v.get('recv') is not None:
            return f"{show(v['recv'], d)}.{v['f']}({args})"
        return f"{v['f']}({args})"
    if kk == 'cond':
        return f"if {show(v['c'], d)} then {show(v['t'], d)} else {show(v['e'], d)}"
    if kk == 'op':
        a = v.get('args', [])
        if len(a) == 1:
            return f"{v['op']}({show(a[0], d)})"
        return f"({show(a[0], d)} {v['op']} {show(a[1], d)})"
    if kk == 'match':
        return 'match ' + show(v['scrut'], d) + ' {' + '; '.join(f"{a['pat']} => {show(a['v'], d)}" for a in v['arms']) + '}'
    if kk == 'payload':
        f = v.get('field', v.get('pos', ''))
        return f"{show(v['of'], d)}@{v.get('variant')}.{f}"
    if kk == 'elem':
        return f"each({show(v['of'], d)})"
    if kk == 'field':
        return f"{show(v['base'], d)}.{v['name']}"
    if kk == 'closure':
        ps = ','.join('/'.join(p['names']) for p in v.get('params', []))
        return f"|{ps}| {show(v.get('body'), d)}"
    if kk == 'try':
        return show(v['v'], d) + '?'
    if kk == 'some':
        return f"Some({show(v['v'], d)})"
    if kk in ('none', 'unit', 'never', 'big', 'uninit', 'io_result'):
        return kk
    if kk == 'vecof':
        return '[' + ' | '.join(show(i['v'], d) for i in v.get('items', [])) + ']'
    if kk == 'alt':
        return 'alt(' + ' | '.join(show(a, d) for a in v.get('alts', [])) + ')'
    if kk == 'tuple':
        return '(' + ', '.join(show(i, d) for i in v.get('items', [])) + ')'
    if kk == 'array':
        return '[' + ', '.join(show(i, d) for i in v.get('items', [])) + ']'
    if kk == 'struct':
        return v.get('path', '?') + '{' + ', '.join(f"{n}: {show(x, d)}" for n, x in v.get('fields', {}).items()) + '}'
    if kk == 'index':
        return f"{show(v['base'], d)}[{show(v['index'], d)}]"
    if kk == 'range':
        return f"{show(v.get('start'), d) if v.get('start') else ''}..{'=' if v.get('inclusive') else ''}{show(v.get('end'), d) if v.get('end') else ''}"
    if kk == 'cast':
        return f"({show(v['v'], d)} as {v.get('ty')})"
    if kk == 'iflet':
        return f"let {v['pat']} = {show(v['scrut'], d)}"
    if kk == 'matches':
        return f"matches!({show(v['scrut'], d)}, {v['pat']})"
    if kk == 'macro':
        return f"{v['name']}!(..)"
    if kk == 'unknown':
        return '?<' + str(v.get('text'))[:60] + '>'
    return '<' + str(kk) + '>'


def children(v):
    """Direct sub-values."""
    if not isinstance(v, dict):
        return
    kk = v.get('k')
    if kk == 'fmt':
        for p in v.get('parts', []):
            if 'hole' in p:
                yield p['hole']
        return
    for key in ('v', 'recv', 'c', 't', 'e', 'scrut', 'of', 'base', 'index', 'body', 'start', 'end', 'rest', 'callee_value', 'result', 'guard'):
        x = v.get(key)
        if isinstance(x, dict):
            yield x
    for key in ('args', 'alts'):
        for x in v.get(key, []) or []:
            if isinstance(x, dict):
                yield x
    if kk == 'match':
        for a in v.get('arms', []):
            yield a['v']
    if kk in ('vecof',):
        for i in v.get('items', []):
            if isinstance(i.get('v'), dict):
                yield i['v']
    if kk in ('tuple', 'array'):
        for i in v.get('items', []):
            if isinstance(i, dict):
                yield i
    if kk == 'struct':
        for x in v.get('fields', {}).values():
            yield x


def walk(v):
    """Pre-order traversal of all nodes."""
    stack = [v]
    while stack:
        x = stack.pop()
        if isinstance(x, dict):
            yield x
            stack.extend(list(children(x)))


def atoms(v):
    return [x for x in walk(v) if x.get('k') == 'atom']


def atom_name(a):
    return '.'.join([a.get('root', '?')] + list(a.get('path', [])))


def calls_in(v):
    return [x for x in walk(v) if x.get('k') == 'call']


def paths_to_atoms(v, pred=lambda a: True):
    """Yield (atom, via) where via is the list of call names / node kinds between the root and the atom."""
    out = []

    def go(x, via):
        if not isinstance(x, dict):
            return
        kk = x.get('k')
        if kk == 'atom':
            if pred(x):
                out.append((x, list(via)))
            return
        nv = via
        if kk == 'call':
            nv = via + [x.get('f')]
        elif kk == 'op':
            nv = via + ['op' + x.get('op', '')]
        elif kk == 'fmt':
            # a format wrapper: record its literal skeleton
            skel = ''.join(p['lit'] if 'lit' in p else '{' + (p.get('spec') or '') + '}' for p in x.get('parts', []))
            nv = via + ['fmt:' + skel]
            for p in x.get('parts', []):
                if 'hole' in p:
                    go(p['hole'], via + ['fmt:' + skel + ('#?' if p.get('spec') == '?' else '')])
            return
        elif kk == 'index':
            nv = via + ['index' + ('range' if x.get('range') else '')]
        elif kk == 'cond':
            go(x['c'], via + ['cond-test'])
            go(x['t'], via)
            go(x['e'], via)
            return
        elif kk == 'match':
            go(x['scrut'], via + ['match-scrut'])
            for a in x.get('arms', []):
                go(a['v'], via)
            return
        for c in children(x):
            go(c, nv)

    go(v, [])
    return out


def lits(v):
    return [x for x in walk(v) if x.get('k') == 'lit']


def fmt_text(f):
    """Literal skeleton of a fmt value with holes as {}."""
    return ''.join(p['lit'] if 'lit' in p else '{}' for p in f.get('parts', []))


def unvar(v):
    while isinstance(v, dict) and v.get('k') == 'var':
        v = v['v']
    return v


def peval(v, oracle, depth=0):
    """Partially evaluate a value tree.  `oracle(scrutinee)` returns the variant name the scrutinee is assumed to have
    ('Some', 'None', 'Ok', 'Err', …), True/False for a boolean condition, or None when it has no opinion.  Decided
    conditionals, matches, tuple projections and Option defaulting adaptors are resolved; everything else is returned as is."""
    if depth > 40:
        return v
    v = unvar(v)
    if not isinstance(v, dict):
        return v
    kk = v.get('k')
    if kk == 'paren':
        return peval(v.get('v'), oracle, depth + 1)
    if kk == 'cond':
        c = unvar(v['c'])
        if isinstance(c, dict) and c.get('k') == 'iflet':
            d = oracle(unvar(c.get('scrut')))
            if d is not None and not isinstance(d, bool):
                hit = any(d == x.split('::')[-1] for x in c.get('variants', []))
                return peval(v['t'] if hit else v.get('e'), oracle, depth + 1)
        else:
            d = oracle(c)
            if isinstance(d, bool):
                return peval(v['t'] if d else v.get('e'), oracle, depth + 1)
        return v
    if kk == 'match':
        d = oracle(unvar(v.get('scrut')))
        if d is not None and not isinstance(d, bool):
            for a in v.get('arms', []):
                if a.get('guard'):
                    return v
                vs = [x.split('::')[-1] for x in a.get('variants', [])]
                if d in vs or '_' in vs or (not vs and re.fullmatch(r'[a-z_][A-Za-z0-9_]*', str(a.get('pat', '')).strip())):
                    return peval(a.get('v'), oracle, depth + 1)
        return v
    if kk == 'matches' and not v.get('guard'):
        d = oracle(unvar(v.get('scrut')))
        if d is not None and not isinstance(d, bool):
            return {'k': 'lit', 't': 'bool', 'ty': 'bool', 'v': any(d == x.split('::')[-1] for x in v.get('variants', []))}
        return v
    if kk == 'field' and str(v.get('name', '')).isdigit():
        b = peval(v.get('base'), oracle, depth + 1)
        if isinstance(b, dict) and b.get('k') == 'tuple' and int(v['name']) < len(b.get('items', [])):
            return peval(b['items'][int(v['name'])], oracle, depth + 1)
        return v if b is v.get('base') else dict(v, base=b)
    if kk == 'call' and v.get('recv') is not None and v.get('f') in ('unwrap_or_else', 'unwrap_or', 'unwrap_or_default'):
        s = unvar(v['recv'])
        d = oracle(s)
        if d == 'Some':
            return {'k': 'payload', 'of': s, 'variant': 'Some'}
        if d == 'None' and v.get('args'):
            a = unvar(v['args'][0])
            if isinstance(a, dict) and a.get('k') == 'closure':
                a = a.get('body')
            return peval(a, oracle, depth + 1)
    return v


def ckey(v):
    """Canonical structural key of a value: variable wrappers, `?`, clones/borrows and source positions are seen
    through, so two expressions denoting the same value compare equal however they were bound to local names."""
    import json as _j

    def clean(x, d=0):
        if d > 80:
            return '…'
        x = strip(x) if isinstance(x, dict) else x
        if isinstance(x, dict):
            return {k2: clean(y, d + 1) for k2, y in x.items() if k2 not in ('line', 'id', 'recv_text', 'ty', 'root_ty', 'turbofish', 'param', 'name' if x.get('k') == 'var' else '', 'inlined', 'via', 'via_line')}
        if isinstance(x, list):
            return [clean(y, d + 1) for y in x]
        return x
    return _j.dumps(clean(v), sort_keys=True)


def is_field_of(v, base, name):
    """Is v the field `name` of the value `base` (either as an access path or as a field node)?"""
    v = strip(v)
    if not isinstance(v, dict):
        return False
    if v.get('k') == 'field' and v.get('name') == name:
        return ckey(v.get('base')) == ckey(base)
    if v.get('k') == 'atom' and v.get('path') and v['path'][-1] == name:
        b = dict(v, path=v['path'][:-1])
        return ckey(b) == ckey(base)
    return False


def expand_closures(v, depth=0):
    """Replace calls of local closures by their (beta-reduced) result, recursively."""
    if isinstance(v, list):
        return [expand_closures(x, depth) for x in v]
    if not isinstance(v, dict) or depth > 40:
        return v
    if v.get('k') == 'call' and v.get('local_closure') and v.get('result') is not None:
        return expand_closures(v['result'], depth + 1)
    return {k2: (expand_closures(x, depth + 1) if isinstance(x, (dict, list)) else x) for k2, x in v.items()}
