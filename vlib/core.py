"""Framework: engine invocation + caching, rule reporting, evidence, known findings."""
import fcntl
import glob
import hashlib
import json
import os
import shutil
import subprocess
import sys
import tempfile
import time

VERIF = os.path.dirname(os.path.dirname(os.path.abspath(__file__)))
REPO = os.environ.get('VERIF_REPO', '/repo')
CACHE = os.path.join(VERIF, '.cache')
MIRQ = os.path.join(VERIF, 'engines/mirq/target/release/mirq')
ASTQ = os.path.join(VERIF, 'engines/astq/target/release/astq')

FEATURE_SETS = {
    'all': ['--all-features'],
    'default': [],
    'go': ['--features', 'typeshare-cli/go'],
    'python': ['--features', 'typeshare-cli/python'],
}


class Incomplete(Exception):
    """The analysis cannot see what it needs (anchor missing, floor not met, engine failure)."""


def tree_hash(repo=None):
    repo = repo or REPO
    h = hashlib.sha256()
    files = []
    for root, dirs, fs in os.walk(repo):
        dirs[:] = sorted(d for d in dirs if d not in ('target', '.git', 'node_modules'))
        for f in sorted(fs):
            if f.endswith('.rs') or f in ('Cargo.toml', 'Cargo.lock'):
                files.append(os.path.join(root, f))
    for p in files:
        h.update(os.path.relpath(p, repo).encode())
        h.update(b'\0')
        with open(p, 'rb') as fh:
            h.update(fh.read())
        h.update(b'\0')
    # engine binaries are part of the key (a rebuilt engine invalidates cached facts)
    for eng in (MIRQ, ASTQ):
        try:
            st = os.stat(eng)
            h.update(f'{eng}:{st.st_size}:{int(st.st_mtime)}'.encode())
        except OSError:
            h.update(b'missing')
    return h.hexdigest()[:24]


class _Lock:
    def __init__(self, name):
        os.makedirs(CACHE, exist_ok=True)
        self.path = os.path.join(CACHE, name + '.lock')

    def __enter__(self):
        self.fh = open(self.path, 'w')
        fcntl.flock(self.fh, fcntl.LOCK_EX)
        return self

    def __exit__(self, *a):
        fcntl.flock(self.fh, fcntl.LOCK_UN)
        self.fh.close()


def _prune_cache(keep_prefixes):
    try:
        ents = sorted(glob.glob(os.path.join(CACHE, '*.json')), key=os.path.getmtime)
        ents = [e for e in ents if not any(os.path.basename(e).startswith(p) for p in keep_prefixes)]
        for e in ents[:-60]:
            os.remove(e)
    except OSError:
        pass


def run_astq(repo=None, th=None):
    repo = repo or REPO
    th = th or tree_hash(repo)
    out = os.path.join(CACHE, f'astq-{th}.json')
    with _Lock('astq-' + th):
        if not os.path.exists(out):
            if not os.path.exists(ASTQ):
                raise Incomplete(f'astq engine not built ({ASTQ}); run MANIFEST.setup_cmd')
            tmp = out + f'.tmp{os.getpid()}'
            r = subprocess.run([ASTQ, repo, tmp], capture_output=True, text=True)
            if r.returncode != 0 or not os.path.exists(tmp):
                raise Incomplete('astq failed: ' + r.stderr[-2000:])
            os.replace(tmp, out)
            _prune_cache(['astq-' + th, 'mirq-' + th])
    with open(out) as fh:
        return json.load(fh)


def run_mirq(features='all', repo=None, th=None):
    """Compile the workspace with the mirq driver (fresh target dir) and merge the per-crate fact files."""
    repo = repo or REPO
    th = th or tree_hash(repo)
    out = os.path.join(CACHE, f'mirq-{th}-{features}.json')
    with _Lock(f'mirq-{th}-{features}'):
        if not os.path.exists(out):
            if not os.path.exists(MIRQ):
                raise Incomplete(f'mirq engine not built ({MIRQ}); run MANIFEST.setup_cmd')
            sysroot = subprocess.run(['rustc', '+nightly', '--print', 'sysroot'], capture_output=True, text=True, cwd=VERIF).stdout.strip()
            tdir = tempfile.mkdtemp(prefix='mirq-target-')
            odir = tempfile.mkdtemp(prefix='mirq-out-')
            # The third-party dependencies do not change from tree to tree: their compiled metadata is kept as a seed
            # (members' fingerprints removed, so cargo always recompiles every workspace crate through the driver) and copied
            # into the fresh target dir.  Without a seed (fresh restore) the run is cold and leaves one behind.
            seed = os.path.join(CACHE, f'mirq-deps-{features}')
            if os.path.isdir(seed):
                shutil.rmtree(tdir, ignore_errors=True)
                r0 = subprocess.run(['cp', '-a', seed, tdir])
                if r0.returncode != 0:
                    shutil.rmtree(tdir, ignore_errors=True)
                    os.makedirs(tdir)
            try:
                env = dict(os.environ)
                env.update({
                    'LD_LIBRARY_PATH': sysroot + '/lib' + (':' + env['LD_LIBRARY_PATH'] if env.get('LD_LIBRARY_PATH') else ''),
                    'MIRQ_OUT': odir,
                    'RUSTFLAGS': '-Zmir-opt-level=0 -Awarnings',
                    'RUSTC_WORKSPACE_WRAPPER': MIRQ,
                    'CARGO_TARGET_DIR': tdir,
                    'CARGO_NET_OFFLINE': 'true',
                })
                env.pop('RUSTC_WRAPPER', None)
                cmd = ['cargo', '+nightly', 'check', '--offline', '--workspace'] + FEATURE_SETS[features]
                r = subprocess.run(cmd, cwd=repo, env=env, capture_output=True, text=True)
                if r.returncode != 0:
                    raise Incomplete('cargo check under mirq failed (the tree does not compile?):\n' + r.stderr[-3000:])
                crates = {}
                for f in sorted(glob.glob(os.path.join(odir, '*.json'))):
                    with open(f) as fh:
                        d = json.load(fh)
                    key = d['crate'] + ('#bin' if 'Executable' in d['crate_types'] else '')
                    crates[key] = d
                need = {'typeshare_core', 'typeshare', 'typeshare#bin', 'typeshare_annotation'}
                if not need <= set(crates):
                    raise Incomplete(f'mirq fact files missing for {sorted(need - set(crates))}')
                tmp = out + f'.tmp{os.getpid()}'
                with open(tmp, 'w') as fh:
                    json.dump({'features': features, 'crates': crates}, fh)
                os.replace(tmp, out)
                if not os.path.isdir(seed):
                    try:
                        stmp = seed + f'.tmp{os.getpid()}'
                        shutil.rmtree(stmp, ignore_errors=True)
                        subprocess.run(['cp', '-a', tdir, stmp], check=True)
                        for pat in ('debug/.fingerprint/typeshare*', 'debug/incremental', 'debug/deps/*typeshare*', 'debug/deps/libtypeshare*', 'debug/build/typeshare*'):
                            for x in glob.glob(os.path.join(stmp, pat)):
                                shutil.rmtree(x, ignore_errors=True) if os.path.isdir(x) else os.remove(x)
                        os.rename(stmp, seed)
                    except Exception:
                        shutil.rmtree(seed + f'.tmp{os.getpid()}', ignore_errors=True)
            finally:
                shutil.rmtree(tdir, ignore_errors=True)
                shutil.rmtree(odir, ignore_errors=True)
    with open(out) as fh:
        return json.load(fh)


# ---------------------------------------------------------------------------------------------


class Ctx:
    """Lazy access to engine facts for one check run."""

    def __init__(self, tier='quick'):
        self.tier = tier
        self.repo = REPO
        self._th = None
        self._astq = None
        self._mirq = {}
        self._fn_index = None

    @property
    def th(self):
        if self._th is None:
            self._th = tree_hash(self.repo)
        return self._th

    @property
    def astq(self):
        if self._astq is None:
            self._astq = run_astq(self.repo, self.th)
            if self._astq.get('errors'):
                raise Incomplete('astq could not parse: ' + json.dumps(self._astq['errors'])[:500])
            # nested fn items are evaluated separately by astq; expose them as functions of the same file
            todo = list(self._astq['functions'])
            while todo:
                f = todo.pop()
                for l in f.get('lets', []):
                    n = l.get('nested_fn')
                    if n:
                        n['file'] = f['file']
                        n['mod'] = f.get('mod', '')
                        n['qual'] = f['qual'] + '::' + n['name']
                        n['nested_in'] = f['qual']
                        self._astq['functions'].append(n)
                        todo.append(n)
        return self._astq

    def mirq(self, features='all'):
        if features not in self._mirq:
            self._mirq[features] = run_mirq(features, self.repo, self.th)
        return self._mirq[features]

    # --- astq conveniences ---
    def fns(self, qual=None, file=None, name=None):
        out = []
        for f in self.astq['functions']:
            if qual is not None and f['qual'] != qual:
                continue
            if file is not None and not f['file'].endswith(file):
                continue
            if name is not None and f['name'] != name:
                continue
            out.append(f)
        return out

    def fn(self, qual, file=None, trait=None):
        c = [f for f in self.fns(qual=qual, file=file) if trait is None or (f.get('trait') or '').startswith(trait)]
        if not c and file is not None:
            # the anchor may have been turned from a method into a free function of the same file, or the reverse
            base = qual.split('::')[-1]
            alt = [f for f in self.fns(file=file) if f['name'].split('::')[-1] == base and not f.get('nested_in') and (trait is None or (f.get('trait') or '').startswith(trait))]
            if len(alt) == 1:
                c = alt
        if len(c) != 1:
            raise Incomplete(f'anchor function {qual} ({file or "any file"}) expected once, found {len(c)}')
        return c[0]

    def fnx(self, qual, file=None, trait=None, stop=(), depth=3, force=()):
        """Like fn(), but with calls to local helpers no rule knows by name expanded (vlib/inline.py)."""
        from . import inline
        return inline.view(self, self.fn(qual, file=file, trait=trait), depth=depth, stop=tuple(stop), force=tuple(force))

    def x(self, f, stop=(), depth=3):
        from . import inline
        return inline.view(self, f, depth=depth, stop=tuple(stop))

    def items(self, kind=None, name=None, file=None):
        return [i for i in self.astq['items'] if (kind is None or i['kind'] == kind) and (name is None or i.get('name') == name) and (file is None or i['file'].endswith(file))]

    def item(self, kind, name, file=None):
        c = self.items(kind, name, file)
        if len(c) != 1:
            raise Incomplete(f'anchor item {kind} {name} expected once, found {len(c)}')
        return c[0]


class Report:
    def __init__(self, prop, tier):
        self.prop = prop
        self.tier = tier
        self.t0 = time.time()
        self.obligations = []   # dicts: rule, key, ok, msg, site
        self.notes = []
        self.explanation = ''
        self.not_decided = ''
        self.trusted = []
        self.extra = {}
        self.analysed = {}
        self.incomplete = []    # messages of rule groups that could not see their anchors (the others still run)

    def ok(self, rule, key, detail='', site=None):
        self.obligations.append({'rule': rule, 'key': f'{rule}:{key}', 'ok': True, 'msg': detail, 'site': site})

    def fail(self, rule, key, msg, site=None):
        self.obligations.append({'rule': rule, 'key': f'{rule}:{key}', 'ok': False, 'msg': msg, 'site': site})

    def check(self, cond, rule, key, ok_detail='', fail_msg='', site=None):
        if cond:
            self.ok(rule, key, ok_detail, site)
        else:
            self.fail(rule, key, fail_msg or ok_detail, site)
        return cond

    def floor(self, rule, what, count, minimum):
        if count < minimum:
            raise Incomplete(f'{rule}: {what}: found {count}, expected at least {minimum} (counted on the pinned tree) — the rule cannot see its instances')
        self.analysed[f'{rule}:{what}'] = count

    def note(self, s):
        self.notes.append(s)

    def section(self, fn, *args, **kw):
        """Run one rule group; an Incomplete raised inside it is recorded and the remaining groups still run (a violation
        found elsewhere is reported even when this group lost its anchor).  bin/check turns a recorded Incomplete into
        exit 2 unless an unlisted violation was found."""
        try:
            return fn(*args, **kw)
        except Incomplete as e:
            self.incomplete.append(str(e))
            return None
        except (KeyError, IndexError, TypeError, AttributeError, ValueError, StopIteration, AssertionError) as e:
            # a rule met a program shape it was not written for: no verdict from this group (fail closed), never a crash
            import traceback
            where = traceback.extract_tb(e.__traceback__)[-1]
            self.incomplete.append(f"rule group {getattr(fn, '__name__', '?')} could not interpret the program shape it met ({type(e).__name__}: {str(e)[:80]} at {os.path.basename(where.filename)}:{where.lineno}) — no verdict from this group")
            return None


def load_known():
    p = os.path.join(VERIF, 'known_findings.json')
    if not os.path.exists(p):
        return {}
    with open(p) as fh:
        d = json.load(fh)
    out = {}
    for e in d.get('findings', []):
        out[(e['property'], e['key'])] = e
    return out


def site_str(site):
    if not site:
        return ''
    if isinstance(site, str):
        return site
    return f"{site.get('file', '?')}:{site.get('line', '?')}"


def engine_agreement(ctx, rep):
    """Every non-closure, non-derived MIR body of the workspace crates whose span is not a macro expansion has an astq
    function at the same file:line (the syntax evaluator covers what the build covers).  Fails closed."""
    fa = {(f['file'], f['line']) for f in ctx.astq['functions']}
    for fs in (list(ctx._mirq) or ['all']):
        m = ctx.mirq(fs)
        n = gen = 0
        missing = []
        bodies = [b for c in m['crates'].values() for b in c['bodies']]
        for b in bodies:
            if b['kind'] in ('closure', 'promoted', 'const') or b.get('derived') or not str(b.get('file', '')).endswith('.rs') or str(b['file']).startswith('/'):
                continue
            if b.get('exp'):
                gen += 1
                continue
            n += 1
            if (b['file'], b['line']) not in fa:
                missing.append(f"{b['id']} ({b['file']}:{b['line']})")
        rep.analysed[f'engine-agreement[{fs}]'] = f'{n} hand-written function bodies compiled by rustc all seen by astq; {gen} macro-generated bodies (serde derive, truncated_type!, lazy_format!) exist only in MIR'
        if missing:
            raise Incomplete(f'engine disagreement [{fs}]: rustc compiled function(s) the syntax evaluator did not see: {missing[:5]}')
        # emission-site reconciliation (DESIGN 2.3): every `io::Write::write_fmt` / `fmt::Write::write_fmt` call rustc
        # resolved in hand-written code of the backends is an emission site of the syntax evaluator at the same file:line
        # (with multiplicity).  lazy_format! expands to a write_fmt inside a Display impl; the evaluator models it as a value.
        import collections
        a_sites = collections.Counter()
        for f in ctx.astq['functions']:
            for s in f.get('sites', []):
                if s.get('macro') in ('write', 'writeln', 'write_all', 'write_str'):
                    a_sites[(f['file'], s['fmt']['line'])] += 1
        m_sites = collections.Counter()
        for b in bodies:
            if b.get('derived') or not str(b.get('file', '')).startswith('core/src/language/'):
                continue
            for cl in b['calls']:
                ck = cl.get('ckey') or ''
                raw = (ck.endswith('Write::write_all') or ck.endswith('Write::write_str')) and not (cl.get('macros') or [])
                if raw and '.as_bytes()' not in str(cl.get('snippet', '')).replace(' ', '') and 'write_str' not in ck:
                    raw = False      # `w.write_all(&bytes)` of a byte buffer (not text of the generated file's grammar): not an emission of text
                if not ck.endswith('write_fmt') and not raw:
                    continue
                macs = cl.get('macros') or []
                if 'lazy_format' in macs or 'Error' in macs:
                    continue
                m_sites[(cl['file'], cl['line'])] += 1
        lost = {f'{k[0]}:{k[1]}': (v, a_sites.get(k, 0)) for k, v in m_sites.items() if a_sites.get(k, 0) < v}
        rep.analysed[f'emission-sites[{fs}]'] = (f'{sum(m_sites.values())} write_fmt calls resolved by rustc in core/src/language all matched by '
                                                 f'{sum(a_sites[k] for k in m_sites)} emission sites of the syntax evaluator at the same file:line')
        if lost:
            raise Incomplete(f'engine disagreement [{fs}]: write_fmt call(s) compiled by rustc that the syntax evaluator did not model as emission sites '
                             f'(file:line → (mir, astq)): {dict(list(lost.items())[:5])}')


def finish(rep, seed=0):
    """Print verdict lines, write evidence, return exit code."""
    known = load_known()
    viol = []
    kf = []
    seen = set()
    for o in rep.obligations:
        if o['ok']:
            continue
        if o['key'] in seen:
            continue
        seen.add(o['key'])
        if (rep.prop, o['key']) in known:
            kf.append(o)
        else:
            viol.append(o)
    evdir = os.environ.get('VERIF_EVIDENCE_DIR') or os.path.join(VERIF, 'evidence')
    vdir = os.path.join(evdir, 'violations', rep.prop)
    if os.path.isdir(vdir):
        shutil.rmtree(vdir, ignore_errors=True)
    for o in kf:
        print(f"KNOWN-FINDING: property={rep.prop} {o['key']} — {o['msg']} [{site_str(o['site'])}]")
    for o in viol:
        os.makedirs(vdir, exist_ok=True)
        fn = hashlib.sha1(o['key'].encode()).hexdigest()[:16] + '.json'
        path = os.path.join(vdir, fn)
        with open(path, 'w') as fh:
            json.dump({'property': rep.prop, 'key': o['key'], 'rule': o['rule'], 'message': o['msg'], 'site': o['site'], 'tree_hash': tree_hash()}, fh, indent=1)
        print(f"VIOLATION property={rep.prop} replay={path}")
        print(f"  {o['key']} — {o['msg']} [{site_str(o['site'])}]")
    n_ob = len({o['key'] for o in rep.obligations})
    n_ok = len({o['key'] for o in rep.obligations if o['ok']})
    samples = []
    for o in rep.obligations[:60]:
        samples.append({'rule': o['rule'], 'key': o['key'], 'ok': o['ok'], 'detail': (o['msg'] or '')[:300], 'site': site_str(o['site'])})
    by_rule = {}
    for o in rep.obligations:
        r = by_rule.setdefault(o['rule'], {'instances': 0, 'held': 0})
        r['instances'] += 1
        r['held'] += 1 if o['ok'] else 0
    ev = {
        'property_id': rep.prop,
        'tier': rep.tier,
        'seed': seed,
        'level': 'other',
        'coverage': {
            'explanation': rep.explanation + (' NOT DECIDED: ' + rep.not_decided if rep.not_decided else ''),
            'obligations': n_ob,
            'discharged': n_ok,
            'known_findings_hit': [o['key'] for o in kf],
            'rules': by_rule,
            'analysed': rep.analysed,
            'samples': samples,
            'exhaustive': True,
            'checker_cmd': f'bin/check {rep.prop} {rep.tier}',
            'trusted_base': rep.trusted,
            'tree_hash': tree_hash(),
            'notes': rep.notes[:40],
            **rep.extra,
        },
        'assumptions': rep.trusted,
        'wall_s': round(time.time() - rep.t0, 3),
        'violations': len(viol),
    }
    os.makedirs(evdir, exist_ok=True)
    with open(os.path.join(evdir, rep.prop + '.json'), 'w') as fh:
        json.dump(ev, fh, indent=1)
    print(f"{rep.prop} [{rep.tier}]: {n_ob} rule instances, {n_ok} held, {len(kf)} known findings, {len(viol)} violations ({ev['wall_s']} s)")
    return 1 if viol else 0
