"""C05 — type expressions translate structurally, losslessly and honour type mappings.

Structural induction made checkable arm by arm: (T1) every container arm of every format_special_type recurses with
format_type on every boxed child, with the incoming generic context, and Vec/Slice share one target constructor;
(T2) the type parser recurses through references/arrays/slices, collects all type arguments in order, routes the
container and smart-pointer names correctly and keeps unknown names with all parameters; (T3) the sibling
traversals (contains_type, parameters) visit every payload; (T4) every format_* consults the type map before any
other output is chosen; (T5) the Kotlin/Swift prefix is applied exactly on the not-mapped, not-generic-parameter path;
(T6) each backend's primitive table agrees with a frozen capacity/category oracle after resolving the aliases
typeshare itself emits; (T7) each backend receives its own language's type_mappings."""
import itertools
import json
import os
import re

from .. import inline, core, coverage, emit, guards, special, vt, wiring

SMART_POINTERS = {'Box', 'Arc', 'Rc', 'Cow', 'Cell', 'RefCell', 'Mutex', 'RwLock'}


def run(ctx, rep):
    rep.explanation = ('Compositionality decided per arm: container arms of the six format_special_type impls and of the type parser are checked for recursion on every '
                       'child with the same generic context; the type-map-first and prefix disciplines are tabulated over (mapped, generic parameter); primitive arms '
                       'are extracted into a table and compared with an independent capacity/category oracle; config→backend wiring of type_mappings is checked in '
                       'cli::language(). Since each arm is checked for symbolic children, the result holds at any nesting depth.')
    rep.not_decided = 'behaviour of the target compilers (depth/width limits); whether Swift Unicode.Scalar is Codable.'
    rep.trusted = ['syn', 'astq evaluator', 'rules/c05_primitives.json (target-language capacities)', "serde's transparent smart-pointer set as restated by the property"]
    T = emit.Types(ctx.astq)
    rep.section(t1, ctx, rep, T)
    rep.section(t2, ctx, rep, T)
    rep.section(t9, ctx, rep, T)
    rep.section(t3, ctx, rep, T)
    rep.section(t45, ctx, rep, T)
    rep.section(t6, ctx, rep, T)
    rep.section(t8, ctx, rep, T)
    rep.section(wiring.backend_wiring, ctx, rep, 'T7', only_fields={'type_mappings'})
    rep.section(t7_unchanged, ctx, rep)
    rep.section(t10, ctx, rep)


def t8(ctx, rep, T):
    """T8: the helper type generated for a struct variant is *declared* with a list of the enum's generic parameters
    (write_types_for_anonymous_structs) and *referenced* with a list of generic arguments (each backend's variant
    printer).  Both lists are computed from the variant's fields and the enum's parameter list; they denote the same
    sequence only if they iterate in the same nesting — fields outermost (order of first use) or parameters outermost
    (declaration order) — and both or neither deduplicate."""
    def shape(v):
        # outermost iterated collection of the pipeline that tests `contains_type`, and whether it is deduplicated
        best = None
        for x in vt.walk(v):
            if x.get('k') == 'call' and x.get('recv') is not None and any(y.get('k') == 'call' and y.get('f') == 'contains_type' for a in x.get('args', []) for y in vt.walk(a)):
                root, chain = vt.unvar(x['recv']), []
                while isinstance(root, dict) and root.get('k') == 'call' and root.get('recv') is not None:
                    chain.append(root.get('f'))
                    root = vt.unvar(root['recv'])
                txt = vt.show(root)
                kind = 'parameters' if 'generic' in txt else ('fields' if 'fields' in txt else txt[-20:])
                cand = (kind, x.get('f'))
                if best is None or len(json.dumps(x)) > best[2]:
                    best = (kind, x.get('f'), len(json.dumps(x)))
        if best is None:
            # the loop form: `for field in fields { for g in generics { if field.ty.contains_type(g) && !out.contains(g) { out.push(g) } } }`
            vec = next((x for x in vt.walk(v) if x.get('k') == 'vecof' and x.get('items')), None)
            if vec is not None:
                for it in vec['items']:
                    frames = it.get('guard', [])
                    fors = [fr for fr in frames if fr.get('k') == 'for']
                    tests = [fr for fr in frames if fr.get('k') == 'if' and any(y.get('k') == 'call' and y.get('f') == 'contains_type' for y in vt.walk(fr.get('c') or {}))]
                    if fors and tests:
                        txt = vt.show(fors[0].get('over'))
                        kind = 'parameters' if 'generic' in txt else ('fields' if 'fields' in txt else txt[-20:])
                        # "not yet in the list being built" is the loop spelling of `.unique()`
                        dd = any(y.get('k') == 'op' and y.get('op') == '!' and any(z.get('k') == 'call' and z.get('f') == 'contains' for z in vt.walk(y)) for fr in frames if fr.get('k') == 'if' for y in vt.walk(fr.get('c') or {}))
                        return kind, dd
            return None
        dedup = any(y.get('k') == 'call' and y.get('f') in ('unique', 'dedup', 'sorted') for y in vt.walk(v))
        return best[0], dedup
    d = ctx.fnx('Language::write_types_for_anonymous_structs', file='language/mod.rs')
    decl = None
    for stl in d['structs']:
        if stl['path'].split('::')[-1] == 'RustStruct':
            decl = shape(stl['v']['fields'].get('generic_types'))
    if decl is None:
        raise core.Incomplete('write_types_for_anonymous_structs: the generic parameter list of the helper struct was not found')
    n = 0
    for be, (struct, file) in emit.BACKENDS.items():
        for g in inline.file_views(ctx, file):
            for l in g['lets']:
                if isinstance(l.get('v'), dict) and any(y.get('k') == 'call' and y.get('f') == 'contains_type' for y in vt.walk(l['v'])):
                    use = shape(l['v'])
                    if use is None:
                        continue
                    n += 1
                    rep.check(use == decl, 'T8', f"{be}:{g['name']}:helper-generic-order", f'arguments computed like the parameters ({decl[0]} outermost{", deduplicated" if decl[1] else ""})', f"{be}: {g['qual']} computes the generic arguments of the struct-variant helper type with {use[0]} outermost{' (deduplicated)' if use[1] else ''}, its declaration with {decl[0]} outermost{' (deduplicated)' if decl[1] else ''}: for `enum E<A, B> {{ V {{ y: B, x: A }} }}` the helper is declared `<{'A, B' if decl[0] == 'parameters' else 'B, A'}>` but referenced `<{'A, B' if use[0] == 'parameters' else 'B, A'}>` — type arguments bound to the wrong parameters", {'file': g['file'], 'line': l.get('line')})
    rep.floor('T8', 'helper-type generic argument computations', n, 3)


def t1(ctx, rep, T):
    for be, (struct, file) in emit.BACKENDS.items():
        f = ctx.fn(f'{struct}::format_special_type', file=file)
        n = coverage.check_recursion(rep, 'T1', ctx, f, 'SpecialRustType', ['format_type'], f'{be}:format_special_type')
        rep.floor('T1', f'{be}: container variants', n, 5)
        gparam = f['params'][-1]['name']
        bad = [c for c in f['calls'] if c.get('f') == 'format_type' and not (len(c.get('args', [])) == 2 and vt.show(vt.strip(c['args'][1])) == gparam)]
        rep.check(not bad, 'T1', f'{be}:generic-context', 'children formatted with the incoming generic context', f"{be}: format_special_type formats a child type with generic context `{vt.show(bad[0]['args'][1])[:40] if bad and len(bad[0].get('args', [])) > 1 else '?'}` instead of the incoming `{gparam}`", {'file': f['file'], 'line': bad[0]['line'] if bad else f['line']})
        # each child result reaches the returned template exactly once (TS arrays repeat by length), Vec == Slice
        # what the function returns per variant (specialisation of its exits, vlib/special.py): independent of whether the
        # result is an arm value, an early return through a helper, or a string accumulated with push_str
        shapes = variant_shapes(ctx, T, f, struct, type_hook=lambda c: ['⟦' + vt.show(c['args'][0])[-12:] + '⟧'], asg={f'{struct}.no_pointer_slice': False})
        for name, n_child in (('Vec', 1), ('Slice', 1), ('Option', 1), ('HashMap', 2), ('Array', 1)):
            outs = shapes.get(name)
            if outs is None:
                continue
            for o in outs:
                cnt = o.count('⟦')
                ok = cnt == n_child or (name == 'Array' and cnt >= 1)
                rep.check(ok, 'T1', f'{be}:{name}:children-placed', o[:60], f"{be}: the {name} arm places {cnt} child type(s) in its result `{o[:80]}` (expected {n_child}): a child is dropped or duplicated", {'file': f['file'], 'line': f['line']})
        if 'Vec' in shapes and 'Slice' in shapes:
            norm = lambda outs: sorted(re.sub(r'⟦[^⟧]*⟧', 'T', o) for o in outs)
            rep.check(norm(shapes['Vec']) == norm(shapes['Slice']), 'T1', f'{be}:sequence-constructor', f"Vec and slice both → {norm(shapes['Vec'])}", f"{be}: Vec renders as {norm(shapes['Vec'])} but &[T] as {norm(shapes['Slice'])} — sequences must share one target constructor", {'file': f['file'], 'line': f['line']})


def variant_shapes(ctx, T, f, struct, type_hook, asg=None):
    """{variant: sorted rendered results} of a format_special_type implementation; the type-map early return (`⟨get:..⟩`) and
    error results are left out."""
    from .. import special
    out = {}
    for V, vals in special.per_variant(ctx, f, 'SpecialRustType').items():
        R = guards.Renderer(T, dict(asg or {}), type_hook=type_hook)
        outs = sorted({o for v in vals for o in R.render(v)})
        outs = [o for o in outs if '⟨get:' not in o and '⟨Err' not in o and '⟨mapped' not in o]
        if outs:
            out[V] = outs
    return out


def shape_test_variants(ctx, t, payload_ok):
    """If `t` is a test of the *shape* of an IR type value (a `matches!` on it, an `is_*()` method of RustType, a local
    boolean helper whose result is such a `matches!`) return the set of SpecialRustType variant names it accepts; else None."""
    t = vt.unvar(t)
    if not isinstance(t, dict):
        return None
    if t.get('k') == 'matches' and payload_ok(t.get('scrut')):
        return {m_ for v in t.get('variants', []) for m_ in re.findall(r'SpecialRustType::(\w+)', v)} or None
    if t.get('k') == 'call':
        subj = t.get('recv') if t.get('recv') is not None else (t['args'][0] if t.get('args') else None)
        if subj is None or not payload_ok(subj):
            return None
        name = str(t.get('f', '')).split('::')[-1]
        cands = [g for g in ctx.astq['functions'] if g['name'].split('::')[-1] == name and (g.get('ret') or '').replace(' ', '') == 'bool'
                 and (g['file'].endswith('rust_types.rs') or g['file'].endswith('go.rs') or '/language/' in g['file'])]
        for g in cands:
            tail = vt.unvar(g.get('tail'))
            if isinstance(tail, dict) and tail.get('k') == 'matches':
                vs = {m_ for v in tail.get('variants', []) for m_ in re.findall(r'SpecialRustType::(\w+)', v)}
                if vs:
                    return vs
    return None


def t9(ctx, rep, T):
    """T9: a backend may leave out its Option marker for some inner types only when those types are nullable by themselves in
    the target (Go: slices and maps).  The condition under which the marker-less alternative of the Option arm is chosen must
    contain a shape test of the inner type, and every variant that test accepts must render — in this backend's own arm for
    that variant — as a nullable form."""
    NULLABLE_PREFIX = {'go': ('[]', 'map[', '*')}
    from .. import special
    for be, (struct, file) in emit.BACKENDS.items():
        f = ctx.fn(f'{struct}::format_special_type', file=file)
        pv = special.per_variant(ctx, f, 'SpecialRustType')
        site = {'file': f['file'], 'line': f['line']}
        shapes = variant_shapes(ctx, T, f, struct, type_hook=lambda c_: ['T'])

        def payload_ok(x):
            x = vt.unvar(x)
            while isinstance(x, dict) and x.get('k') in ('ref', 'deref', 'paren') or (isinstance(x, dict) and x.get('k') == 'call' and x.get('f') in ('as_ref', 'deref', 'borrow') and x.get('recv') is not None):
                x = vt.unvar(x.get('v') if x.get('k') != 'call' else x.get('recv'))
            return isinstance(x, dict) and x.get('k') == 'payload' and str(x.get('variant', '')).endswith('SpecialRustType::Option')
        seen = set()
        for val in pv.get('Option', []):
            for x in vt.walk(val):
                if x.get('k') != 'cond':
                    continue
                R = guards.Renderer(T, {}, type_hook=lambda c_: ['T'])
                rt, re_ = sorted(set(R.render(x.get('t')))), sorted(set(R.render(x.get('e'))))
                if rt == re_ or len(rt) != 1 or len(re_) != 1:
                    continue
                # the two branches differ by a marker: the shorter rendering is the marker-less one
                short_is_then = len(rt[0]) < len(re_[0])
                longer, shorter = (re_[0], rt[0]) if short_is_then else (rt[0], re_[0])
                if not (longer.endswith(shorter) or longer.startswith(shorter)):
                    continue
                marker = longer[:len(longer) - len(shorter)] if longer.endswith(shorter) else longer[len(shorter):]
                c = vt.unvar(x.get('c'))
                want = short_is_then       # marker dropped when c == want
                while isinstance(c, dict) and ((c.get('k') == 'op' and c.get('op') == '!' and len(c.get('args', [])) == 1) or c.get('k') == 'paren'):
                    if c.get('k') == 'op':
                        want = not want
                        c = vt.unvar(c['args'][0])
                    else:
                        c = vt.unvar(c.get('v'))
                k = vt.ckey(c) + str(want)
                if k in seen:
                    continue
                seen.add(k)
                if not want:
                    rep.fail('T9', f'{be}:option-marker-dropped', f"{be}: Option<T> is rendered without its marker `{marker}` when `{vt.show(c)[:70]}` is false — not a restriction of the inner type to self-nullable forms", site)
                    continue
                terms = []

                def conj(v):
                    v = vt.unvar(v)
                    if isinstance(v, dict) and v.get('k') == 'op' and v.get('op') == '&&':
                        for a_ in v['args']:
                            conj(a_)
                    elif isinstance(v, dict) and v.get('k') == 'paren':
                        conj(v.get('v'))
                    else:
                        terms.append(v)
                conj(c)
                accepted = None
                for t in terms:
                    vs = shape_test_variants(ctx, t, payload_ok)
                    if vs is not None:
                        accepted = vs if accepted is None else (accepted & vs)
                if accepted is None:
                    rep.fail('T9', f'{be}:option-marker-dropped', f"{be}: Option<T> is rendered without its marker `{marker}` under `{vt.show(c)[:80]}`, which does not restrict the inner type: Option<T> and T then translate to the same target type for every T (the Option layer is lost)", site)
                    continue
                bad = []
                for v in sorted(accepted):
                    outs = shapes.get(v, [])
                    if not outs or not all(o.startswith(NULLABLE_PREFIX.get(be, ())) for o in outs):
                        bad.append((v, outs[:2]))
                b0 = bad[0][0] if bad else ''
                rep.check(not bad, 'T9', f'{be}:option-marker-dropped', f'marker omitted only for {sorted(accepted)}, all nullable by themselves', f"{be}: Option<T> is rendered without its marker `{marker}` for inner types {sorted(accepted)}, but {', '.join(f'{v} renders as {o}' for v, o in bad)} — not a nullable form in the target, so Option<{b0}<..>> and {b0}<..> become the same type and the Option layer is lost", site)


SURGERY = ('replace', 'replacen', 'trim_matches', 'trim_start_matches', 'trim_end_matches', 'strip_prefix', 'strip_suffix', 'truncate',
           'split', 'rsplit', 'split_once', 'rsplit_once', 'splitn', 'replace_range', 'drain', 'remove', 'retain', 'split_at', 'split_terminator')
FORMATTERS = ('format_type', 'format_simple_type', 'format_generic_type', 'format_special_type', 'format_generic_parameters')


def t10(ctx, rep):
    """T10 (composition only): a rendered type is a finished piece of target text in which user type names, mapped names and
    keywords are no longer distinguishable.  Backends may wrap it (`Optional[..]`, `List<..>`, `Annotated[.., ..]`) but never
    rewrite inside it: a `replace`/`trim_*`/`strip_*`/`split`/`truncate` on the result of a format_* method edits every
    occurrence of the pattern — also the one inside a user type name (`Megabytes` → `MegaAnnotated[bytes, ..]`), so user types
    stop keeping their name and a mapping is applied where the mapped Rust type does not occur."""
    n = 0
    for be, (struct, file) in emit.BACKENDS.items():
        for f in ctx.astq['functions']:
            if not f['file'].endswith(file):
                continue
            for c in f['calls']:
                if c.get('f') not in SURGERY or c.get('recv') is None:
                    continue
                src = [x.get('f') for x in vt.walk(c['recv']) if isinstance(x, dict) and x.get('k') == 'call' and x.get('f') in FORMATTERS and x.get('recv') is not None]
                if not src:
                    continue
                n += 1
                rep.fail('T10', f"{be}:{f['name']}:{c['f']}-on-rendered-type", f"{be}: {f['qual']} applies `.{c['f']}(..)` to a rendered type (`{vt.show(c['recv'])[:70]}`, produced by {sorted(set(src))}): the pattern also matches inside user type names and mapped names nested in it, so a user type loses its name / a mapping is applied where the mapped type does not occur", {'file': f['file'], 'line': c.get('line')})
    rep.analysed['T10:textual rewrites of rendered types'] = n
    if n == 0:
        rep.ok('T10', 'no-text-surgery-on-rendered-types', 'rendered types are only wrapped, never rewritten')


def t7_unchanged(ctx, rep):
    """T7: the mapping table reaches its backend as written in the configuration file — no statement of the CLI rewrites
    (normalises, filters, merges) a `type_mappings` table between loading and use; look-ups are by the exact Rust spelling."""
    from .. import cg
    prog = cg.Program(ctx.mirq('all'))
    muts = [m for m in wiring.config_mutations(ctx, prog) if m[2] == 'type_mappings']
    for fid, owner, fname, st, file, line in muts:
        rep.fail('T7', f"type_mappings-rewritten:{fid.split('::{closure')[0].split('::')[-1]}:{owner.split('::')[-1]}", f"{fid} rewrites {owner.split('::')[-1]}.type_mappings (`{st[:80]}`): the keys are compared with the printed Rust type (`Vec<Pair<String, u32>>` keeps its blank), so a rewritten key no longer matches and the mapping is silently ignored", {'file': file, 'line': line})
    if not muts:
        rep.ok('T7', 'type_mappings-unchanged', 'no statement of the CLI crate writes into a type_mappings table')


def t2(ctx, rep, T):
    cands = [f for f in ctx.fns(file='rust_types.rs', name='try_from')]
    if len(cands) != 1:
        raise core.Incomplete('RustType::try_from not found')
    f = cands[0]
    site = {'file': f['file'], 'line': f['line']}
    ms = [m for m in f['matches'] if any(v.startswith('syn::Type::') or v.startswith('Type::') for a in m['arms'] for v in a['variants'])]
    if not ms:
        raise core.Incomplete('try_from: match over syn::Type not found')
    top = ms[0]
    arms = {re.sub(r'\(.*', '', v).split('::')[-1]: a for a in top['arms'] for v in a['variants'] if v != '_'}
    # recursion, read from the call facts: a recursive `try_from` call fed with the payload of that syntax variant
    fx = ctx.x(f)
    rec = [c for c in fx['calls'] if str(c.get('f', '')).replace(' ', '').split('::')[-1] == 'try_from']

    def fed_by(c, variant):
        return any(x.get('k') == 'payload' and str(x.get('variant', '')).split('(')[0].endswith(variant) for a2 in c.get('args', []) for x in vt.walk(a2))
    for name in ('Reference', 'Array', 'Slice'):
        a = arms.get(name)
        ok = a is not None and any(fed_by(c, f'Type::{name}') and 'elem' in vt.show(c['args'][0]) for c in rec)
        rep.check(ok, 'T2', f'try_from:{name}:recurses', 'recurses on the element type', f"RustType::try_from: the {name} arm does not parse its element type recursively", {'file': f['file'], 'line': a['line'] if a else f['line']})
    # tuples: unit accepted, others rejected; catch-all rejects
    wild = [a for a in top['arms'] if '_' in a['variants']]
    rep.check(bool(wild) and all('Err' in a['body'] for a in wild), 'T2', 'try_from:catch-all-rejects', 'unknown syntax is an error', 'RustType::try_from: the catch-all arm accepts unknown type syntax', site)
    # the path arm: id from the last segment, all type arguments collected
    pa = arms.get('Path')
    if pa is None:
        rep.fail('T2', 'try_from:Path', 'no arm for type paths', site)
        return
    body = pa['body']
    rep.check(re.search(r'segments\s*\.\s*(iter\s*\(\s*\)\s*\.\s*)?last\s*\(\s*\)', body) is not None, 'T2', 'try_from:last-segment', 'name taken from the last path segment', 'RustType::try_from no longer names the type by its last path segment (path qualification must be dropped)', {'file': f['file'], 'line': pa['line']})
    # every generic *type* argument is parsed, in order: the recursive call is fed with the GenericArgument::Type payload
    # of an element of the complete `args` list (no truncating adaptor on the source, no other condition on the path)
    TRUNCATING = ('take', 'skip', 'step_by', 'rev', 'nth', 'last', 'first', 'take_while', 'skip_while', 'next', 'find', 'filter', 'peekable')
    garg = [c for c in rec if fed_by(c, 'GenericArgument::Type')]
    params_ok = bool(garg)
    trunc = None
    for c in garg:
        for x in (y for a2 in c['args'] for y in vt.walk(a2)):
            if x.get('k') == 'elem':
                # adaptors applied to the argument list itself (between `.args` and the element)
                chain = []
                v2 = vt.unvar(x.get('of'))
                while isinstance(v2, dict) and v2.get('k') == 'call' and v2.get('recv') is not None:
                    chain.append(v2.get('f'))
                    v2 = vt.unvar(v2['recv'])
                is_args = isinstance(v2, dict) and ((v2.get('k') == 'field' and v2.get('name') == 'args') or (v2.get('k') == 'atom' and (v2.get('path') or [''])[-1] == 'args'))
                if is_args and any(t in chain for t in TRUNCATING):
                    trunc = [t for t in chain if t in TRUNCATING]
        extra = []
        for fr in c['guard']:
            if fr.get('k') == 'if':
                cv = vt.unvar(fr.get('c'))
                is_variant_test = isinstance(cv, dict) and cv.get('k') == 'iflet' and any(('GenericArgument' in v2 or 'PathArguments' in v2) for v2 in cv.get('variants', []))
                if not is_variant_test or fr.get('neg'):
                    extra.append(vt.show(fr.get('c'))[:60])
            if fr.get('k') == 'arm' and fr.get('guard'):
                extra.append('arm guard')
        if extra:
            params_ok = False
    rep.check(bool(params_ok) and not trunc, 'T2', 'try_from:all-type-arguments', 'every type argument parsed, in order', 'RustType::try_from does not collect every generic type argument in order', {'file': f['file'], 'line': pa['line']})
    # the name dispatch, asked per name of the inlined parser (vlib/typeparser.py): what does a path whose last segment is
    # called N become?  (one match arm per literal, constant tables, guard arms and early returns all answer alike)
    from .. import typeparser as tp
    site_p = {'file': f['file'], 'line': pa['line']}

    def ctor(v, name):
        """the value is `<..>::name(args)` possibly inside RustType::Special(..): its argument list, else None"""
        v = vt.unvar(v)
        while isinstance(v, dict) and v.get('k') == 'call' and v.get('recv') is not None and v.get('f') in ('clone', 'into') and not v.get('args'):
            v = vt.unvar(v['recv'])
        if isinstance(v, dict) and v.get('k') == 'call' and v.get('recv') is None and str(v.get('f', '')).replace(' ', '').split('::')[-1] == name:
            return v.get('args', [])
        return None

    def special_of(v):
        a = ctor(v, 'Special')
        return vt.unvar(a[0]) if a and len(a) == 1 else None

    def draws_argument(v):
        return any(x.get('k') == 'call' and x.get('f') == 'next' for x in vt.walk(v))

    def accepted(name):
        outs = tp.outcomes_for(ctx, name)
        return outs, [tp.ok_payload(o) if tp.ok_payload(o) is not None else o for o in outs if not tp.is_err(o)]

    for cont in ('Vec', 'Option', 'HashMap'):
        outs, oks = accepted(cont)
        args = [ctor(special_of(o), cont) if special_of(o) is not None else None for o in oks]
        ok = bool(oks) and all(a is not None and len(a) == (2 if cont == 'HashMap' else 1) and all(draws_argument(x) for x in a) for a in args)
        rep.check(ok, 'T2', f'try_from:{cont}', f'`{cont}` → SpecialRustType::{cont} of its type argument(s)', f"RustType::try_from maps the name `{cont}` to `{vt.show(oks[0])[:70] if oks else 'no accepted value'}` — expected RustType::Special(SpecialRustType::{cont}(..)) built from its type argument(s)", site_p)
        if cont == 'HashMap' and ok:
            def var_chain(x):
                # names of the locals the value is a (cloned / converted / `?`-unwrapped) copy of, outermost first
                names, d = [], 0
                while isinstance(x, dict) and d < 20:
                    d += 1
                    if x.get('k') == 'var':
                        if not str(x.get('name') or '').endswith('()'):      # `f()` names the result of an expanded call: each call is a draw of its own
                            names.append(x.get('name'))
                        x = x.get('v')
                    elif x.get('k') in ('try', 'ref', 'deref', 'paren'):
                        x = x.get('v')
                    elif x.get('k') == 'call' and x.get('recv') is not None and x.get('f') in ('into', 'clone', 'to_owned') and not x.get('args'):
                        x = x['recv']
                    else:
                        break
                return names
            # the same value twice: the local one argument starts from is on the other argument's chain (`value = key.clone()`);
            # a name shared deeper down (the binding inside a helper both draws go through) does not count
            def same_local(a0, a1):
                c0, c1 = var_chain(a0), var_chain(a1)
                return bool(c0 and c1 and (c0[0] in c1 or c1[0] in c0))
            same = [a for a in args if same_local(a[0], a[1])]
            rep.check(not same, 'T2', 'try_from:HashMap:key-then-value', 'two successive arguments', 'RustType::try_from: HashMap uses one type argument for both key and value; key and value are both needed, in order', site_p)
    wrapped, plain = [], []
    for n in sorted(SMART_POINTERS):
        outs, oks = accepted(n)
        if oks and all(special_of(o) is None and ctor(o, 'Simple') is None and not any(x.get('k') == 'struct' for x in vt.walk(o)) and draws_argument(o) for o in oks):
            plain.append(n)
        else:
            wrapped.append((n, vt.show(oks[0])[:80] if oks else 'no accepted value'))
    rep.check(not wrapped, 'T2', 'try_from:smart-pointers', f'transparent wrappers: {plain}', f"RustType::try_from does not treat {[n for n, _ in wrapped]} as transparent (serde serialises them as their inner type): `{wrapped[0][0] if wrapped else ''}<T>` becomes `{wrapped[0][1] if wrapped else ''}` instead of its first type argument", site_p)
    # primitives: the name selects the IR variant of the same name
    PRIMS = {'bool': 'Bool', 'char': 'Char', 'String': 'String', 'str': 'String', 'i8': 'I8', 'i16': 'I16', 'i32': 'I32', 'I54': 'I54', 'u8': 'U8', 'u16': 'U16', 'u32': 'U32', 'U53': 'U53', 'f32': 'F32', 'f64': 'F64'}
    wrong = []
    for n, want in PRIMS.items():
        outs, oks = accepted(n)
        got = set()
        for o in oks:
            sv = special_of(o)
            while isinstance(sv, dict) and sv.get('k') == 'call' and sv.get('recv') is not None and sv.get('f') in ('clone', 'into') and not sv.get('args'):
                sv = vt.unvar(sv['recv'])
            got.add(str(sv.get('text', '')).replace(' ', '').split('::')[-1] if isinstance(sv, dict) and sv.get('k') == 'path' else vt.show(o)[:40])
        if got != {want} or len(outs) != len(oks):
            wrong.append((n, want, sorted(got), len(outs) - len(oks)))
    rep.check(not wrong, 'T2', 'try_from:primitives', f'{len(PRIMS)} primitive names select the IR variant of the same name', f"RustType::try_from: the primitive `{wrong[0][0] if wrong else ''}` becomes {wrong[0][2] if wrong else ''}{' or an error' if wrong and wrong[0][3] else ''}, expected SpecialRustType::{wrong[0][1] if wrong else ''} (its width / JSON category decides the target type)" + (f' (+{len(wrong) - 1} more)' if len(wrong) > 1 else ''), site_p)
    # user types: an unknown name keeps its id and every parameter
    outs, oks = accepted('SomeUserType')
    structs = [x for o in oks for x in vt.walk(o) if x.get('k') == 'struct']
    simple = [x for x in structs if str(x.get('path', '')).replace(' ', '').endswith('Simple') and tp.name_key(x.get('fields', {}).get('id'))]
    generic = [x for x in structs if str(x.get('path', '')).replace(' ', '').endswith('Generic') and tp.name_key(x.get('fields', {}).get('id')) and any(y.get('k') == 'call' and str(y.get('f', '')).replace(' ', '').split('::')[-1] in ('try_from', 'type_arguments', 'collect') for y in vt.walk(x['fields'].get('parameters') or {}))]
    ok = bool(simple) and bool(generic) and len(oks) == len(outs)
    rep.check(ok, 'T2', 'try_from:user-types', 'unknown names keep id and all parameters', "RustType::try_from: user types no longer keep their name and all parameters (Simple{id} / Generic{id, parameters})" + (f": `{vt.show(oks[0])[:90]}`" if oks else ''), site_p)


def t3(ctx, rep, T):
    for qual, callee in (('SpecialRustType::contains_type', 'contains_type'), ('SpecialRustType::parameters', None)):
        f = ctx.fn(qual, file='rust_types.rs')
        coverage.check_recursion(rep, 'T3', ctx, f, 'SpecialRustType', [callee] if callee else [], qual, uses_ok=(callee is None))
    # the reference rewriter is a sibling traversal too (shared with C09 N3): a container it does not descend into keeps the
    # un-renamed spelling of the types inside it, so the translated type expression names a type that is not defined
    from . import c09
    sub = core.Report('C05', rep.tier)
    c09.n3(ctx, sub)
    for o in sub.obligations:
        if o['rule'] == 'N3' and 'check_type:' in o['key'] and 'id-rewritten' not in o['key']:
            rep.obligations.append(dict(o, rule='T3', key='T3:' + o['key'].split(':', 1)[1]))
    f = ctx.fn('RustType::contains_type', file='rust_types.rs')
    ms = coverage.find_matches(f, 'RustType') or [m for m in f['matches']]
    ga = None
    for m in f['matches']:
        for a in m['arms']:
            if any(v.endswith('::Generic') for v in a['variants']):
                ga = a
    ok = ga is not None and re.search(r'parameters\s*\.\s*iter\s*\(\s*\)\s*\.\s*any\s*\(\s*\|\s*(\w+)\s*\|\s*\1\s*\.\s*contains_type\s*\(', ga['body']) is not None
    rep.check(ok, 'T3', 'RustType::contains_type:Generic', 'recurses into every generic argument', "RustType::contains_type inspects generic arguments one level deep only (compares their ids) instead of recursing: a generic parameter nested inside `Page<Vec<T>>` is not found, so the helper struct of a struct variant loses `<T>` and prefixed backends treat T as a user type", {'file': f['file'], 'line': ga['line'] if ga else f['line']})


def t45(ctx, rep, T):
    # T4 mapping first, T5 prefix discipline — tabulated over (mapped, generic)
    fns = ctx.astq['functions']
    for f in fns:
        if f['name'] not in ('format_simple_type', 'format_generic_type') or '/language/' not in f['file']:
            continue
        be = f['file'].split('/')[-1].replace('.rs', '')
        struct = f.get('self_ty') or 'Language'
        site = {'file': f['file'], 'line': f['line']}
        base = f['params'][1]['name']
        # what the function yields when the base name is / is not a key of the type map (vlib/special.py, OptSpec): asked of the
        # inlined view, so `if let` / `match` / `let-else` / early `return` spell the same function
        G = ctx.x(f)

        def is_lookup(v, base=base):
            return v.get('k') == 'call' and v.get('f') == 'get' and v.get('recv') is not None and len(v.get('args', [])) == 1 and \
                re.fullmatch(rf'&?\(?&?self\.(type_map\(\)|type_mappings)\)?\.get\(&?{re.escape(base)}\)', vt.show(v).replace(' ', '')) is not None

        def plain(v):
            v = vt.unvar(v)
            if isinstance(v, dict) and v.get('k') == 'call' and v.get('recv') is None and str(v.get('f')) == 'Ok' and v.get('args'):
                v = vt.unvar(v['args'][0])
            while isinstance(v, dict) and ((v.get('k') == 'call' and v.get('recv') is not None and v.get('f') in ('into', 'clone', 'to_string', 'to_owned', 'as_str', 'cloned') and not v.get('args')) or v.get('k') in ('ref', 'deref', 'paren')):
                v = vt.unvar(v['recv'] if v.get('k') == 'call' else v.get('v'))
            return v
        looked_up = any(is_lookup(x) for L in ('calls', 'lets', 'returns') for it in G.get(L, []) for x in vt.walk(it if L != 'calls' else dict(it, k='call'))) or any(is_lookup(x) for x in vt.walk(G.get('tail') or {}))
        hit = special.outcomes(G, [special.OptSpec(is_lookup, True)]) if looked_up else []
        miss = special.outcomes(G, [special.OptSpec(is_lookup, False)]) if looked_up else []
        hit_vals = [plain(o) for o in hit]
        mapped_ok = [isinstance(h, dict) and h.get('k') == 'payload' and str(h.get('variant', '')).split('::')[-1] == 'Some' and is_lookup(vt.unvar(h.get('of'))) for h in hit_vals]
        first_is_map = looked_up and bool(hit) and bool(miss) and all(mapped_ok)
        rep.check(looked_up and bool(hit) and bool(miss), 'T4', f'{be}:{f["name"]}:map-first', 'type map consulted before anything else', f"{be}: {f['qual']} does not start by looking `{base}` up in the type map — a configured mapping can be bypassed", site)
        if looked_up and hit and miss:
            bad_h = [vt.show(h)[:60] for h, ok_ in zip(hit_vals, mapped_ok) if not ok_]
            rep.check(not bad_h, 'T4', f'{be}:{f["name"]}:mapped-returned', 'mapped name returned', f"{be}: {f['qual']} finds a mapping but returns `{bad_h[0] if bad_h else ''}`", site)
        t = None
        if miss:
            unwrapped = [vt.unvar(o) for o in miss]
            unwrapped = [(vt.unvar(o['args'][0]) if isinstance(o, dict) and o.get('k') == 'call' and o.get('recv') is None and str(o.get('f')) == 'Ok' and o.get('args') else o) for o in unwrapped]
            t = {'k': 'cond', 'c': {'k': 'unknown'}, 't': {'k': 'unknown'}, 'e': unwrapped[0] if len(unwrapped) == 1 else {'k': 'alt', 'alts': unwrapped}}
        if f['name'] == 'format_generic_type':
            ok = any(c.get('f') == 'format_simple_type' and vt.show(vt.strip(c['args'][0])) == base for c in f['calls'])
            rep.check(ok, 'T5', f'{be}:format_generic_type:base-through-simple', 'base name formatted by format_simple_type', f"{be}: format_generic_type does not route the base name through format_simple_type (prefix / mapping discipline skipped for generic types)", site)
            ok = any(c.get('f') == 'format_type' for c in f['calls'])
            rep.check(ok, 'T5', f'{be}:format_generic_type:parameters', 'parameters formatted recursively', f"{be}: format_generic_type does not format its parameters with format_type", site)
        if f['name'] == 'format_simple_type' and f.get('self_ty') in ('Kotlin', 'Swift'):
            else_v = t['e'] if t is not None else f['tail']
            gkey = None
            vocab = sorted(guards.vocabulary(T, [x['c'] for x in vt.walk(else_v) if x.get('k') == 'cond']))
            outs = {}
            for bits in itertools.product([False, True], repeat=len(vocab)):
                asg = dict(zip(vocab, bits))
                R = guards.Renderer(T, asg)
                outs[bits] = sorted(set(R.render(else_v)))
            gk = [i for i, k in enumerate(vocab) if 'contains' in k or 'generic' in k]
            prefix_tok = f'⟨{f["self_ty"]}.prefix⟩'
            problems = []
            # need: exactly one test, the generic-parameter test
            conds = [x for x in vt.walk(else_v) if x.get('k') == 'cond']
            gname = f['params'][2]['name']

            def is_generic_test(cv):
                while isinstance(cv, dict) and cv.get('k') == 'var':
                    cv = cv['v']
                if not (isinstance(cv, dict) and cv.get('k') == 'call' and cv.get('f') == 'contains' and cv.get('recv') is not None and len(cv.get('args', [])) == 1):
                    return False
                r, a = vt.strip(cv['recv']), vt.strip(cv['args'][0])
                return isinstance(r, dict) and r.get('k') == 'atom' and r.get('root') == gname and not r.get('path') and isinstance(a, dict) and a.get('k') == 'atom' and a.get('root') == base and not a.get('path')
            gen_tests = [vt.show(c['c']) for c in conds if is_generic_test(c['c'])]
            other_tests = [vt.show(c['c']) for c in conds if not is_generic_test(c['c'])]
            if not gen_tests:
                problems.append('no `generic_types.contains(base)` test guards the prefix: generic parameters would be prefixed')
            if other_tests:
                problems.append(f"the prefix also depends on `{other_tests[0][:60]}`: some user types are referenced without the prefix their definition carries")
            R = guards.Renderer(T, {})
            all_out = set(R.render(else_v))
            if not any(prefix_tok in o for o in all_out):
                problems.append('no path applies the prefix')
            rep.check(not problems, 'T5', f'{be}:format_simple_type:prefix', f'prefix ⇔ ¬mapped ∧ ¬generic parameter ({sorted(all_out)})', f"{be}: " + '; '.join(problems), site)
    # format_special_type mapping-first in the backends that support container mappings
    for be in ('typescript', 'go', 'python'):
        struct, file = emit.BACKENDS[be]
        f = ctx.fn(f'{struct}::format_special_type', file=file)
        sp = f['params'][1]['name']
        G = ctx.x(f)

        def is_lookup(v, sp=sp):
            return v.get('k') == 'call' and v.get('f') == 'get' and v.get('recv') is not None and len(v.get('args', [])) == 1 and \
                re.fullmatch(r'&?\(?&?self\.(type_map\(\)|type_mappings)\)?', vt.show(v['recv']).replace(' ', '')) is not None and \
                re.fullmatch(rf'&?\(?&?{re.escape(sp)}\)?\.to_string\(\)(\.as_str\(\))?', vt.show(v['args'][0]).replace(' ', '')) is not None
        hit = special.outcomes(G, [special.OptSpec(is_lookup, True)])

        def plain(v):
            v = vt.unvar(v)
            if isinstance(v, dict) and v.get('k') == 'call' and v.get('recv') is None and str(v.get('f')) == 'Ok' and v.get('args'):
                v = vt.unvar(v['args'][0])
            while isinstance(v, dict) and ((v.get('k') == 'call' and v.get('recv') is not None and v.get('f') in ('into', 'clone', 'to_string', 'to_owned', 'as_str', 'cloned') and not v.get('args')) or v.get('k') in ('ref', 'deref', 'paren')):
                v = vt.unvar(v['recv'] if v.get('k') == 'call' else v.get('v'))
            return v
        hv = [plain(o) for o in hit]
        # under "the printed form is a key of the map" the function yields the mapped name and nothing else
        ok = bool(hit) and all(isinstance(h, dict) and h.get('k') == 'payload' and str(h.get('variant', '')).split('::')[-1] == 'Some' and is_lookup(vt.unvar(h.get('of'))) for h in hv)
        rep.check(ok, 'T4', f'{be}:format_special_type:map-first', 'container/primitive mapping consulted first', f"{be}: format_special_type does not look the printed Rust form of the type up in the type map before translating it — mappings such as \"Vec<u8>\" are not honoured at every position", {'file': f['file'], 'line': f['line']})


def t6(ctx, rep, T):
    oracle = json.load(open(os.path.join(core.VERIF, 'rules', 'c05_primitives.json')))
    rust = oracle['rust']
    for be, (struct, file) in emit.BACKENDS.items():
        f = ctx.fn(f'{struct}::format_special_type', file=file)
        targets = dict(oracle['targets'][be])
        # aliases typeshare itself emits (Scala)
        aliases = {}
        if be == 'scala':
            for s in ctx.fnx('Scala::write_unsigned_aliases', file='scala.rs')['sites']:
                m = re.match(r'type (\w+) = (\w+)', vt.fmt_text(s['fmt']))
                if m:
                    aliases[m.group(1)] = m.group(2)
        table = {}
        for m in f['matches']:
            for a in m['arms']:
                prim = [v.split('::')[1] for v in a['variants'] if v.startswith('SpecialRustType::') and v.split('::')[1] in rust]
                if not prim:
                    continue
                lits = re.findall(r'"([^"]+)"\s*\.\s*into\s*\(\s*\)|Ok\s*\(\s*"([^"]+)"\s*\.\s*into', a['body'])
                lit = next((x[0] or x[1] for x in lits), None)
                if lit is None and re.search(r'Err\s*\(|panic\s*!', a['body']):
                    lit = '<rejected>'
                for p in prim:
                    table[p] = (lit, a['line'])
        shapes = variant_shapes(ctx, T, f, struct, type_hook=lambda c_: ['T'])
        for p in rust:
            if p not in table or table[p][0] is None:
                outs = shapes.get(p)
                if outs and len(outs) == 1 and '⟨' not in outs[0]:
                    table[p] = (outs[0], f['line'])
                elif p not in table and not outs:
                    table[p] = ('<rejected>', f['line'])
        rep.floor('T6', f'{be}: primitive arms', len(table), 15)
        for p, (lit, line) in sorted(table.items()):
            key = f'{be}:{p}'
            site = {'file': f['file'], 'line': line}
            if lit == '<rejected>':
                rep.ok('T6', key, 'rejected with an error', site)
                continue
            if lit is None:
                rep.fail('T6', key, f"{be}: the arm for {p} does not yield a literal target type", site)
                continue
            resolved = aliases.get(lit, lit)
            if resolved not in targets:
                rep.fail('T6', key, f"{be}: {p} → `{lit}`" + (f" (= {resolved})" if resolved != lit else '') + ' is not a classified target type (add it to the oracle after review)', site)
                continue
            tcat, tsigned, tbits = targets[resolved]
            rcat, rsigned, rbits = rust[p]
            if p in ('I64', 'U64', 'ISize', 'USize'):
                rep.ok('T6', key, f'{lit} (dead: the type parser rejects this Rust type)', site)
                continue
            cat_ok = (tcat == rcat) or (tcat == 'number' and rcat in ('int', 'float'))
            cap_ok = True
            why = ''
            if rcat == 'int' and cat_ok:
                if tbits is not None:
                    if rsigned and not tsigned:
                        cap_ok, why = False, 'unsigned target for a signed Rust type'
                    elif not rsigned and tsigned:
                        cap_ok = tbits > rbits
                        why = f'{resolved} is a signed {tbits}-bit type: it cannot hold every value of the unsigned {rbits}-bit Rust type' if not cap_ok else ''
                    else:
                        cap_ok = tbits >= rbits
                        why = f'{resolved} has {tbits} bits, the Rust type needs {rbits}' if not cap_ok else ''
            if rcat == 'float' and cat_ok and tbits is not None and tcat != 'number':
                cap_ok = tbits >= rbits
                why = f'{resolved} is a {tbits}-bit float, the Rust type has {rbits}'
            if not cat_ok:
                rep.fail('T6', key, f"{be}: {p} (JSON {rcat}) → `{lit}`" + (f' = {resolved}' if resolved != lit else '') + f" which is of category {tcat}: the value serde writes does not decode into it", site)
            elif not cap_ok:
                rep.fail('T6', key, f"{be}: {p} → `{lit}`" + (f' (emitted alias for {resolved})' if resolved != lit else '') + f": {why}", site)
            else:
                rep.ok('T6', key, f'{lit}' + (f' = {resolved}' if resolved != lit else ''), site)
