"""C01 — field wire names equal serde's JSON keys.

Decided: provenance of the key end to end.  (K1) both RustField construction sites name the field with
get_ident(field.ident, field.attrs, rename_all of the *immediately enclosing* container); (K2) get_ident stores
serde(rename) over the case-converted identifier, raw prefix removed; (KA) every attribute look-up scans all
attributes; (K3) in each backend every field printer binds id.renamed through key-preserving transforms only, and
every lossy identifier transform / id.original identifier is accompanied by an explicit binding whose guard is no
stronger than the transform's trigger (and accumulated across fields monotonically)."""
import json
import re

from .. import core, emit, guards, parser_rules as pr, transforms, vt, inline

KEY_PRESERVING = {'identity', 'quote-select'}


def classify(ctx, comp, seq, ix, cache):
    """BIND / IDENT-R(lossy set) / IDENT-O / UNCLASSIFIED for one RustField.id occurrence."""
    part = comp[1].split('.')[-1]
    via = [v for v in comp[2]]
    lossy = set()
    wraps = []
    unknown = []
    for v in via:
        if v == 'index':
            # quote-strip idiom: Debug-quoted then sliced 1..len-1
            left = seq[ix - 1] if ix > 0 else None
            right = seq[ix + 1] if ix + 1 < len(seq) else None
            if left and right and left[0] == 'lit' and left[1].endswith('"') and right[0] == 'lit' and right[1].startswith('"'):
                continue
            unknown.append('index')
            continue
        if v not in cache:
            cache[v] = transforms.summarize(ctx, v)
        s = cache[v]
        if s['kind'] in KEY_PRESERVING:
            continue
        if s['kind'] == 'debug-unquote':
            # the quote-strip idiom in a helper: adequate exactly where the inline form is — between double quotes
            left = seq[ix - 1] if ix > 0 else None
            if left and left[0] in ('lit', 'lit*') and left[1].endswith('"'):
                continue        # the quote opens right before the key; the escaped text cannot close it
            unknown.append(f'{v}[debug-unquote outside quotes]')
            continue
        if s['kind'] == 'ident-wrap':
            wraps.append(v)
            continue
        if s['kind'] == 'replace':
            lossy |= set(s['lossy'])
            continue
        if s['kind'] in ('case',):
            lossy.add('*case*')
            continue
        if v.startswith('replace'):
            lossy.add('*replace*')
            continue
        unknown.append(f"{v}[{s['kind']}]")
    if part == 'original':
        return 'IDENT-O', lossy, unknown
    if unknown and part == 'renamed':
        return 'IDENT-?', lossy, unknown
    if lossy or wraps:
        return 'IDENT-R', lossy, unknown
    return 'BIND', lossy, unknown


def run(ctx, rep):
    rep.explanation = ('Wire-key provenance decided structurally: the parser\'s two RustField construction sites, the renaming routine\'s reaching definitions, '
                       'and — per backend — the classification of every output-template hole fed by a field Id (binding / lossy identifier / original '
                       'identifier) with the guards of the explicit key bindings compared against the triggers of the lossy transforms, whose summaries '
                       '(identity, quote, back-tick wrap, replace(-→_), case conversion) are re-derived from the helper bodies on every run.')
    rep.not_decided = "that the case conversion computes serde's string (C16); attribute spellings serde accepts but typeshare's meta parser does not."
    rep.trusted = ['syn', 'astq evaluator', 'binding-syntax table (quoted property, @SerialName, CodingKeys raw value, json tag, Field(alias=))']
    T = emit.Types(ctx.astq)
    rep.section(pr.all_attrs_rule, ctx, rep, 'KA', ('get_ident', 'serde_rename_all'), 4, keys=('rename', 'rename_all'))
    rep.section(k1, ctx, rep, T)
    rep.section(k2, ctx, rep, T)
    rep.section(k3, ctx, rep, T)


def k1(ctx, rep, T):
    sites = pr.field_sites(ctx)
    for f, st in sites:
        site = {'file': f['file'], 'line': st['line']}
        key = f"{f['name']}:RustField.id"
        idv = vt.strip(st['v']['fields'].get('id'))
        if not (isinstance(idv, dict) and idv.get('k') == 'call' and idv.get('f') == 'get_ident' and len(idv.get('args', [])) == 3):
            rep.fail('K1', key, f"field id is not produced by get_ident(ident, attrs, rule): {vt.show(idv)[:120]}", site)
            continue
        a_ident, a_attrs, a_rule = idv['args']
        def base_of(v):
            v = vt.strip(v)
            if isinstance(v, dict) and v.get('k') == 'field':
                return json.dumps(v['base'], sort_keys=True), v['name']
            if isinstance(v, dict) and v.get('k') == 'atom' and v.get('path'):
                b = dict(v)
                b['path'] = v['path'][:-1]
                b.pop('ty', None)
                return json.dumps({'root': b.get('root'), 'path': b['path']}, sort_keys=True), v['path'][-1]
            return None, None
        bi, ni = base_of(a_ident)
        ba, na = base_of(a_attrs)
        fld_i, fld_a = vt.show(vt.strip(a_ident))[-40:], vt.show(vt.strip(a_attrs))[-40:]
        ok_own = bi is not None and bi == ba and ni == 'ident' and na == 'attrs'
        # the same element provides the type
        ty_bases = [base_of(x) for x in vt.walk(st['v']['fields'].get('ty')) if x.get('k') in ('field', 'atom')]
        ok_own = ok_own and any(b == bi and n == 'ty' for b, n in ty_bases)
        rep.check(ok_own, 'K1', key + ':own-ident-and-attrs', f'get_ident(…{fld_i}, …{fld_a}, ..)', f"{f['name']}: field id built from …{fld_i} / …{fld_a} — not the identifier and attributes of the field whose type is parsed", site)
        # rule = serde_rename_all(&X.attrs) with X the immediate container of the field list
        r = a_rule
        while isinstance(r, dict) and r.get('k') == 'var':
            r = r['v']
        container = pr.elem_root(a_attrs)
        if isinstance(r, dict) and r.get('k') == 'call' and r.get('f') == 'serde_rename_all' and r.get('args'):
            src = vt.strip(r['args'][0])
            src_root = src.get('root') if isinstance(src, dict) and src.get('k') == 'atom' else None
            src_path = src.get('path') if isinstance(src, dict) else None
            ok = src_root is not None and src_root == container and src_path == ['attrs']
            rep.check(ok, 'K1', key + ':container-rule', f'rename_all taken from {src_root}.attrs, fields taken from {container}', f"{f['name']}: fields are taken from `{container}` but the rename_all rule is read from `{vt.show(src)}` — serde applies the rule of the immediately enclosing container (struct, or the variant itself for struct variants)", site)
        else:
            rep.fail('K1', key + ':container-rule', f"{f['name']}: rename rule passed to get_ident is `{vt.show(a_rule)[:80]}`, not serde_rename_all(&<container of these fields>.attrs) — serde does not inherit the enum's rule into variant fields and never drops the container's rule", site)


def k2(ctx, rep, T):
    f = ctx.fn('get_ident', file='parser.rs')
    site = {'file': f['file'], 'line': f['line']}
    ids = [s for s in f['structs'] if s['path'].split('::')[-1] == 'Id']
    if len(ids) != 1:
        raise core.Incomplete('get_ident: Id construction not found')
    flds = ids[0]['v']['fields']
    params = [p['name'] for p in f['params']]
    orig = flds.get('original')
    ren = flds.get('renamed')
    otxt = json.dumps(orig)
    ok_o = pr.raw_prefix_removed(orig, params[0], ctx)
    rep.check(ok_o, 'K2', 'original:raw-prefix-removed', 'original = ident.to_string() with r# removed', f'get_ident: Id.original is not the identifier with the raw prefix removed: {vt.show(orig)[:120]}', site)
    # renamed: serde(rename) if present else rename_all_to_case(original, rule) — decided by partial evaluation of the
    # value of Id.renamed under the two outcomes of serde_rename(<attrs parameter>), whatever the control-flow idiom
    def is_sr(x):
        x = vt.unvar(x)
        return isinstance(x, dict) and x.get('k') == 'call' and x.get('f') == 'serde_rename' and x.get('args') and vt.show(vt.strip(x['args'][0])) == params[1]
    got_some = vt.strip(vt.peval(ren, lambda sc: 'Some' if is_sr(sc) else None))
    got_none = vt.strip(vt.peval(ren, lambda sc: 'None' if is_sr(sc) else None))
    seen_sr = any(is_sr(x) for x in vt.walk(ren))
    then_ok = isinstance(got_some, dict) and got_some.get('k') == 'payload' and got_some.get('variant') == 'Some' and is_sr(got_some.get('of'))
    else_ok = isinstance(got_none, dict) and got_none.get('k') == 'call' and got_none.get('f') == 'rename_all_to_case' and len(got_none.get('args', [])) == 2
    if else_ok:
        else_ok = vt.show(vt.strip(got_none['args'][0])) == vt.show(vt.strip(orig)) and vt.show(vt.strip(got_none['args'][1])) == params[2]
    rep.check(seen_sr and then_ok and else_ok, 'K2', 'renamed:precedence', 'renamed = serde_rename(attrs) ?? rename_all_to_case(original, rule)',
              f"get_ident: Id.renamed = `{vt.show(ren)[:200]}` — expected the serde(rename) value of these attrs when present (got `{vt.show(got_some)[:60]}`), otherwise the container rule applied to the prefix-stripped identifier (got `{vt.show(got_none)[:80]}`)", site)
    sr = flds.get('serde_rename')
    # serde_rename looks for `rename` under serde
    for helper, want in (('serde_rename', 'rename'), ('serde_rename_all', 'rename_all')):
        closed, open_ = pr.lookup_closed(ctx, helper)
        rep.check(closed == {('SERDE', want, 'NameValue')} and not open_, 'K2', f'{helper}:name', f'{want} = ".." under serde', f'{helper} looks for {sorted(closed)} {sorted(map(str, open_))} — expected the name-value argument `{want}` of #[serde(..)] only', site)


def callers_envs(fns, g):
    params = [p['name'] for p in g['params'] if p['name'] != 'self']
    envs = []
    for f in fns:
        for c in f['calls']:
            if c.get('f') == g['name'] and c.get('recv') is not None and len(c.get('args', [])) == len(params):
                envs.append((f, c, dict(zip(params, c['args']))))
    return envs


def exists_char_test(v, chars):
    """Is v `coll.iter().any(|f| <char test on f.id.renamed for a char in chars>)` ?  returns collection show() or None"""
    while isinstance(v, dict) and v.get('k') == 'var':
        v = v['v']
    if isinstance(v, dict) and v.get('k') == 'call' and v.get('f') == 'any' and v.get('args'):
        clo = vt.strip(v['args'][0])
        if isinstance(clo, dict) and clo.get('k') == 'closure':
            ct = transforms.char_test(clo.get('body'))
            if ct and ct[1] in chars and vt.show(ct[0]).endswith('id.renamed'):
                return vt.show(v['recv'])
    return None


def k3(ctx, rep, T):
    cache = {}
    total = 0
    for be, (struct, file) in emit.BACKENDS.items():
        fns = inline.file_views(ctx, file)
        occ = []  # (fn, site, conds, seq, ix, cls, lossy, unknown, frames)
        for g in fns:
            for s in g['sites']:
                if not any(c.startswith('RustField') for c in emit.canons_in(T, s['fmt'])):
                    continue
                for conds, seq in emit.site_alternatives_c(T, s):
                    for ix, comp in enumerate(seq):
                        if comp[0] == 'atom' and comp[1].startswith('RustField.id.'):
                            cls, lossy, unk = classify(ctx, comp, seq, ix, cache)
                            occ.append((g, s, conds, seq, ix, cls, lossy, unk))
        rep.floor('K3', f'{be}: field-id occurrences in templates', len(occ), 1)
        total += len(occ)
        by_cls = {}
        for o in occ:
            by_cls.setdefault(o[5], []).append(o)
        for o in by_cls.get('IDENT-?', []):
            g, s = o[0], o[1]
            rep.fail('K3', f"{be}:{g['name']}:unclassified-transform:{','.join(o[7])}", f"{be}: field key passes through unclassified transform(s) {o[7]} in {g['qual']}: {emit.seq_str(o[3])[:140]}", {'file': g['file'], 'line': s['line']})
        binds = by_cls.get('BIND', [])
        # (a) some site carries the key
        rep.check(bool(binds or by_cls.get('IDENT-R')), 'K3', f'{be}:a:key-carried', f"{len(binds)} binding occurrence(s)", f'{be}: no template carries the field\'s wire key (id.renamed)', {'file': file, 'line': 0})
        # (b) original identifiers need a binding
        for o in by_cls.get('IDENT-O', []):
            g, s = o[0], o[1]
            site = {'file': g['file'], 'line': s['line']}
            key = f"{be}:{g['name']}:b:original-identifier"
            same_fn = [b for b in binds if b[0] is g]
            if not same_fn:
                rep.fail('K3', key, f"{be}: {g['qual']} prints the field under a name derived from id.original ({emit.seq_str([o[3][o[4]]])}) but no template of this printer binds the wire key id.renamed — serde(rename)/rename_all is silently lost", site)
                continue
            # unconditional in the same template, or guarded by `emitted != renamed`
            ok = False
            why = ''
            for b in same_fn:
                if b[1] is s and not any(c[0] in ('c', 'g') and mentions_field_id(T, c) for c in b[2]):
                    ok = True
                    why = 'binding in the same template, unconditional'
                    break
                gtests = [c for c in b[2] if c[0] == 'g' and c[1].get('k') == 'if'] + [c for c in b[2] if c[0] == 'c']
                for c in gtests:
                    cv = c[1]['c'] if c[0] == 'g' else c[1]
                    if neq_emitted(T, cv, o):
                        ok = True
                        why = 'binding guarded by `emitted identifier != id.renamed`'
            rep.check(ok, 'K3', key, why, f"{be}: {g['qual']} emits an id.original-derived identifier; its key binding is conditional on something other than `identifier != id.renamed`", site)
        # (c) lossy identifiers
        lossy_occ = [o for o in by_cls.get('IDENT-R', []) if o[6]]
        if lossy_occ:
            chars = set()
            for o in lossy_occ:
                chars |= {c for c in o[6] if not c.startswith('*')}
            key = f"{be}:c:lossy-identifier"
            if be == 'scala':
                rep.ok('K3', key, f"Scala carries no key binding; identifiers are lossy on {sorted(chars)} — outside the property's scope for Scala (stated in the property)")
            elif not binds:
                o = lossy_occ[0]
                rep.fail('K3', key, f"{be}: identifiers are passed through a transform lossy on {sorted(chars)} but no binding of id.renamed exists", {'file': o[0]['file'], 'line': o[1]['line']})
            else:
                check_lossy_binding(ctx, rep, T, be, fns, binds, lossy_occ, chars)
    rep.extra['evaluations'] = total
    # struct-variant helper structs carry the variant's fields unchanged
    # (inlined view: the RustStruct literal may sit in a helper that is handed the variant's fields)
    d = ctx.fnx('Language::write_types_for_anonymous_structs', file='language/mod.rs')
    st = [s for s in d['structs'] if s['path'].split('::')[-1] == 'RustStruct']
    fv = st[0]['v']['fields'].get('fields') if st else None
    core_v = vt.unvar(fv)
    while isinstance(core_v, dict) and ((core_v.get('k') == 'call' and core_v.get('recv') is not None and core_v.get('f') in ('clone', 'to_vec', 'to_owned', 'cloned', 'iter', 'collect', 'into_iter') and not core_v.get('args')) or core_v.get('k') in ('ref', 'deref', 'paren')):
        core_v = vt.unvar(core_v['recv'] if core_v.get('k') == 'call' else core_v.get('v'))
    from .. import coverage
    ok = bool(st) and (coverage.is_payload_of(core_v, 'RustEnumVariant', 'AnonymousStruct', 'fields') or vt.show(vt.strip(fv)).endswith('.fields') or 'AnonymousStruct' in vt.show(fv))
    rep.check(ok, 'K3', 'default:helper-struct-fields-unchanged', 'helper struct gets fields.clone()', 'write_types_for_anonymous_structs does not pass the variant fields unchanged to write_struct', {'file': d['file'], 'line': d['line']})


def mentions_field_id(T, c):
    v = c[1]['c'] if c[0] == 'g' and c[1].get('k') == 'if' else (c[1] if c[0] == 'c' else None)
    if v is None:
        return False
    return any(x.startswith('RustField.id') for x in emit.canons_in(T, v))


def neq_emitted(T, cv, o):
    while isinstance(cv, dict) and cv.get('k') == 'var':
        cv = cv['v']
    if not (isinstance(cv, dict) and cv.get('k') == 'op' and cv.get('op') == '!='):
        return False
    a, b = cv['args']
    sides = [emit.flatten(T, a), emit.flatten(T, b)]
    emitted = o[3][o[4]]
    ren = [('atom', 'RustField.id.renamed', ())]
    em = [emitted]
    return (sides[0] == [em] and sides[1] == [ren]) or (sides[1] == [em] and sides[0] == [ren])


def check_lossy_binding(ctx, rep, T, be, fns, binds, lossy_occ, chars):
    """The binding must be emitted whenever some field's key contains a lossy character."""
    for b in binds:
        g, s, conds = b[0], b[1], b[2]
        site = {'file': g['file'], 'line': s['line']}
        tests = [c[1]['c'] if c[0] == 'g' else c[1] for c in conds if (c[0] == 'g' and c[1].get('k') == 'if') or c[0] == 'c']
        frames = [fr['c'] for fr in s['guard'] if fr.get('k') == 'if']
        all_tests = tests + frames
        key = f"{be}:{g['name']}:c:binding-guard"
        if not all_tests:
            rep.ok('K3', key, 'binding unconditional', site)
            continue
        for tv in all_tests:
            tv0 = tv
            while isinstance(tv, dict) and tv.get('k') == 'var':
                tv = tv['v']
            # a parameter: look at what callers pass
            if isinstance(tv, dict) and tv.get('k') == 'atom' and tv.get('param') and not tv.get('path'):
                pname = tv['root']
                envs = callers_envs(fns, g)
                if not envs:
                    rep.fail('K3', key, f'{be}: binding guarded by parameter `{pname}` with no visible caller', site)
                    continue
                for cf, cc, env in envs:
                    arg = env.get(pname)
                    ck = f"{be}:{cf['name']}->{g['name']}:c:{pname}"
                    csite = {'file': cf['file'], 'line': cc.get('line')}
                    coll = exists_char_test(arg, chars)
                    a = vt.strip(arg)
                    if coll:
                        rep.ok('K3', ck, f'`{pname}` = ∃ field of {coll} whose key contains {sorted(chars)}', csite)
                    elif isinstance(a, dict) and a.get('k') == 'lit' and a.get('v') is False:
                        # only sound when the field passed is a literal name without lossy characters
                        fld = next((vt.strip(x) for x in cc.get('args', []) if isinstance(vt.strip(x), dict) and vt.strip(x).get('k') == 'struct' and vt.strip(x).get('path', '').endswith('RustField')), None)
                        ok = False
                        if fld is not None:
                            idv = vt.strip(fld['fields'].get('id'))
                            names = [l.get('v') for l in vt.lits(idv)] if isinstance(idv, dict) else []
                            names = [n for n in names if isinstance(n, str)]
                            ok = bool(names) and all(not (set(n) & chars) for n in names)
                        rep.check(ok, 'K3', ck, f'`{pname}` = false for a literal field name without {sorted(chars)}', f"{be}: {cf['qual']} calls {g['name']} with `{pname}` = false for a field whose key is not a literal free of {sorted(chars)}", csite)
                    else:
                        rep.fail('K3', ck, f"{be}: {cf['qual']} passes `{vt.show(arg)[:90]}` as `{pname}` — the key binding must be emitted whenever some field's key contains {sorted(chars)} (the identifier transform is lossy exactly on these)", csite)
                continue
            ct = transforms.char_test(tv)
            if ct and ct[1] in chars and vt.show(ct[0]).endswith('id.renamed'):
                rep.ok('K3', key + ':per-field', f'binding item built under the dash test on this field ({vt.show(ct[0])})', site)
                continue
            coll = exists_char_test(tv, chars)
            if coll:
                rep.ok('K3', key + ':exists', f'binding emitted iff ∃ field of {coll} whose key contains {sorted(chars)}', site)
                continue
            # accumulated flag: must be monotone (only ever set to true under the trigger) and start false
            flag = tv0.get('name') if isinstance(tv0, dict) and tv0.get('k') == 'var' else None
            if flag is None and isinstance(tv, dict) and tv.get('k') == 'cond' and tv.get('merge'):
                flag = 'flag'
            assigns = [a for a in g['assigns'] if isinstance(a.get('target'), dict) and a['target'].get('k') == 'local']
            flags = {a['target']['name'] for a in assigns}
            cand = [a for a in assigns if flag in (None, 'flag', a['target']['name'])]
            named = [a for a in assigns if isinstance(tv0, dict) and tv0.get('name') == a['target']['name']]
            use = named or cand
            if use:
                bad = []
                for a in use:
                    val = vt.strip(a['value'])
                    in_loop = any(fr.get('k') in ('for', 'while', 'loop', 'closure') for fr in a['guard'])
                    trig = [fr for fr in a['guard'] if fr.get('k') == 'if' and not fr.get('neg')]
                    trig_ok = any((transforms.char_test(fr['c']) or (None, None))[1] in chars for fr in trig)
                    if not (isinstance(val, dict) and val.get('k') == 'lit' and val.get('v') is True):
                        bad.append(f"`{a['text']} = {vt.show(a['value'])[:50]}` is not a constant `true` (a per-field value overwrites earlier fields: the flag reflects only the last field)")
                    elif not trig_ok:
                        bad.append(f"`{a['text']} = true` is not set under the test for {sorted(chars)}")
                rep.check(not bad, 'K3', key + ':accumulated-flag', f'flag set to true under the trigger, never reset ({len(use)} assignment(s))', f"{be}: {g['qual']}: " + '; '.join(bad), site)
                continue
            rep.fail('K3', key, f"{be}: binding in {g['qual']} is guarded by `{vt.show(tv)[:100]}` which is not recognised as implied by 'some field key contains {sorted(chars)}'", site)
