"""Config -> backend wiring in cli::language() (shared by C05 and C20)."""
from . import core, vt

SECTION = {'Swift': 'swift', 'Kotlin': 'kotlin', 'Scala': 'scala', 'TypeScript': 'typescript', 'Go': 'go', 'Python': 'python'}
PARAMS = {'swift': 'SwiftParams', 'kotlin': 'KotlinParams', 'scala': 'ScalaParams', 'typescript': 'TypeScriptParams', 'go': 'GoParams', 'python': 'PythonParams'}
ADAPTERS = {'GenericConstraints::from_config'}


def backend_wiring(ctx, rep, rule, only_fields=None):
    """Each backend struct field is initialised from config.<own language>.<same name>; every params field is consumed."""
    f = ctx.fnx('language', file='cli/src/main.rs')
    lits = [s for s in f['structs'] if s['path'].split('::')[-1] in SECTION]
    rep.floor(rule, 'backend constructions in language()', len(lits), 6)
    cfg_param = next((p['name'] for p in f['params'] if p.get('ty') == 'Config'), 'config')
    for st in lits:
        be = st['path'].split('::')[-1]
        sec = SECTION[be]
        consumed = set()
        for fld, v in st['v']['fields'].items():
            if only_fields and fld not in only_fields:
                continue
            site = {'file': f['file'], 'line': st['line']}
            key = f'{be}.{fld}'
            inner = vt.strip(v)
            if isinstance(inner, dict) and inner.get('k') == 'call' and inner.get('f') in ADAPTERS and inner.get('args'):
                inner = vt.strip(inner['args'][0])
            if isinstance(inner, dict) and inner.get('k') == 'atom' and inner.get('root') == cfg_param:
                path = inner.get('path', [])
                ok = len(path) == 2 and path[0] == sec and path[1] == fld
                if len(path) == 2:
                    consumed.add((path[0], path[1]))
                rep.check(ok, rule, key, f'{be}.{fld} = config.{".".join(path)}', f"language(): {be}.{fld} is initialised from config.{'.'.join(path)} — expected config.{sec}.{fld} (another language's / another setting's value is silently used)", site)
            elif isinstance(inner, dict) and inner.get('k') == 'atom' and inner.get('param') and inner.get('root') == fld:
                rep.ok(rule, key, f'{be}.{fld} = parameter {fld}', site)
            else:
                rep.fail(rule, key, f"language(): {be}.{fld} is initialised from `{vt.show(v)[:80]}`, not from config.{sec}.{fld}", site)
        if only_fields:
            continue
        # reverse: every field of the params struct is used by this arm
        ps = [i for i in ctx.astq['items'] if i['kind'] == 'struct' and i['name'] == PARAMS[sec]]
        if not ps:
            raise core.Incomplete(f'config struct {PARAMS[sec]} not found')
        for pf in ps[0]['fields']:
            rep.check((sec, pf['name']) in consumed, rule, f'{sec}.{pf["name"]}:consumed', 'consumed by its backend', f"language(): the configuration value {sec}.{pf['name']} is never handed to the {be} backend — the setting from typeshare.toml / the command line has no effect", {'file': f['file'], 'line': st['line']})


def config_mutations(ctx, prog):
    """Type-directed inventory (MIR places, so aliases, methods on Config and nested helpers are all seen): every statement in
    hand-written code of the CLI crate that assigns to, or takes a mutable borrow of, a place inside `config::Config` / a
    `config::*Params` value.  Returns [(function id, params struct, field name, statement, file, line)]."""
    import re
    adts = {a['path']: a for a in ctx.mirq('all')['crates']['typeshare#bin']['adts']}
    out = []
    proj = re.compile(r'\.(\d+): (config::(?:\w+Params|Config))\)((?:\.\d+: [^()]*(?:\([^()]*\))?[^()]*\))?)')
    for k, b in prog.bodies.items():
        if prog.crate_of[k] != 'typeshare#bin' or b.get('derived') or b.get('exp'):
            continue
        for blk in b['blocks']:
            for st in blk['stmts']:
                lhs, _, rhs = st.partition(' = ')
                target = None
                if 'config::' in lhs and lhs.startswith('('):
                    target = lhs
                elif rhs.startswith('&mut ') and 'config::' in rhs:
                    target = rhs
                if target is None:
                    continue
                # innermost params struct on the path and the field selected from it
                ms = list(re.finditer(r': (config::(?:\w+Params|Config))\)\.(\d+): ', target))
                if ms:
                    owner, idx = ms[-1].group(1), int(ms[-1].group(2))
                else:
                    m1 = re.search(r'\.(\d+): (config::(?:\w+Params|Config))\)', target)
                    if not m1:
                        continue
                    owner, idx = 'config::Config', int(m1.group(1))
                fields = (adts.get(owner) or {}).get('variants', [{}])[0].get('fields', [])
                fname = fields[idx]['name'] if idx < len(fields) else f'#{idx}'
                out.append((b['id'], owner, fname, st[:140], b['file'], b['line']))
    return out
