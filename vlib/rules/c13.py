"""C13 — --target-os filtering follows the documented accept/reject rule at every level.

Decided: *where* the predicate is applied, with which polarity and on which data, plus the structural skeleton of
the evaluator.  (A1) accept_target_os is consulted with the complete attribute list of the file, of each of the
four item kinds, and — through is_skipped — of every variant, field and struct-variant field; the target list
passed is always the run's ParseContext.target_os; (A2) an empty target list short-circuits to accept before any
attribute is inspected and the CLI sets the list from the option or to empty; (A3) only `cfg` attributes and only
`target_os = "…"` name-values yield candidates; (A4) scope discipline of the nested-meta walk: start in Accept,
the only scope change is a constant switch to Reject on `not`, children inherit their parent's scope;
(A5) the decision is `!rejected ∧ accepted` over the complete partition of all candidates of all attributes, with
`accepted` vacuously true when no OS is named positively.
Not decided: that this evaluator agrees with the documented rule on every cfg expression tree (an unbounded
expression language walked with an explicit stack — a semantic equivalence this family does not settle)."""
import json
import re

from .. import core, parser_rules as pr, vt


def run(ctx, rep):
    rep.explanation = ('Decided structurally: call sites and polarity of the target-OS predicate at file / item / variant / field / struct-variant-field level, def-use of the '
                       'target list from the CLI option to every call, the short-circuit for an empty list, the literal keys (`cfg`, `target_os`, `not`), the scope '
                       'discipline of the nested-meta iterator, and the shape of the final decision over complete partitions.')
    rep.not_decided = 'agreement of TargetOsIterator/accept_target_os with the documented rule on every cfg expression tree (any/all/not nesting, several attributes) — a semantic property of a stack walk over an unbounded expression language.'
    rep.trusted = ['syn', 'astq evaluator']
    rep.section(a1, ctx, rep)
    rep.section(a2, ctx, rep)
    rep.section(a34, ctx, rep)
    rep.section(a5, ctx, rep)


def a1(ctx, rep):
    # every call of accept_target_os gets a whole attribute list and is not nested in an iteration over attributes
    n = 0
    for f in ctx.astq['functions']:
        if not f['file'].endswith(('parser.rs', 'visitors.rs', 'target_os_check.rs')):
            continue
        for c in f['calls']:
            if c.get('f') != 'accept_target_os':
                continue
            n += 1
            site = {'file': f['file'], 'line': c.get('line')}
            a0 = vt.strip(c['args'][0])
            whole = isinstance(a0, dict) and a0.get('k') == 'atom' and (a0.get('path', [])[-1:] == ['attrs'] or (not a0.get('path') and pr.is_attr_param(next((p for p in f['params'] if p['name'] == a0.get('root')), {}))))
            iter_frames = [fr for fr in c['guard'] if fr.get('k') in ('closure', 'for') and 'attrs' in vt.show(fr.get('over'))]
            rep.check(whole and not iter_frames, 'A1', f"{f['name']}:whole-attribute-list", 'predicate evaluated on the node\'s complete attribute list', f"{f['qual']} evaluates accept_target_os on `{vt.show(c['args'][0])[:60]}`" + (' inside an iteration over the attributes' if iter_frames else '') + ' — several cfg attributes on one node must be judged jointly (one positive OS list across all of them), as at file and type level', site)
    rep.floor('A1', 'accept_target_os call sites', n, 2)
    # wrapper used by the visitor
    ws = [g for g in ctx.fns(file='visitors.rs') if g['name'].split('::')[-1] == 'target_os_accepted']
    for w in ws[:1]:
        t = vt.strip(w['tail'])
        ok = isinstance(t, dict) and t.get('f') == 'accept_target_os' and vt.show(vt.strip(t['args'][0])) == w['params'][1]['name'] and vt.show(vt.strip(t['args'][1])) == 'self.parse_context.target_os'
        rep.check(ok, 'A1', 'target_os_accepted:wrapper', 'accept_target_os(attrs, &self.parse_context.target_os)', f"target_os_accepted is `{vt.show(w['tail'])[:100]}` — must be accept_target_os(attrs, &self.parse_context.target_os) without negation", {'file': w['file'], 'line': w['line']})
    # levels: file + 4 item kinds use the wrapper with the node's attrs (polarity is C03 S1); members via is_skipped
    levels = {'visit_file': 'file', 'visit_item_struct': 'struct', 'visit_item_enum': 'enum', 'visit_item_type': 'type alias', 'visit_item_const': 'const'}
    for fn, what in levels.items():
        cands = [f for f in ctx.fns(file='visitors.rs', name=fn)]
        if not cands:
            rep.fail('A1', f'level:{what}', f'{fn} not found: the target-OS predicate is not applied at {what} level', {'file': 'core/src/visitors.rs', 'line': 0})
            continue
        f = cands[0]
        item = f['params'][1]['name']
        from .. import inline as _inl
        helpers = tuple(g['name'].split('::')[-1] for g in ctx.fns(file='visitors.rs') if ((g.get('self_ty') or '').startswith('TypeShareVisitor') or not g.get('self_ty')) and not g.get('trait') and g['name'].split('::')[-1] != 'target_os_accepted')
        fv = _inl.view(ctx, f, depth=4, force=helpers)   # the test may sit in a local helper shared by the item visitors
        calls = [c for c in fv['calls'] if c.get('f') in ('target_os_accepted', 'accept_target_os') and c.get('args') and vt.show(vt.strip(c['args'][0])) == f'{item}.attrs'
                 and (c.get('f') == 'target_os_accepted' or 'parse_context.target_os' in vt.show(c['args'][1]).replace(' ', ''))]
        rep.check(bool(calls), 'A1', f'level:{what}', f'target_os_accepted(&{item}.attrs)', f'{fn} does not consult the target-OS predicate with the {what}\'s own attributes', {'file': f['file'], 'line': f['line']})
        if fn != 'visit_file':
            # every path on which the visitor records something for this item (a parsed item or a parse error) passes the
            # target test of the item's own attributes — also the paths that bypass the item parser (`serialized_as` shortcuts)
            recs = [c for c in fv['calls'] if c.get('f') == 'collect_result' or (c.get('f') in ('push', 'add', 'insert', 'extend') and vt.show(c.get('recv')).replace(' ', '').startswith('self.parsed_data'))]

            def pos_terms(frames):
                out = []

                def conj(v, pos):
                    v = vt.unvar(v)
                    if isinstance(v, dict) and v.get('k') == 'paren':
                        return conj(v.get('v'), pos)
                    if isinstance(v, dict) and v.get('k') == 'op' and v.get('op') == '!' and len(v.get('args', [])) == 1:
                        return conj(v['args'][0], not pos)
                    if isinstance(v, dict) and v.get('k') == 'op' and v.get('op') == ('&&' if pos else '||'):
                        for a in v['args']:
                            conj(a, pos)
                        return
                    if pos:
                        out.append(v)
                for fr in frames:
                    if fr.get('k') == 'if':
                        conj(fr.get('c'), not fr.get('neg'))
                return out
            unguarded = []
            for c in recs:
                ts = pos_terms(c.get('guard', []))
                ok_t = any(isinstance(t, dict) and t.get('k') == 'call' and t.get('f') in ('target_os_accepted', 'accept_target_os') and t.get('args') and vt.show(vt.strip(t['args'][0])) == f'{item}.attrs' for t in ts)
                if not ok_t:
                    unguarded.append(c)
            rep.check(bool(recs) and not unguarded, 'A1', f'level:{what}:every-record-guarded', f'each of the {len(recs)} recording call(s) sits under target_os_accepted(&{item}.attrs)',
                      (f"{fn} records an item at line {unguarded[0].get('line')} (`{vt.show(unguarded[0].get('args', [None])[0] if unguarded[0].get('args') else unguarded[0].get('recv'))[:70]}`) on a path that does not pass target_os_accepted(&{item}.attrs): "
                       f"a {what} whose cfg(target_os) rejects every requested target is generated anyway") if unguarded else f'{fn} records nothing', {'file': f['file'], 'line': f['line']})
            parser = {'visit_item_struct': 'parse_struct', 'visit_item_enum': 'parse_enum'}.get(fn)
            if parser:
                pc = [c for c in fv['calls'] if c.get('f') == parser]
                ok = bool(pc) and vt.show(vt.strip(pc[0]['args'][1])).replace(' ', '') in ('self.parse_context.target_os', 'target_os:=self.parse_context.target_os')
                rep.check(ok, 'A1', f'target-list:{parser}', 'the run\'s target list is handed down', f"{fn} passes `{vt.show(pc[0]['args'][1])[:50] if pc else '?'}` as target list to {parser}, not self.parse_context.target_os", {'file': f['file'], 'line': f['line']})
    pe = ctx.fnx('parse_enum', file='parser.rs')
    pv = [c for c in pe['calls'] if c.get('f') == 'parse_enum_variant']
    if not pv:
        raise core.Incomplete('A1: parse_enum hands its variants to no function called parse_enum_variant (the variant parser was renamed or became a method of a context type): how the target list reaches the variant level is not modelled for this shape')
    ok = bool(pv) and vt.show(vt.strip(pv[0]['args'][2])) == 'target_os'
    rep.check(ok, 'A1', 'target-list:parse_enum_variant', 'target list handed to the variant parser', 'parse_enum does not pass its target list to parse_enum_variant', {'file': pe['file'], 'line': pe['line']})
    for fn, n_expected in (('parse_struct', 1), ('parse_enum', 1), ('parse_enum_variant', 1)):
        f = ctx.fnx(fn, file='parser.rs')     # inlined view: the member loop may sit in a private shape helper
        sk = [c for c in f['calls'] if c.get('f') == 'is_skipped']
        ok = len(sk) >= n_expected and all(vt.show(vt.strip(c['args'][1])) == 'target_os' and vt.show(vt.strip(c['args'][0])).endswith('.attrs') for c in sk)
        rep.check(ok, 'A1', f'level:members-of:{fn}', 'is_skipped(member.attrs, target_os)', f'{fn} does not filter its members with is_skipped(&member.attrs, target_os)', {'file': f['file'], 'line': f['line']})


def a2(ctx, rep):
    f = ctx.fn('accept_target_os', file='target_os_check.rs')
    site = {'file': f['file'], 'line': f['line']}
    tparam = f['params'][1]['name']
    first = [r for r in f['returns'] if any(fr.get('k') == 'if' and not fr.get('neg') and vt.show(fr['c']).replace(' ', '') == f'{tparam}.is_empty()' for fr in r['guard'])]
    ok = bool(first) and isinstance(vt.strip(first[0]['v']), dict) and vt.strip(first[0]['v']).get('v') is True
    before = [c for c in f['calls'] if first and c.get('line', 0) < first[0]['line'] and c.get('f') not in ('is_empty',)]
    rep.check(ok and not before, 'A2', 'empty-list-accepts', 'empty target list ⇒ accept, before any attribute is inspected', 'accept_target_os no longer returns true first thing when the target list is empty: without --target-os items guarded by cfg(target_os) would be filtered', site)
    from .. import wiring
    oc, cfg_p, _opts_p = wiring.override_fn(ctx)
    asg = [a for a in oc['assigns'] if a.get('text', '').replace(' ', '') == f'{cfg_p}.target_os' and a.get('via') != 'clone_from']
    ok = len(asg) == 1 and 'options.target_os' in vt.show(asg[0]['value']) and 'unwrap_or_default' in json.dumps(asg[0]['value']) and not [fr for fr in asg[0]['guard'] if fr.get('k') == 'if']
    rep.check(ok, 'A2', 'cli:target-list-from-option', 'config.target_os = --target-os or empty', f"override_configuration sets config.target_os from `{vt.show(asg[0]['value'])[:80] if asg else '?'}`", {'file': oc['file'], 'line': oc['line']})
    gt = ctx.fn('generate_types', file='cli/src/main.rs')
    pc = [s for s in gt['structs'] if s['path'].endswith('ParseContext')]
    ok = bool(pc) and re.search(r'\bconfig\b.*\.target_os', vt.show(pc[0]['v']['fields'].get('target_os'))) is not None
    rep.check(ok, 'A2', 'cli:parse-context', 'ParseContext.target_os = config.target_os', 'generate_types does not build ParseContext.target_os from config.target_os', {'file': gt['file'], 'line': gt['line']})


def a34(ctx, rep):
    f = ctx.fn('accept_target_os', file='target_os_check.rs')
    gm = [c for c in f['calls'] if c.get('f') == 'get_meta_items']
    lits = [vt.strip(a).get('v') for c in gm for a in c.get('args', []) if isinstance(vt.strip(a), dict) and vt.strip(a).get('k') == 'lit']
    rep.check(lits == ['cfg'], 'A3', 'only-cfg-attributes', 'candidates come from #[cfg(..)] only', f'accept_target_os collects candidates from {lits} attributes', {'file': f['file'], 'line': f['line']})
    # the walker: the function of target_os_check.rs that tests `is_ident("not")` — `TargetOsIterator::next` (candidates yielded one
    # by one) or a collector method that records them (found by what it does, whatever it is called)
    cands_w = [g for g in ctx.fns(file='target_os_check.rs') if any(c.get('f') == 'is_ident' and c.get('args') and isinstance(vt.strip(c['args'][0]), dict) and vt.strip(c['args'][0]).get('v') == 'not' for c in ctx.x(g)['calls'])
               and any(c.get('f') == 'pop' for c in g['calls'])]
    if len(cands_w) != 1:
        raise core.Incomplete(f'target_os_check.rs: the cfg walker (a worklist loop testing is_ident("not")) expected once, found {len(cands_w)}')
    it = ctx.x(cands_w[0])
    site = {'file': it['file'], 'line': it['line']}
    idents = [vt.strip(c['args'][0]).get('v') for c in it['calls'] if c.get('f') == 'is_ident' and c.get('args') and isinstance(vt.strip(c['args'][0]), dict)]
    rep.check(sorted(set(idents)) == ['not', 'target_os'], 'A3', 'only-target_os-keys', 'only `target_os = ".."` yields a candidate; only `not` changes scope', f'TargetOsIterator tests the identifiers {idents}', site)
    # A4 scope discipline
    pops = [c for c in it['calls'] if c.get('f') == 'pop' and c.get('recv') is not None]
    def work_of(v):
        # the worklist a call works on: the local's name, or the field path (`self.meta`)
        while isinstance(v, dict) and v.get('k') in ('ref', 'deref', 'paren'):
            v = v.get('v')
        if isinstance(v, dict) and v.get('k') == 'var' and v.get('name'):
            return str(v['name'])
        return vt.show(vt.strip(v)).replace(' ', '').lstrip('&').replace('mut', '')
    work = work_of(pops[0]['recv'])
    news = ctx.fns(file='target_os_check.rs', name='new')
    if news and (news[0].get('self_ty') or '').startswith('TargetOsIterator'):
        init_txt, isite = vt.show(news[0]['tail']).replace(' ', ''), {'file': news[0]['file'], 'line': news[0]['line']}
    else:
        # a local worklist: its initial value
        init = next((l for l in it['lets'] if l.get('names') == [work.split('.')[-1]] and isinstance(l.get('v'), dict)), None)
        init_txt, isite = (vt.show(init['v']).replace(' ', '') if init else ''), site
    rep.check('TargetScope::Accept' in init_txt and 'TargetScope::Reject' not in init_txt, 'A4', 'initial-scope-accept', 'walk starts in Accept scope', 'the cfg walk does not start in Accept scope', isite)
    # a recorder: `fn record(&mut self, scope, value) { match scope { Accept => self.a.push(..), Reject => self.r.push(..) } }`
    recorder = find_recorder(ctx)
    # the scope a candidate is yielded with / a child is pushed with, as a value: whatever the idiom (a `mut scope` reassigned
    # under `if`, a `let scope = outer.enter(&meta)` helper, a match) it must be
    #       if <popped meta>.path().is_ident("not") { Reject } else { <popped scope> }
    def popped(v, idx):
        v = vt.unvar(v)
        if not (isinstance(v, dict) and v.get('k') == 'field' and str(v.get('name')) == str(idx)):
            return False
        b_ = vt.unvar(v.get('base'))
        if not (isinstance(b_, dict) and b_.get('k') == 'payload' and str(b_.get('variant', '')).split('::')[-1] == 'Some'):
            return False
        p_ = vt.unvar(b_.get('of'))
        return isinstance(p_, dict) and p_.get('k') == 'call' and p_.get('f') == 'pop' and work_of(p_.get('recv')) == work

    def scope_value(v):
        """'ok' / reason"""
        v = vt.unvar(v)
        if not (isinstance(v, dict) and v.get('k') == 'cond'):
            return f'`{vt.show(v)[:60]}` is not decided by the `not` test'
        c = vt.unvar(v.get('c'))
        neg = False
        while isinstance(c, dict) and c.get('k') == 'op' and c.get('op') == '!' and len(c.get('args', [])) == 1:
            neg, c = not neg, vt.unvar(c['args'][0])
        is_not = isinstance(c, dict) and c.get('k') == 'call' and c.get('f') == 'is_ident' and c.get('args') and isinstance(vt.strip(c['args'][0]), dict) and vt.strip(c['args'][0]).get('v') == 'not' \
            and any(popped(x, 1) for x in vt.walk(c.get('recv') or {}))
        if not is_not:
            return f'scope depends on `{vt.show(c)[:60]}`, not on <popped meta>.path().is_ident("not")'
        t_, e_ = (v.get('e'), v.get('t')) if neg else (v.get('t'), v.get('e'))
        tv = vt.unvar(t_)
        if not (isinstance(tv, dict) and tv.get('k') == 'path' and str(tv.get('text', '')).replace(' ', '').endswith('TargetScope::Reject')):
            return f'under `not` the scope becomes `{vt.show(t_)[:50]}` instead of the constant Reject'
        if not popped(e_, 0):
            return f'outside `not` the scope is `{vt.show(e_)[:50]}` instead of the scope the item was pushed with'
        return 'ok'
    used = []
    ext = [c for c in it['calls'] if c.get('f') in ('extend', 'push') and c.get('recv') is not None and work_of(c['recv']) == work]
    pushed = []
    for e in ext:
        for x in vt.walk(e['args'][0]):
            if x.get('k') == 'closure' and isinstance(x.get('body'), dict) and vt.unvar(x['body']).get('k') == 'tuple' and vt.unvar(x['body']).get('items'):
                pushed.append(vt.unvar(x['body'])['items'][0])
    yielded = []
    for r in it['returns']:
        rv = vt.unvar(r.get('v'))
        if isinstance(rv, dict) and rv.get('k') == 'some':
            tv = vt.unvar(rv.get('v'))
            if isinstance(tv, dict) and tv.get('k') == 'tuple' and tv.get('items'):
                yielded.append(tv['items'][0])
    if recorder is not None:
        # collector form: a candidate is "yielded" by handing it, with its scope, to the recorder
        for c in it['calls']:
            if str(c.get('f')).split('::')[-1] == recorder['name'] and c.get('args'):
                yielded.append(c['args'][0])
    verdicts = [scope_value(x) for x in pushed + yielded]
    bad = [x for x in verdicts if x != 'ok']
    rep.check(bool(verdicts) and not bad, 'A4', 'scope:only-constant-reject-on-not', 'scope = Reject below `not`, the inherited scope otherwise', f"TargetOsIterator::next: {bad[0] if bad else 'no scope value found'} — inside not(..) every nested target_os must stay in reject scope (a toggle makes not(any(not(..)))) accept what the rule rejects)", site)
    rep.check(bool(pushed), 'A4', 'scope:children-inherit', 'children are pushed with their parent\'s scope', 'TargetOsIterator::next does not push nested meta items with the current scope', site)
    rep.check(bool(yielded), 'A4', 'scope:yielded-with-candidate', 'each candidate is yielded with its scope', 'TargetOsIterator::next does not yield (scope, os) pairs', site)


def find_recorder(ctx):
    """{'name', 'accept': field, 'reject': field} of the method that files a (scope, value) pair under the list of its scope, or None."""
    for g in ctx.fns(file='target_os_check.rs'):
        sp = next((p_['name'] for p_ in g['params'] if 'TargetScope' in str(p_.get('ty') or '')), None)
        if sp is None:
            continue
        side = {}
        for c in g['calls']:
            if c.get('f') not in ('push', 'extend', 'insert') or c.get('recv') is None:
                continue
            r = vt.strip(c['recv'])
            fld_ = (r.get('path') or [None])[-1] if isinstance(r, dict) and r.get('k') == 'atom' and r.get('root') == 'self' else None
            arms = [fr for fr in c.get('guard', []) if fr.get('k') == 'arm' and vt.show(vt.strip(fr.get('scrut'))) == sp and fr.get('guard') is None]
            others = [fr for fr in c.get('guard', []) if fr.get('k') in ('if', 'for', 'while', 'loop') or (fr.get('k') == 'arm' and fr not in arms)]
            if fld_ and len(arms) == 1 and not others and len(arms[0].get('variants', [])) == 1:
                side[str(arms[0]['variants'][0]).split('::')[-1]] = fld_
        if set(side) == {'Accept', 'Reject'} and side['Accept'] != side['Reject']:
            return {'name': g['name'].split('::')[-1], 'accept': side['Accept'], 'reject': side['Reject'], 'fn': g}
    return None


def a5(ctx, rep):
    f0 = ctx.fn('accept_target_os', file='target_os_check.rs')
    # inlined view (helpers such as `any_requested(found, targets)` expanded), early `return true/false` folded into ONE
    # boolean formula: `if c { return false } rest` ≡ ¬c ∧ rest
    f = ctx.fnx('accept_target_os', file='target_os_check.rs')
    site = {'file': f['file'], 'line': f['line']}
    from .. import parser_rules as pr
    formula, why = pr.bool_result(f)
    looped = [r for r in f['returns'] if any(fr.get('k') in ('for', 'while', 'loop', 'closure') for fr in r['guard'])]
    rep.check(formula is not None and not looped, 'A5', 'no-early-decision', 'the decision is one formula over the complete partition (early returns fold into it)', f"accept_target_os returns early ({why or 'inside a loop over the candidates'}) while candidates are still being streamed: the verdict depends on the order in which cfg predicates are written/visited", site)
    if formula is None:
        formula = f['tail']
    # --- the decision formula, read semantically: local closures are expanded, then
    #     D  =  ¬ any-any(target_os, REJECTED)  ∧  ( ACCEPTED.is_empty() ∨ any-any(target_os, ACCEPTED) )
    # where ACCEPTED / REJECTED are the two halves of the partition, identified by evaluating the partition predicate
    # on both scopes — whatever names, closure structure or operand order the code uses.
    def expand(v, d=0):
        v = vt.unvar(v)
        if isinstance(v, dict) and v.get('k') == 'call' and v.get('local_closure') and v.get('result') is not None and d < 20:
            return expand(v['result'], d + 1)
        if isinstance(v, dict) and v.get('k') == 'paren':
            return expand(v.get('v'), d + 1)
        return v

    def terms(v, op):
        v = expand(v)
        if isinstance(v, dict) and v.get('k') == 'op' and v.get('op') == op:
            return [t2 for x in v['args'] for t2 in terms(x, op)]
        return [v]

    def half(x):
        """(index, partition call) when x denotes one half of a `.partition(..)` result."""
        x = vt.strip(x)
        while isinstance(x, dict) and x.get('k') in ('ref', 'paren'):
            x = vt.strip(x.get('v'))
        if recorder is not None and isinstance(x, dict):
            # one of the two lists of the collector (destructured, or projected from the collector value)
            nm = x.get('field') if x.get('k') == 'payload' else (x.get('name') if x.get('k') == 'field' else ((x.get('path') or [None])[-1] if x.get('k') == 'atom' else None))
            if nm in (recorder['accept'], recorder['reject']):
                return (0 if nm == recorder['accept'] else 1), {'collector': True}
        if isinstance(x, dict) and x.get('k') == 'field' and str(x.get('name')) in ('0', '1'):
            pc = vt.strip(x.get('base'))
            if isinstance(pc, dict) and pc.get('k') == 'call' and pc.get('f') == 'partition':
                return int(x['name']), pc
        return None

    def anyany(v):
        """index of the partition half H when v is `target_os.iter().any(|t| H.iter().any(|(_, os)| os == t))`."""
        v = expand(v)
        if not (isinstance(v, dict) and v.get('k') == 'call' and v.get('f') == 'any' and v.get('args')):
            return None
        outer = vt.strip(v.get('recv'))
        if not (isinstance(outer, dict) and outer.get('k') == 'atom' and outer.get('root') == tparam and not outer.get('path')):
            return None
        b1 = expand(vt.unvar(v['args'][0]).get('body')) if isinstance(vt.unvar(v['args'][0]), dict) else None
        if not (isinstance(b1, dict) and b1.get('k') == 'call' and b1.get('f') == 'any' and b1.get('args')):
            return None
        h = half(b1.get('recv'))
        b2 = expand(vt.unvar(b1['args'][0]).get('body')) if isinstance(vt.unvar(b1['args'][0]), dict) else None
        if h is None or not (isinstance(b2, dict) and b2.get('k') == 'op' and b2.get('op') == '==' and len(b2['args']) == 2):
            return None
        sides = [vt.strip(x) for x in b2['args']]

        def from_outer(x):
            return isinstance(x, dict) and x.get('k') == 'elem' and vt.ckey(x.get('of')) == vt.ckey(v.get('recv'))

        def from_half(x):
            return isinstance(x, dict) and x.get('k') == 'field' and str(x.get('name')) == '1' and isinstance(vt.strip(x.get('base')), dict) and vt.strip(x['base']).get('k') == 'elem' and vt.ckey(vt.strip(x['base']).get('of')) == vt.ckey(b1.get('recv'))
        if (from_outer(sides[0]) and from_half(sides[1])) or (from_outer(sides[1]) and from_half(sides[0])):
            return h
        return None
    tparam = next((q['name'] for q in f['params'] if q['name'] != 'attrs'), 'target_os')
    recorder = find_recorder(ctx) if not [c for c in f['calls'] if c.get('f') == 'partition'] else None
    if not [c for c in f['calls'] if c.get('f') == 'partition'] and recorder is None:
        # the decision model below reads the accepted / rejected sides as the two halves of one `partition` of the candidate
        # stream, or as the two lists a recorder method files candidates under by scope; anything else is not modelled
        raise core.Incomplete('A5: accept_target_os splits the candidates neither with `partition` nor through a recorder that files them by scope: which list is the accept side and whether every candidate reaches one of them is not modelled for this shape')

    def no_targets(x):
        x = expand(x)
        return isinstance(x, dict) and x.get('k') == 'call' and x.get('f') == 'is_empty' and not x.get('args') and isinstance(vt.strip(x.get('recv')), dict) and vt.strip(x['recv']).get('k') == 'atom' and vt.strip(x['recv']).get('root') == tparam and not vt.strip(x['recv']).get('path')
    # `targets.is_empty() || …`: the no-target shortcut (A2) is not part of the decision over the candidates
    top = [t for t in terms(formula, '||') if not no_targets(t)]
    core_formula = top[0] if len(top) == 1 else formula
    D = terms(core_formula, '&&')
    txt = vt.show(core_formula).replace(' ', '')
    negs = [vt.unvar(x) for x in D if isinstance(x, dict) and x.get('k') == 'op' and x.get('op') == '!']
    poss = [x for x in D if not (isinstance(x, dict) and x.get('k') == 'op' and x.get('op') == '!')]
    ok = len(D) == 2 and len(negs) == 1 and len(poss) == 1
    rep.check(ok, 'A5', 'decision-shape', '¬rejected ∧ accepted', f"accept_target_os decides with `{txt[:120]}` — expected ¬(a target is named in reject scope) ∧ (no OS named in accept scope ∨ a target is named in accept scope)", site)
    rej_half = anyany(negs[0]['args'][0]) if ok else None
    acc_terms = terms(poss[0], '||') if ok else []
    acc_any = [anyany(x) for x in acc_terms]
    acc_empty = [half(vt.unvar(x).get('recv')) for x in acc_terms if isinstance(vt.unvar(x), dict) and vt.unvar(x).get('k') == 'call' and vt.unvar(x).get('f') == 'is_empty']
    # which half is which: evaluate the partition predicate on both scopes
    acc_idx = 0 if recorder is not None else None
    pcs = [h[1] for h in [rej_half] + acc_any + acc_empty if h]
    if recorder is None and pcs and pcs[0].get('args'):
        clo = vt.unvar(pcs[0]['args'][0])
        body = clo.get('body') if isinstance(clo, dict) and clo.get('k') == 'closure' else None

        def scoped(x, want):
            x = vt.unvar(x)
            return want if isinstance(x, dict) and x.get('k') == 'field' and str(x.get('name')) == '0' and isinstance(vt.strip(x.get('base')), dict) and vt.strip(x['base']).get('k') == 'elem' else None
        pa = vt.unvar(vt.peval(body, lambda sc: scoped(sc, 'Accept')))
        pr = vt.unvar(vt.peval(body, lambda sc: scoped(sc, 'Reject')))
        if isinstance(pa, dict) and isinstance(pr, dict) and pa.get('k') == 'lit' and pr.get('k') == 'lit' and pa.get('v') is not pr.get('v'):
            acc_idx = 0 if pa.get('v') is True else 1
    part = [c for c in f['calls'] if c.get('f') == 'partition']
    ok = len(part) == 1
    if recorder is not None:
        # collector form: the walker is run on every cfg argument of every attribute, unconditionally
        walkers = [c for c in ctx.fn('accept_target_os', file='target_os_check.rs')['calls'] if c.get('recv') is not None and any(g['name'].split('::')[-1] == str(c.get('f')) and any(cc.get('f') == 'pop' for cc in g['calls']) for g in ctx.fns(file='target_os_check.rs'))]
        ok = bool(walkers)
        for c in walkers:
            frs = c.get('guard', [])
            if [fr for fr in frs if fr.get('k') in ('if', 'arm', 'while') and not fr.get('early_exit')]:
                ok = False
            fors = [fr for fr in frs if fr.get('k') == 'for']
            srcs = ' '.join(vt.show(fr.get('over')) for fr in fors)
            chain = [x.get('f') for fr in fors for x in vt.calls_in(fr.get('over') or {})]
            if [x for x in chain if x in ('take', 'skip', 'find', 'next', 'take_while', 'skip_while', 'step_by', 'nth', 'first', 'last', 'filter')] or 'get_meta_items' not in srcs:
                ok = False
    elif ok:
        chain = [x.get('f') for x in vt.calls_in(part[0]['recv'])] if isinstance(part[0].get('recv'), dict) else []
        bad = [x for x in chain if x in ('take', 'skip', 'find', 'next', 'take_while', 'skip_while', 'step_by', 'nth', 'first', 'last')]
        ok = not bad and 'flat_map' in chain
    rep.check(ok, 'A5', 'complete-partition', 'all candidates of all attributes are partitioned by scope', 'accept_target_os does not partition the complete candidate stream of all cfg attributes', site)
    vac = acc_idx is not None and len(acc_terms) == 2 and [h[0] for h in acc_empty if h] == [acc_idx] and [h[0] for h in acc_any if h] == [acc_idx]
    rej = acc_idx is not None and rej_half is not None and rej_half[0] == 1 - acc_idx
    rep.check(vac, 'A5', 'accepted-vacuous', 'no positive OS named ⇒ accepted', 'the accepted-side test is no longer vacuously true when no OS is named outside not(..): items without a target_os predicate (or with only negative ones) would be dropped', site)
    rep.check(rej, 'A5', 'rejected-any', 'rejected ⇔ some target is named inside not(..)', 'the rejected-side test does not check whether any target is among the candidates found in reject scope', site)
