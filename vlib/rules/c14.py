"""C14 — multi-file mode partitions types by crate and imports cross-crate references.

Decided: agreement between the places that spell a module's name, soundness of the import names, and the shape of
the per-crate write loop.  (M0) the crate name is taken from the directory above the `src` component nearest to
the file (scan from the file upwards); (M1) TypeScript's import specifier and the output file stem are both the
unmodified crate name; Kotlin's `package` line and `import` line have the same shape from the same package
setting; file names are produced for every language from the crate name only; (M2) every imported name is drawn
from the type set registered for the crate it is imported from, never from the current crate, and is spelled like
the definition (prefix!); (M3) write_multiple_files iterates the whole map with one generate_types + one
check_write_file per crate and the collector keys results by each file's own crate name; (M4) the import-collecting
visitors keep descending in multi-file mode.  The hash-order dependence of import resolution is decided under C06.
Not decided: the `use`-tree / qualified-path heuristics that decide which imports are wanted."""
import json
import re

from .. import core, emit, vt


def run(ctx, rep):
    rep.explanation = ('Decided structurally: crate-name derivation direction, agreement of module-name spellings (file stem vs import specifier; Kotlin package vs import), provenance '
                       'of imported names (registered type set of the imported crate, current crate excluded, prefix agreement with definitions), shape of the per-crate write loop '
                       'and of the collector key, and that the import-collecting visitors descend on every multi-file path.')
    rep.not_decided = 'the heuristics deciding *which* imports are wanted (use-tree forms, qualified paths, crate::/super::/self:: resolution, re-exports) — value-level string/path logic.'
    rep.trusted = ['syn', 'astq evaluator']
    T = emit.Types(ctx.astq)
    rep.section(m0, ctx, rep)
    rep.section(m1, ctx, rep, T)
    rep.section(m2, ctx, rep, T)
    rep.section(m3, ctx, rep)
    rep.section(m5, ctx, rep)
    rep.section(m4, ctx, rep)
    rep.section(m6, ctx, rep)
    rep.section(m7, ctx, rep)
    rep.section(m8, ctx, rep)
    from . import c09 as _c09
    rep.section(_c09.n8, ctx, rep)     # the rename resolver addresses the table by importing / current crate only (shared with C09)


def m0_stateful_iterator(f):
    """The same scan written with one stateful iterator:
           let mut it = path.iter().rev();   it.by_ref().find(|c| *c == "src")?;   let dir = it.next()?…
       i.e. from the file upwards, consume up to and including the nearest `src`, the next component is the crate directory.
       Accepted when: `it` is exactly `<path>.iter().rev()`; the only consumers of `it` are that `find` (whose miss leaves the
       function: `?` / let-else) and, after it, one `next()` from which the result is built."""
    its = [l for l in f.get('lets', []) if len(l.get('names', [])) == 1 and isinstance(l.get('v'), dict)]
    for l in its:
        v, chain = vt.unvar(l['v']), []
        while isinstance(v, dict) and v.get('k') == 'call' and v.get('recv') is not None:
            chain.append(v.get('f'))
            v = vt.unvar(v['recv'])
        if list(reversed(chain)) != ['iter', 'rev'] or not (isinstance(v, dict) and v.get('k') == 'atom' and v.get('param')):
            continue
        name = l['names'][0]

        def on_it(x):
            x = vt.unvar(x) if not (isinstance(x, dict) and x.get('k') == 'var' and x.get('name') == name) else x
            while isinstance(x, dict) and x.get('k') == 'call' and x.get('f') == 'by_ref' and x.get('recv') is not None:
                x = x['recv']
            while isinstance(x, dict) and x.get('k') in ('ref', 'deref', 'paren'):
                x = x.get('v')
            return isinstance(x, dict) and ((x.get('k') == 'var' and x.get('name') == name) or vt.ckey(vt.unvar(x)) == vt.ckey(vt.unvar(l['v'])))
        users = [c for c in f['calls'] if c.get('recv') is not None and on_it(c['recv']) and c.get('f') != 'by_ref']
        finds = [c for c in users if c.get('f') == 'find']
        nexts = [c for c in users if c.get('f') == 'next']
        others = [c for c in users if c.get('f') not in ('find', 'next')]
        # the loop spelling of that `find`: `for c in it.by_ref() { if c == "src" { break; } }` — nothing else in the body
        floops = [lp for lp in f['loops'] if lp.get('kind') == 'for' and isinstance(lp.get('over'), dict) and on_it(lp['over'])]
        if not finds and len(floops) == 1 and len(nexts) == 1 and not others:
            lp = floops[0]
            brk = [x for x in f['loops'] if x.get('ctl') and any(fr.get('k') == 'for' and fr.get('line') == lp['line'] for fr in x.get('guard', []))]
            body_calls = [c for c in f['calls'] if any(fr.get('k') == 'for' and fr.get('line') == lp['line'] for fr in c.get('guard', []))]
            if len(brk) == 1 and str(brk[0]['ctl']).strip().startswith('break') and not body_calls:
                conds = [fr for fr in brk[0]['guard'] if fr.get('k') == 'if']
                cv = vt.unvar(conds[0].get('c')) if len(conds) == 1 and not conds[0].get('neg') else None
                is_src = isinstance(cv, dict) and cv.get('k') == 'op' and cv.get('op') == '==' and any(isinstance(vt.strip(a), dict) and vt.strip(a).get('k') == 'lit' and vt.strip(a).get('v') == 'src' for a in cv.get('args', []))
                result_from_next = any(x.get('k') == 'call' and x.get('f') == 'next' and x.get('recv') is not None and on_it(x['recv']) for x in vt.walk(f.get('tail') or {}))
                if is_src and lp.get('line', 0) < nexts[0].get('line', 0) and result_from_next and nexts[0].get('parent') == 'try':
                    return True
            continue
        if not finds and len(nexts) == 2 and not others and not floops:
            # `loop { match it.next() { None => return None, Some(c) if c == "src" => break, Some(_) => continue } }` then `it.next()?`
            in_loop = [c for c in nexts if any(fr.get('k') in ('loop', 'while') for fr in c.get('guard', []))]
            after = [c for c in nexts if not any(fr.get('k') in ('loop', 'while', 'for') for fr in c.get('guard', []))]
            if len(in_loop) == 1 and len(after) == 1 and in_loop[0].get('line', 0) < after[0].get('line', 0):
                lline = next(fr.get('line') for fr in in_loop[0]['guard'] if fr.get('k') in ('loop', 'while'))
                ctl = [x for x in f['loops'] if x.get('ctl') and any(fr.get('k') in ('loop', 'while') and fr.get('line') == lline for fr in x.get('guard', []))]
                brk = [x for x in ctl if str(x['ctl']).strip().startswith('break')]

                def src_test(frames):
                    for fr in frames:
                        for cand in (fr.get('c'), fr.get('guard')):
                            cv = vt.unvar(cand) if isinstance(cand, dict) else None
                            if isinstance(cv, dict) and cv.get('k') == 'op' and cv.get('op') == '==' and any(isinstance(vt.strip(a), dict) and vt.strip(a).get('k') == 'lit' and vt.strip(a).get('v') == 'src' for a in cv.get('args', [])):
                                return not fr.get('neg')
                    return False
                rets = [r for r in f.get('returns', []) if any(fr.get('k') in ('loop', 'while') and fr.get('line') == lline for fr in r.get('guard', []))]
                rets_none = all(isinstance(vt.unvar(r.get('v')), dict) and vt.unvar(r['v']).get('k') == 'none' for r in rets)
                body_calls = [c for c in f['calls'] if any(fr.get('k') in ('loop', 'while') and fr.get('line') == lline for fr in c.get('guard', [])) and c is not in_loop[0]]
                result_from_next = any(x.get('k') == 'call' and x.get('f') == 'next' and x.get('recv') is not None and on_it(x['recv']) for x in vt.walk(f.get('tail') or {}))
                if len(brk) == 1 and src_test(brk[0].get('guard', [])) and rets_none and not body_calls and result_from_next and after[0].get('parent') == 'try':
                    return True
            continue
        if len(finds) != 1 or len(nexts) != 1 or others:
            continue
        clo = vt.unvar(finds[0]['args'][0]) if finds[0].get('args') else None
        body = vt.unvar(clo.get('body')) if isinstance(clo, dict) and clo.get('k') == 'closure' else None
        is_src = isinstance(body, dict) and body.get('k') == 'op' and body.get('op') == '==' and any(isinstance(vt.strip(a), dict) and vt.strip(a).get('k') == 'lit' and vt.strip(a).get('v') == 'src' for a in body.get('args', []))
        leaves_on_miss = finds[0].get('parent') == 'try'
        result_from_next = any(x.get('k') == 'call' and x.get('f') == 'next' and x.get('recv') is not None and on_it(x['recv']) for x in vt.walk(f.get('tail') or {}))
        if is_src and leaves_on_miss and finds[0].get('line', 0) < nexts[0].get('line', 0) and result_from_next and not [c for c in (finds + nexts) if any(fr.get('k') in ('for', 'while', 'loop', 'if', 'arm') for fr in c.get('guard', []))]:
            return True
    return False


def m0(ctx, rep):
    f = ctx.fn('CrateName::find_crate_name', file='language/mod.rs')
    site = {'file': f['file'], 'line': f['line']}
    txt = vt.show(f['tail'])
    chain = []
    cur = f['tail']
    while isinstance(cur, dict):
        if cur.get('k') in ('var', 'try', 'some'):
            cur = cur['v']
        elif cur.get('k') == 'call' and cur.get('recv') is not None:
            chain.append(cur.get('f'))
            cur = cur['recv']
        else:
            break
    # order of adapters on path.iter(): rev → skip_while(!= "src") → nth(1)
    order = [x for x in reversed(chain) if x in ('iter', 'rev', 'skip_while', 'nth', 'skip', 'take_while', 'find', 'position', 'last', 'next')]
    ok = order[:4] == ['iter', 'rev', 'skip_while', 'nth'] and "'src'" in txt.replace('"', "'")
    nth = [c for c in vt.calls_in(f['tail']) if c.get('f') == 'nth']
    ok = ok and bool(nth) and vt.show(vt.strip(nth[0]['args'][0])) == "'1'"
    if not ok:
        ok = m0_stateful_iterator(f)
    rep.check(ok, 'M0', 'crate-name:nearest-src', 'path scanned from the file upwards to the nearest `src`, crate = the component above it', f"find_crate_name derives the crate from `{'.'.join(order)}` — it must scan the path components from the file upwards (rev), skip to the nearest `src` and take the component above it; scanning from the root picks an ancestor directory named `src` (e.g. ~/src/<workspace>/..) and merges every crate into one wrongly named file", site)
    # the dash mapping may sit in a helper that is called or handed to `map` by path (`.map(Self::from_directory_name)`)
    dash = "replace('-', '_')" in txt.replace('"', "'") or "replace('-', '_')" in vt.show(ctx.x(f).get('tail')).replace('"', "'")
    if not dash:
        named = {str(x.get('text', '')).replace(' ', '').split('::')[-1] for x in vt.walk(f.get('tail') or {}) if x.get('k') == 'path'} | {str(c.get('f')).split('::')[-1] for c in f['calls'] if c.get('recv') is None}
        for g in ctx.fns(file='language/mod.rs'):
            if g['name'].split('::')[-1] in named and "replace('-', '_')" in vt.show(g.get('tail')).replace('"', "'"):
                dash = True
    rep.check(dash, 'M0', 'crate-name:dashes', 'dashes become underscores', 'find_crate_name no longer maps `-` to `_`', site)


def m1(ctx, rep, T):
    # TypeScript import specifier
    f = ctx.fn('TypeScript::write_imports', file='typescript.rs')
    spec = None
    for s in f['sites']:
        for alt in emit.site_alternatives(T, s):
            txt = emit.seq_str(alt)
            if 'from' in txt:
                spec = alt
    ok = False
    if spec:
        i = next((k for k, c in enumerate(spec) if c[0] in ('lit', 'lit*') and c[1].endswith('from "./')), None)
        if i is not None and i + 2 < len(spec) + 1:
            hole = spec[i + 1]
            nxt = spec[i + 2] if i + 2 < len(spec) else ('lit', '')
            ok = hole[0] in ('atom', 'opaque') and not (hole[0] == 'atom' and hole[2]) and nxt[0] in ('lit', 'lit*') and nxt[1].startswith('"')
    rep.check(ok, 'M1', 'typescript:import-specifier', 'import … from "./{crate}" — the unmodified crate name', f"TypeScript's import specifier is `{emit.seq_str(spec)[:120] if spec else '?'}`: it must be \"./<crate name>\" with nothing added, because the file is written as <crate name>.ts", {'file': f['file'], 'line': f['line']})
    # the file stem per language, by partial evaluation of output_file_name under `language = L` (whatever the match
    # layout, closures or helper the function uses): TypeScript and Kotlin files must be named <unmodified crate name>.<ext>
    ofn = ctx.fnx('output_file_name', file='cli/src/parse.rs')
    lang_p = next((q['name'] for q in ofn['params'] if q.get('ty') == 'SupportedLanguage'), None)
    crate_p = next((q['name'] for q in ofn['params'] if q.get('ty') == 'CrateName'), None)
    if lang_p is None or crate_p is None:
        raise core.Incomplete('output_file_name: language / crate-name parameters not found')
    sl = ctx.item('enum', 'SupportedLanguage')

    def is_lang(x):
        x = vt.strip(x)
        return isinstance(x, dict) and x.get('k') == 'atom' and x.get('root') == lang_p and not x.get('path')

    from .. import special

    def pieces(v, d=0):
        """the string value as a sequence of ('lit', text) / ('val', tree): nested format!/push_str concatenations flattened"""
        v = vt.unvar(v)
        if isinstance(v, dict) and v.get('k') == 'fmt' and d < 12:
            out = []
            for p_ in v.get('parts', []):
                out += [('lit', str(p_['lit']))] if 'lit' in p_ else pieces(p_.get('hole'), d + 1)
            return out
        if isinstance(v, dict) and v.get('k') == 'lit' and v.get('t') in ('str', 'char'):
            return [('lit', str(v.get('v')))]
        return [('val', v)]

    def stem_of(lang):
        # the function specialised to `language = L` (vlib/special.py): match layout, closures, helpers, `format!` or
        # `push`/`push_str` building all give the same sequence of pieces
        outs = special.outcomes(ofn, [special.EnumSpec(lang_p, lang)])
        outs = [vt.expand_closures(o) for o in outs]
        if len(outs) != 1:
            return 'unknown', ' | '.join(vt.show(o)[:60] for o in outs)
        seq = pieces(outs[0])
        merged = []
        for kind_, x in seq:
            if kind_ == 'lit' and merged and merged[-1][0] == 'lit':
                merged[-1] = ('lit', merged[-1][1] + x)
            elif not (kind_ == 'lit' and x == ''):
                merged.append((kind_, x))
        if len(merged) >= 2 and merged[0][0] == 'val':
            # a stem computed by a method / function of cli/src/parse.rs that was not expanded (a method of a private enum chosen per
            # language): not followed — no verdict
            local = {g['name'].split('::')[-1] for g in ctx.astq['functions'] if g['file'] == ofn['file']}
            hidden = sorted({str(x.get('f')).split('::')[-1] for x in vt.walk(merged[0][1]) if x.get('k') == 'call' and str(x.get('f')).split('::')[-1] in local})
            if hidden:
                raise core.Incomplete(f"M1: output_file_name computes the file stem through {hidden} (not expanded): the stem per language is not followed")
            h = vt.strip(merged[0][1])
            plain = isinstance(h, dict) and h.get('k') == 'atom' and h.get('root') == crate_p and not h.get('path')
            dot = merged[1][0] == 'lit' and merged[1][1].startswith('.')
            return ('plain' if plain and dot else 'modified'), vt.show(outs[0])
        return 'unknown', vt.show(outs[0])
    for v in sl['variants']:
        kind, txt = stem_of(v['name'])
        rep.check(kind != 'unknown', 'M1', f"file-name:{v['name']}", txt[:60], f"output_file_name: the file name for {v['name']} could not be determined (`{txt[:80]}`)", {'file': ofn['file'], 'line': ofn['line']})
    for l in ('TypeScript', 'Kotlin'):
        kind, txt = stem_of(l)
        rep.check(kind == 'plain', 'M1', f'file-name:{l}:unmodified-crate', 'file stem == crate name', f"{l} files are named by `{txt[:80]}` but imports name the unmodified crate — the stem must be the unmodified crate name (TypeScript imports \"./<crate>\", Kotlin imports <package>.<crate>)", {'file': ofn['file'], 'line': ofn['line']})
    # Kotlin package vs import
    kb = ctx.fn('Kotlin::begin_file', file='kotlin.rs')
    ki = ctx.fn('Kotlin::write_imports', file='kotlin.rs')
    pkg = None
    for s in kb['sites']:
        for alt in emit.site_alternatives(T, s):
            if any(c[0] == 'lit' and c[1].startswith('package ') for c in alt) and any(c[0] == 'atom' and 'crate_name' in c[1] for c in alt):
                pkg = alt
    if pkg is None:
        # the line may be written piecewise (`write!("package {}", pkg)`, then under `if multi_file` `write!(".{}", crate)`): what
        # a multi-file run emits, in source order — the pieces not excluded by `multi_file` — concatenated
        seq = []
        for s in sorted(kb['sites'], key=lambda x: x.get('line', 0)):
            excluded = any(fr.get('k') == 'if' and 'multi_file' in vt.show(fr.get('c')) and bool(fr.get('neg')) != ('!' in vt.show(fr.get('c')).replace(' ', '')[:2]) for fr in s.get('guard', []))
            if excluded:
                continue
            alts = emit.site_alternatives(T, s)
            if alts:
                seq += list(alts[0])
        merged = []
        for c in seq:
            if c[0] == 'lit' and merged and merged[-1][0] == 'lit':
                merged[-1] = ('lit', merged[-1][1] + c[1]) + tuple(merged[-1][2:])
            else:
                merged.append(c)
        for i, c in enumerate(merged[:-3]):
            if c[0] == 'lit' and c[1].endswith('package ') and merged[i + 1][0] == 'atom' and merged[i + 2][0] == 'lit' and merged[i + 2][1].startswith('.') and merged[i + 3][0] == 'atom' and 'crate_name' in merged[i + 3][1]:
                pkg = [('lit', 'package ')] + merged[i + 1:i + 4]
    imp = None
    for s in ki['sites']:
        for alt in emit.site_alternatives(T, s):
            if any(c[0] == 'lit' and c[1].startswith('import ') for c in alt):
                imp = alt
    ok = bool(pkg) and bool(imp)
    if ok:
        p = [c for c in pkg if c[0] != 'lit' or c[1] not in ('package ',)]
        ok = pkg[1] == ('atom', 'Kotlin.package', ()) and pkg[2][0] == 'lit' and pkg[2][1] == '.' and imp[1] == ('atom', 'Kotlin.package', ()) and imp[2][0] == 'lit' and imp[2][1] == '.'
    rep.check(ok, 'M1', 'kotlin:package-vs-import', 'package {pkg}.{crate}  /  import {pkg}.{crate}.{T}', f"Kotlin's package line `{emit.seq_str(pkg)[:70] if pkg else '?'}` and import line `{emit.seq_str(imp)[:70] if imp else '?'}` do not share the shape <package>.<crate>", {'file': ki['file'], 'line': ki['line']})


def m2(ctx, rep, T):
    f = ctx.fnx('used_imports', file='language/mod.rs')
    site = {'file': f['file'], 'line': f['line']}
    # every inserted name comes from the registered type set of the crate it is filed under
    ins = [c for c in f['calls'] if c.get('f') in ('insert', 'extend', 'or_insert') or (c.get('f') == 'BTreeSet::from')]
    n = 0
    for c in f['calls']:
        if c.get('f') in ('insert', 'extend') and isinstance(c.get('recv'), dict):
            n += 1
            src = vt.show(c['args'][-1])
            roots = prov_roots(c['args'][-1])
            ok = roots == {'all_types'}
            bad = False
            rep.check(ok and not bad, 'M2', f"import-name-source:{c['f']}#{n}", f'inserted from {src[:50]}', f"used_imports inserts `{src[:80]}` into the import list: imported names must be taken from the type set registered for the imported crate (all_types[crate]), not from what the source file merely mentions", {'file': f['file'], 'line': c.get('line')})
    rep.floor('M2', 'import insertions', n, 2)   # one for the glob branch, at least one for named imports (branches may be merged)
    txt = json.dumps(f['loops']) + json.dumps(f['calls']) + json.dumps(f['lets'])
    loop = [l for l in f['loops'] if l.get('kind') == 'for']
    ok = bool(loop) and re.search(r'base_crate.{0,200}"op": "!="|"op": "!=".{0,600}base_crate', json.dumps(loop[0]['over'])) is not None and 'crate_name' in json.dumps(loop[0]['over'])
    rep.check(ok, 'M2', 'no-self-import:loop', 'imports of the current crate are skipped', 'used_imports no longer skips imports that reference the current crate: a module would import from itself', site)
    # the re-export heuristic — any search through the *whole* crate table (`all_types.iter()…`), wherever it lives (a closure, a
    # helper function, inline) — must exclude the current crate: its chain carries a `<crate of the candidate> != <current crate>` test
    def scans_whole_table(v):
        return any(x.get('k') == 'call' and x.get('f') in ('iter', 'into_iter', 'keys') and isinstance(vt.unvar(x.get('recv')), dict) and vt.unvar(x['recv']).get('k') == 'atom'
                   and vt.unvar(x['recv']).get('root') == 'all_types' and not vt.unvar(x['recv']).get('path') for x in vt.walk(v))
    # judged where it matters: the names (and crate keys) that are put into the import list
    tops = [a_ for c in f['calls'] if c.get('f') in ('insert', 'extend', 'entry', 'or_insert', 'BTreeSet::from') for a_ in c.get('args', [])]
    scans = [t for t in tops if isinstance(t, dict) and scans_whole_table(t)]
    ok = bool(scans)
    data_p = next((p_['name'] for p_ in f['params'] if 'ParsedData' in str(p_.get('ty') or '')), 'data')

    def is_current_crate(x):
        x = vt.strip(x)
        while isinstance(x, dict) and x.get('k') in ('ref', 'deref', 'paren'):
            x = vt.strip(x.get('v'))
        return isinstance(x, dict) and x.get('k') == 'atom' and x.get('root') == data_p and (x.get('path') or [None])[-1] == 'crate_name'
    for t in scans:
        j = json.dumps(t)
        # some `<crate of the candidate> != <crate being generated>` test inside the scan: the right-hand side must be the
        # current crate itself (`data.crate_name`, also when handed to a helper), not e.g. the crate the import names
        def from_scan(x):
            # a key of the crate table being searched: an element of an iteration over `all_types`
            return any(y.get('k') == 'elem' and any(z.get('k') == 'atom' and z.get('root') == 'all_types' and not z.get('path') for z in vt.walk(y.get('of') or {})) for y in vt.walk(x))
        excl = [x for x in vt.walk(t) if x.get('k') == 'op' and x.get('op') == '!=' and len(x.get('args', [])) == 2
                and ((is_current_crate(x['args'][0]) and from_scan(x['args'][1])) or (is_current_crate(x['args'][1]) and from_scan(x['args'][0])))]
        if not (excl and re.search(r'"(find|find_map|filter|flat_map|filter_map)"', j)):
            ok = False
    rep.check(ok, 'M2', 'no-self-import:fallback', 're-export fallback never picks the current crate', "the re-export fallback of used_imports searches all crates without excluding the current one (`k != &data.crate_name`): a module-qualified reference to a type of the same crate makes the generated file import from itself", site)
    # prefix agreement between imported names and definitions (Kotlin)
    ki = ctx.fn('Kotlin::write_imports', file='kotlin.rs')
    imp = None
    for s in ki['sites']:
        for alt in emit.site_alternatives(T, s):
            if any(c[0] == 'lit' and c[1].startswith('import ') for c in alt):
                imp = alt
    has_prefix = bool(imp) and any(c[0] == 'atom' and c[1] == 'Kotlin.prefix' for c in imp)
    rep.check(has_prefix, 'M2', 'kotlin:import-prefix', 'imported name carries the prefix', "Kotlin imports `<package>.<crate>.<Type>` with the bare type name, while every definition is written as <prefix><Type>: with --kotlin-prefix the import names a type the imported file does not define", {'file': ki['file'], 'line': ki['line']})


def prov_roots(v, proj=(), depth=0):
    """Set of root parameters a value can be drawn from, over all its alternatives (`a.or_else(|| b)`, match arms, if/else),
    following receivers / payloads / elements and resolving tuple projections (`(crate, ty).1`); '?' marks an alternative
    whose origin cannot be followed."""
    if depth > 120 or not isinstance(v, dict):
        return {'?'}
    k = v.get('k')
    if k in ('var', 'try', 'some', 'paren', 'ref', 'deref'):
        return prov_roots(v.get('v'), proj, depth + 1)
    if k in ('payload', 'elem'):
        return prov_roots(v.get('of'), proj, depth + 1)
    if k == 'field':
        nm = str(v.get('name', ''))
        if nm.isdigit():
            return prov_roots(v.get('base'), (int(nm),) + tuple(proj), depth + 1)
        return prov_roots(v.get('base'), proj, depth + 1)
    if k == 'tuple':
        items = v.get('items') or []
        if proj and proj[0] < len(items):
            return prov_roots(items[proj[0]], proj[1:], depth + 1)
        return set().union(*[prov_roots(x, (), depth + 1) for x in items]) if items else {'?'}
    if k in ('cond',):
        return prov_roots(v.get('t'), proj, depth + 1) | prov_roots(v.get('e'), proj, depth + 1)
    if k == 'match':
        out = set()
        for a in v.get('arms', []):
            av = a.get('v')
            if isinstance(av, dict) and av.get('k') in ('never', 'none', 'unit'):
                continue
            out |= prov_roots(av, proj, depth + 1)
        return out or {'?'}
    if k == 'alt':
        return set().union(*[prov_roots(x, proj, depth + 1) for x in v.get('alts', [])]) if v.get('alts') else {'?'}
    if k == 'closure':
        return prov_roots(v.get('body'), proj, depth + 1)
    if k in ('none', 'unit', 'never'):
        return set()
    if k == 'call':
        f = v.get('f')
        if v.get('recv') is not None:
            if f in ('or_else', 'or', 'unwrap_or_else', 'unwrap_or', 'xor'):
                return prov_roots(v['recv'], proj, depth + 1) | set().union(*[prov_roots(a, proj, depth + 1) for a in v.get('args', [])])
            if f in ('map', 'and_then', 'filter_map', 'find_map', 'flat_map') and v.get('args'):
                clo = vt.strip(v['args'][0])
                if isinstance(clo, dict) and clo.get('k') == 'closure':
                    return prov_roots(clo.get('body'), proj, depth + 1)
            return prov_roots(v['recv'], proj, depth + 1)
        if f in ('BTreeSet::from', 'Some', 'Ok') and v.get('args'):
            return prov_roots(v['args'][0], proj, depth + 1)
        return {'?'}
    if k == 'array':
        return set().union(*[prov_roots(x, proj, depth + 1) for x in v.get('items', [])]) if v.get('items') else {'?'}
    if k == 'atom':
        return {v.get('root')}
    return {'?'}


def prov_root(v, depth=0):
    """Root parameter a value is drawn from, following receivers / payloads / elements (not look-up keys)."""
    while isinstance(v, dict) and depth < 80:
        depth += 1
        k = v.get('k')
        if k in ('var', 'try', 'some'):
            v = v['v']
        elif k in ('payload', 'elem'):
            v = v.get('of')
        elif k == 'field':
            v = v.get('base')
        elif k == 'call':
            if v.get('recv') is not None:
                v = v['recv']
            elif v.get('f') in ('BTreeSet::from', 'Some') and v.get('args'):
                v = v['args'][0]
            else:
                return None
        elif k in ('array', 'tuple'):
            v = v['items'][-1] if v.get('items') else None
        elif k == 'closure':
            v = v.get('body')
        elif k == 'atom':
            return v.get('root')
        else:
            return None
    return None


def m3(ctx, rep):
    # anchored on the public entry of the writer; local helpers (write_multiple_files, an `impl Output` method, a per-module
    # helper ...) are expanded, so the rule sees the folder-mode loop wherever it lives
    from .. import wiring
    wname = wiring.output_writer(ctx)['name']     # the compare-before-write writer, found by role
    local = tuple(g['name'].split('::')[-1] for g in ctx.astq['functions'] if g['file'] == 'cli/src/writer.rs' and g['name'].split('::')[-1] not in ('write_generated', wname))
    f = ctx.fnx('write_generated', file='cli/src/writer.rs', force=local, depth=4)
    site = {'file': f['file'], 'line': f['line']}

    def map_source(over):
        src, chain = vt.unvar(over), []
        while isinstance(src, dict) and (src.get('k') in ('ref', 'paren') or (src.get('k') == 'call' and src.get('recv') is not None)):
            if src.get('k') == 'call':
                chain.append(src.get('f'))
                src = vt.unvar(src['recv'])
            else:
                src = vt.unvar(src.get('v'))
        is_map = isinstance(src, dict) and src.get('k') == 'atom' and not src.get('path') and ('BTreeMap' in str(src.get('ty') or src.get('root_ty') or '') or src.get('root') == 'crate_parsed_data')
        return is_map, chain
    loops = [l for l in f['loops'] if l.get('kind') == 'for' and map_source(l['over'])[0]]
    DRIVERS = ('for_each', 'try_for_each')
    # the same loop written as `map.into_values().try_for_each(|data| { .. })`: the closure body runs once per element
    loops += [{'kind': 'for', 'over': c['recv'], 'line': c.get('line')} for c in f['calls'] if c.get('f') in DRIVERS and c.get('recv') is not None and map_source(c['recv'])[0]
              and c.get('args') and isinstance(vt.strip(c['args'][0]), dict) and vt.strip(c['args'][0]).get('k') == 'closure']

    def loop_frame(x):
        return x.get('k') == 'for' or (x.get('k') == 'closure' and x.get('via') in DRIVERS)
    ok = len(loops) == 1 and all(x in ('into_values', 'values', 'values_mut', 'into_iter', 'iter', 'iter_mut') for x in map_source(loops[0]['over'])[1])
    rep.check(ok, 'M3', 'write-loop:whole-map', 'for (_, parsed_data) in crate_parsed_data', f"folder mode iterates `{vt.show(loops[0]['over'])[:60] if loops else '?'}`: every crate's data must be written, unfiltered", site)
    lkey = vt.ckey(loops[0]['over']) if loops else None

    def in_loop(c):
        fr = [x for x in c['guard'] if x.get('k') == 'if' or loop_frame(x)]
        return len(fr) == 1 and loop_frame(fr[0]) and vt.ckey(fr[0].get('over')) == lkey
    gen = [c for c in f['calls'] if c.get('f') == 'generate_types' and any(loop_frame(x) for x in c['guard'])]
    wr = [c for c in f['calls'] if c.get('f') == wname and any(loop_frame(x) for x in c['guard'])]
    rep.check(len(gen) == 1 and in_loop(gen[0]) and len(wr) == 1 and in_loop(wr[0]), 'M3', 'write-loop:once-per-crate', 'one generate_types + one check_write_file per crate, unconditional', 'folder mode does not generate and write exactly once per crate, unconditionally', site)
    if wr:
        p = vt.show(wr[0]['args'][0])
        elem_fn = any(x.get('k') == 'atom' or x.get('k') == 'field' for x in vt.walk(wr[0]['args'][0])) and re.search(r'each\([^)]*\)[^ ]*\.file_name', p.replace(' ', '')) is not None
        rep.check(elem_fn and 'join' in p, 'M3', 'write-loop:path', 'path = output_folder ⊕ that crate\'s file_name', f'files are written to `{p[:80]}`', site)
    pg = [c for c in f['calls'] if c.get('f') == 'post_generation']
    rep.check(len(pg) == 1 and not [x for x in pg[0]['guard'] if loop_frame(x)], 'M3', 'post-generation-after-loop', 'post_generation once, after all files', 'post_generation is not called exactly once after the loop', site)
    # collector keyed by the file's own crate name (closure inside parallel_parse)
    pp = ctx.fnx('parallel_parse', file='cli/src/parse.rs')
    ent = [c for c in pp['calls'] if c.get('f') == 'entry']
    folds = [a for a in pp['assigns'] if a.get('op') == '+=']
    ok = False
    shown = '?'
    if ent and folds:
        keyv = vt.strip(ent[0]['args'][0])
        shown = vt.show(keyv)
        # the key is the crate_name of the very value that is merged under it
        ok = any(vt.is_field_of(keyv, a['value'], 'crate_name') for a in folds)
    rep.check(ok, 'M3', 'collector:key', 'results keyed by parsed_data.crate_name', f"the collector files results under `{shown[:60]}`, not under the crate name of the result being merged", {'file': pp['file'], 'line': pp['line']})


def m6(ctx, rep):
    """M6: every branch of used_imports that decides "these names are wanted from that crate" creates the import entry when
    it does not exist yet: an `entry(crate).and_modify(..)` is always completed by `or_insert* / or_default`, so that the first
    import of a crate (for instance one that is only reached through `use other::*`) is not silently dropped."""
    f = ctx.fn('used_imports', file='language/mod.rs')
    fx = ctx.x(f)
    site = {'file': f['file'], 'line': f['line']}
    n = 0
    for c in fx['calls']:
        if c.get('f') != 'and_modify':
            continue
        r = vt.unvar(c.get('recv'))
        if not (isinstance(r, dict) and r.get('k') == 'call' and r.get('f') == 'entry'):
            continue
        n += 1
        key = vt.ckey(c.get('recv'))
        completed = any(c2.get('f') in ('or_insert', 'or_insert_with', 'or_default', 'or_insert_with_key') and any(x.get('k') == 'call' and x.get('f') == 'and_modify' and vt.ckey(x.get('recv')) == key and x.get('line') == c.get('line') for x in vt.walk(c2.get('recv')))
                        for c2 in fx['calls'])
        branch = next((vt.show(fr.get('c'))[:60] for fr in reversed(c.get('guard', [])) if fr.get('k') == 'if'), '')
        rep.check(completed, 'M6', f"used_imports:entry-created#{n}", 'entry created when absent', f"used_imports only *extends* an existing import entry under `{branch}` (and_modify without or_insert/or_default): when no other import of that crate exists — a file that reaches another crate's types through `use other::*` alone — the import line is missing although the types are used", {'file': f['file'], 'line': c.get('line')})
    ents = [c for c in fx['calls'] if c.get('f') == 'entry']
    rep.floor('M6', 'import-entry updates in used_imports', len(ents), 2)


def m7(ctx, rep):
    """M7: an import names a type by the name its module defines it under.  The import list collected from `use` items carries
    Rust names; definitions (and, after reconcile, references) carry the serde(rename) name — so reconcile_aliases must also
    rewrite `import_types[..].type_name` through the rename table, keyed by the crate the import names."""
    ra = ctx.fnx('reconcile_aliases', file='reconcile.rs')
    site = {'file': ra['file'], 'line': ra['line']}
    rew = []
    for a in ra['assigns']:
        t = vt.show(a.get('target')).replace(' ', '')
        if not t.endswith('.type_name') or 'import_types' not in t:
            continue
        # the new name is looked up in the rename table by the import's own type name and then by the crate it names — read
        # from the value tree (the look-up may sit in a helper or behind a `match`/`if let` on its result)
        nodes = [x for x in vt.walk(a.get('value') or {})]
        gets = [vt.show(vt.strip(x['args'][0])).replace(' ', '') for x in nodes if x.get('k') == 'call' and x.get('f') == 'get' and x.get('recv') is not None and len(x.get('args', [])) == 1]
        table = any((x.get('k') == 'call' and str(x.get('f', '')).split('::')[-1] == 'collect_serde_renames') or (x.get('k') in ('var', 'atom') and 'serde_renamed' in (str(x.get('name') or ''), str(x.get('root') or ''))) for x in nodes)
        rew.append(table and any(g.endswith('.type_name') for g in gets) and any(g.endswith('.base_crate') for g in gets))
    rep.check(bool(rew) and all(rew), 'M7', 'reconcile_aliases:import-names-renamed', 'import names rewritten through the rename table, per imported crate', "reconcile_aliases leaves the names in `import_types` as written in the `use` items: for a type carrying serde(rename) the reference is renamed but the import still asks for the Rust name, which the defining module does not export — the import is dropped (TypeScript, Kotlin) and the renamed reference is left unresolved", site)
    put = [a for a in ra['assigns'] if vt.show(a.get('target')).replace(' ', '').endswith('.import_types')]
    rep.check(bool(put), 'M7', 'reconcile_aliases:imports-restored', 'import list handed on to generation', 'reconcile_aliases takes the import list of a crate and never puts it back: no imports are generated at all', site)


def m8(ctx, rep):
    """M8 (pending work is never thrown away): a traversal that keeps its pending nodes on a stack (`w.pop()` … `w.extend(children)`)
    may *assign* the stack (`w = children.collect()`) only where the stack is known to be empty — after `w.pop()` returned None
    (`if let Some(t) = w.pop() { .. return }` above it) or under `w.is_empty()`.  An assignment reached while nodes are still
    pending drops them: `all_reference_type_names` then misses the siblings of a generic argument, their imports are discarded and
    the generated module uses a type it does not import."""
    n = 0
    for f in ctx.astq['functions']:
        if not f['file'].startswith('core/src/') or f['file'].endswith('topsort.rs'):
            continue
        pops = [c for c in f['calls'] if c.get('f') == 'pop' and c.get('recv') is not None]
        if not pops:
            continue
        stacks = {vt.show(vt.strip(c['recv'])).replace(' ', '').lstrip('&').replace('mut', '') for c in pops}
        for a in f['assigns']:
            t = str(a.get('text', '')).replace(' ', '').lstrip('*')
            if t not in stacks or a.get('op') != '=' or a.get('via'):
                continue
            n += 1

            def empties(fr, w=t):
                if fr.get('k') == 'arm':
                    sc = vt.unvar(fr.get('scrut'))
                    return (isinstance(sc, dict) and sc.get('k') == 'call' and sc.get('f') == 'pop' and fr.get('guard') is None
                            and vt.show(vt.strip(sc.get('recv'))).replace(' ', '').lstrip('&').replace('mut', '') == w
                            and [str(x).split('::')[-1] for x in fr.get('variants', [])] == ['None'])
                c = vt.unvar(fr.get('c')) if fr.get('k') == 'if' else None
                if isinstance(c, dict) and c.get('k') == 'iflet' and [str(x).split('::')[-1] for x in c.get('variants', [])] == ['Some']:
                    sc = vt.unvar(c.get('scrut'))
                    if isinstance(sc, dict) and sc.get('k') == 'call' and sc.get('f') == 'pop' and vt.show(vt.strip(sc.get('recv'))).replace(' ', '').lstrip('&').replace('mut', '') == w:
                        return bool(fr.get('neg'))          # the branch / the code after the early exit where pop() gave None
                if isinstance(c, dict) and c.get('k') == 'call' and c.get('f') == 'is_empty' and vt.show(vt.strip(c.get('recv'))).replace(' ', '') == w:
                    return not fr.get('neg')
                return False
            ok = any(empties(fr) for fr in a.get('guard', []))
            rep.check(ok, 'M8', f"{f['name']}:{t}:assigned-only-when-empty", 'the pending stack is overwritten only where it is empty', f"{f['qual']} assigns its pending stack `{t}` (`{vt.show(a.get('value'))[:60]}`) at a point where nodes popped earlier may still have pending siblings: they are dropped — for `HashMap<Key, Vec<Item>>` the traversal never yields `Key`, its import is discarded and the module uses a type it does not import", {'file': f['file'], 'line': a.get('line')})
    rep.analysed['M8:worklist assignments judged'] = n
    if n == 0:
        rep.ok('M8', 'no-worklist-assignment', 'no traversal assigns a stack it also pops')


def m5(ctx, rep):
    """M5: the crate → registered-type-names table consulted by used_imports lists *every* crate: the re-export fallback
    searches all crates, so a crate left out of the table can never be found as the definer of a re-exported type."""
    f = ctx.fnx('all_types', file='cli/src/parse.rs')
    site = {'file': f['file'], 'line': f['line']}
    mp = f['params'][0]['name']
    chains = []
    cands = [(f.get('tail'), False)] + [(l.get('over'), True) for l in f['loops'] if l.get('kind') == 'for'] + [(c.get('recv'), False) for c in f['calls'] if c.get('f') in ('fold', 'collect', 'for_each', 'extend')]
    for v, is_loop in cands:
        v = vt.unvar(v)
        names = []
        while isinstance(v, dict) and (v.get('k') in ('ref', 'paren', 'deref') or (v.get('k') == 'call' and v.get('recv') is not None)):
            if v.get('k') == 'call':
                names.append(v.get('f'))
                v = vt.unvar(v['recv'])
            else:
                v = vt.unvar(v.get('v'))
        # a `for` loop may iterate the map itself (`for (k, v) in file_mappings`)
        if isinstance(v, dict) and v.get('k') == 'atom' and v.get('root') == mp and not v.get('path') and (names or is_loop):
            chains.append(names)
    if not chains:
        raise core.Incomplete('all_types: iteration over the crate map not found')
    bad = sorted({n for ch in chains for n in ch if n in ('filter', 'filter_map', 'take', 'skip', 'take_while', 'skip_while', 'step_by', 'find', 'nth')})
    conds = [fr for c in f['calls'] if c.get('f') in ('insert', 'extend', 'entry') for fr in c['guard'] if fr.get('k') == 'if']
    rep.check(not bad and not conds, 'M5', 'all_types:every-crate', 'every crate of the run is tabulated', f"all_types tabulates only some crates (adaptors {bad}{', conditional insertion' if conds else ''}): used_imports looks a type up in the crate an import names *and*, for re-exports, in all crates — a defining crate missing from the table makes its types un-importable and the generated file references undefined names", site)


def m4(ctx, rep):
    for name in ('visit_path', 'visit_item_use'):
        cands = ctx.fns(file='visitors.rs', name=name)
        if not cands:
            rep.fail('M4', f'{name}:exists', f'{name} override missing: imports are never collected', {'file': 'core/src/visitors.rs', 'line': 0})
            continue
        f = cands[0]
        default = [c for c in f['calls'] if c.get('f') == f'syn::visit::{name}']
        ok = False
        for c in default:
            frames = [fr for fr in c['guard'] if fr.get('k') in ('if', 'arm', 'for')]
            # the only admissible guard is the early exit for single-file mode
            rest = [fr for fr in frames if not (fr.get('early_exit') and 'multi_file' in vt.show(fr['c']))]
            if not rest:
                ok = True
        rep.check(ok, 'M4', f'{name}:keeps-descending', 'default visit on every multi-file path', f"{name} does not call syn::visit::{name} on every path in multi-file mode: qualified type paths nested inside generic arguments (crate_b::Page<crate_c::Leaf>) are never seen, so the type is used without being imported", {'file': f['file'], 'line': f['line']})
        rets = [r for r in f['returns'] if not any(fr.get('k') == 'if' and 'multi_file' in vt.show(fr['c']) for fr in r['guard'])]
        rep.check(not rets, 'M4', f'{name}:no-other-early-exit', 'single early exit (single-file mode)', f'{name} returns early on a multi-file path', {'file': f['file'], 'line': f['line']})
