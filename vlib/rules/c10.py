"""C10 — generated files are syntactically well-formed in their target language.

Decided: necessary conditions visible in the printers.  (B1) delimiter typestate: on every structured path of every
printer function the literal fragments it emits have net-zero () [] {} balance (branches of one decision must agree,
loop bodies must be neutral, helpers with an open/close effect must be composed to zero by their caller);
(B2) the Swift and Python keyword tables are supersets of frozen reference lists; (B3) every declaration-name hole
in Swift and the Python attribute-name hole pass through the backend's keyword escaper; (B4) the output file is
truncated on rewrite (no stale tail after the new, shorter content); (B5) concatenated doc lines re-emit the line
comment opener (shared with C15).  Not decided: conformance of whole files to the six grammars."""
import itertools
import json
import os
import re

from .. import wiring, special, inline, cg, core, emit, guards, vt
from . import c15, c17, c08


def net_of(text):
    t = re.sub(r'⟨[^⟩]*⟩', 'X', text)
    t = re.sub(r'"(?:[^"\\\n]|\\.)*"', '""', t)
    t = re.sub(r"'(?:[^'\\\n]|\\.)'", "''", t)
    return (t.count('{') - t.count('}'), t.count('(') - t.count(')'), t.count('[') - t.count(']'))


def add(a, b):
    return tuple(x + y for x, y in zip(a, b))


def sumsets(a, b):
    return {add(x, y) for x in a for y in b}


def frame_key(fr):
    k = fr.get('k')
    if k == 'if':
        return ('if', emit.sig(fr['c']))
    if k == 'arm':
        return ('arm', emit.sig(fr['scrut']))
    if k in ('for', 'while', 'loop'):
        return ('loop', fr.get('line'))
    if k == 'closure':
        return ('loop', ('closure', fr.get('id')))
    return (k, fr.get('line'))


def branch_of(fr):
    if fr.get('k') == 'if':
        return 'else' if fr.get('neg') else 'then'
    if fr.get('k') == 'arm':
        return 'arm:' + '|'.join(fr.get('variants', [])) + '#' + str(fr.get('idx'))
    return 'body'


_SPLIT = {'ctx': None, 'on': False}


class _ScrutSpec(special.EnumSpec):
    """`<this scrutinee value> is variant V` (the loop element, a field …), recognised by structural identity."""

    def __init__(self, key, variant):
        super().__init__(None, variant)
        self.key = key

    def is_scrut(self, v):
        return vt.ckey(vt.unvar(v)) == self.key

    def test(self, c, specs):
        if c.get('k') in ('iflet', 'matches') and self.is_scrut(c.get('scrut')) and not c.get('guard'):
            return self.variant in special._short(c.get('variants', []))
        return None


def by_variant(evs, depth):
    """Path-sensitive refinement of a loop body whose conditions test the variant of one enum value (the loop element) — directly
    (`if let V::Unit(_) = v`) or through a helper whose result depends on it (`if let Some(t) = self.content_type(v)?`): the body
    is analysed once per variant, with the conditions that the variant decides resolved.  None when no such value is found."""
    ctx = _SPLIT['ctx']
    cands = []
    for e in evs:
        for fr in e[0][depth:]:
            c = vt.unvar(fr.get('c')) if fr.get('k') == 'if' else None
            sc, vs = (c.get('scrut'), c.get('variants', [])) if isinstance(c, dict) and c.get('k') in ('iflet', 'matches') else ((fr.get('scrut'), fr.get('variants', [])) if fr.get('k') == 'arm' else (None, []))
            enums = {str(x).replace(' ', '').split('::')[-2] for x in vs if str(x).count('::') >= 1 and str(x).replace(' ', '').split('::')[-2][:1].isupper()}
            if sc is not None and len(enums) == 1 and isinstance(vt.unvar(sc), dict):
                cands.append((vt.ckey(vt.unvar(sc)), enums.pop()))
    for key, en in cands:
        item = next((i for i in ctx.astq['items'] if i['kind'] == 'enum' and i['name'] == en), None)
        if item is None:
            continue
        total = set()
        for var in item['variants']:
            spec = [_ScrutSpec(key, var['name'])]
            evs_v = []
            for frames, nets, line in evs:
                keep, dead = list(frames[:depth]), False
                for fr in frames[depth:]:
                    t = special.frames_truth(fr, spec) if fr.get('k') in ('if', 'arm') else None
                    if t is False:
                        dead = True
                        break
                    if t is None:
                        keep.append(fr)
                if not dead:
                    evs_v.append((keep, nets, line))
            total |= path_nets(evs_v, depth, [], '')
        return total
    return None


def path_nets(events, depth, problems, fname):
    """events: [(frames, netset, line)].  Returns the set of possible nets along the structured paths."""
    here = [e for e in events if len(e[0]) == depth]
    deeper = [e for e in events if len(e[0]) > depth]
    total = {(0, 0, 0)}
    for e in here:
        total = sumsets(total, e[1])
    groups = {}
    order = []
    for e in deeper:
        fr = e[0][depth]
        key = frame_key(fr)
        if key not in groups:
            groups[key] = {}
            order.append((key, fr))
        groups[key].setdefault(branch_of(fr), []).append(e)
    for key, fr in order:
        branches = groups[key]
        if key[0] == 'loop':
            s = set()
            for b, evs in branches.items():
                s |= path_nets(evs, depth + 1, problems, fname)
            if s != {(0, 0, 0)} and _SPLIT['on']:
                s2 = by_variant([e for evs in branches.values() for e in evs], depth + 1)
                if s2 is not None:
                    s = s2
            if s != {(0, 0, 0)}:
                problems.append((fr.get('line'), f"the body of the loop at line {fr.get('line')} has net delimiter balance {sorted(s)} per iteration (must be neutral)"))
            continue
        sets = {b: path_nets(evs, depth + 1, problems, fname) for b, evs in branches.items()}
        if fr.get('k') == 'if' and fr.get('early_exit'):
            # everything after an early return: no alternative branch
            for s in sets.values():
                total = sumsets(total, s)
            continue
        alts = set()
        for s in sets.values():
            alts |= s
        if fr.get('k') == 'if' and len(sets) == 1:
            alts |= {(0, 0, 0)}  # the branch without emission
        if fr.get('k') == 'arm':
            alts_present = alts
            # arms without emission contribute zero (other variants of the scrutinee)
            alts = alts_present | ({(0, 0, 0)} if fr.get('_has_silent_arms') else set())
        total = sumsets(total, alts)
    return total


def function_nets(ctx, T, f, callee_nets):
    events = []
    for s in f['sites']:
        R = guards.Renderer(T, {}, type_hook=lambda v: ['T'])
        texts = R.render(s['fmt'])
        nets = {net_of(x + ('\n' if s.get('nl') else '')) for x in texts}
        frames = [fr for fr in s['guard'] if fr.get('k') in ('if', 'arm', 'for', 'while', 'loop', 'closure')]
        events.append((frames, nets, s['line']))
    for c in f['calls']:
        g = callee_nets.get(c.get('f'))
        if g and c.get('recv') is not None:
            frames = [fr for fr in c['guard'] if fr.get('k') in ('if', 'arm', 'for', 'while', 'loop', 'closure')]
            events.append((frames, g, c.get('line')))
    # mark match frames that have arms without any emission
    by_match = {}
    for m in f['matches']:
        by_match[emit.sig(m['scrut'])] = m
    for ev in events:
        for fr in ev[0]:
            if fr.get('k') == 'arm':
                m = by_match.get(emit.sig(fr['scrut']))
                if m is not None:
                    emitting = {e2[0][i].get('idx') for e2 in events for i, f2 in enumerate(e2[0]) if f2.get('k') == 'arm' and emit.sig(f2['scrut']) == emit.sig(fr['scrut'])}
                    live = [a for ix, a in enumerate(m['arms']) if not a.get('diverges')]
                    fr['_has_silent_arms'] = len([ix for ix, a in enumerate(m['arms']) if ix not in emitting and not a.get('diverges')]) > 0
    problems = []
    nets = path_nets(events, 0, problems, f['qual'])
    return nets, problems


def run(ctx, rep):
    rep.explanation = ('Well-formedness decided on necessary conditions visible in the printers: a delimiter typestate over every structured path of every printer function '
                       '(literal text rendered from the templates, holes assumed balanced), keyword tables against frozen reference lists, escaper application at '
                       'declaration-name holes, truncating rewrite of the output file, and comment-opener re-emission when doc lines are joined.')
    rep.not_decided = 'conformance of the concatenated text to the six target grammars (a string-analysis problem beyond reach here); doc text escaping its comment is decided under C15.'
    rep.trusted = ['syn', 'astq evaluator / Renderer', 'rules/c10_keywords.json (target-language reserved words)']
    T = emit.Types(ctx.astq)
    rep.section(b1, ctx, rep, T)
    rep.section(b2, ctx, rep)
    rep.section(b3, ctx, rep, T)
    rep.section(b6, ctx, rep, T)
    rep.section(b7, ctx, rep, T)
    rep.section(b8, ctx, rep)
    # B4: truncating rewrite (shared with C17 W5)
    sub = core.Report('C10', rep.tier)
    c17.run(ctx, sub)
    for o in sub.obligations:
        if o['rule'] == 'W5' and wiring.output_writer(ctx)['name'] in o['key']:
            o2 = dict(o, rule='B4', key='B4:' + o['key'].split(':', 1)[1])
            rep.obligations.append(o2)
    # B5: joined doc lines (shared with C15 X3)
    sub = core.Report('C10', rep.tier)
    try:
        c15.run(ctx, sub)
    except core.Incomplete as e_:
        rep.incomplete.append('B5 (shared with C15): ' + str(e_))
    n = 0
    for o in sub.obligations:
        if o['rule'] == 'X3':
            rep.obligations.append(dict(o, rule='B5', key='B5:' + o['key'].split(':', 1)[1]))
    rep.ok('B5', 'doc-line-joins', 'joins of doc lines inside line comments re-emit the opener (C15 X3 instances copied when failing)')


def b1(ctx, rep, T):
    n = 0
    for be, (struct, file) in emit.BACKENDS.items():
        # loops over small literal tables are unrolled (data-driven emission = the same statements written out)
        fns = [inline.view(ctx, g, depth=0) for g in ctx.astq['functions'] if g['file'].endswith(file) and g['sites']]
        first = {}
        for f in fns:
            nets, problems = function_nets(ctx, T, f, {})
            first[f['name']] = (nets, problems)
        callee_nets = {name: nets for name, (nets, p) in first.items() if nets != {(0, 0, 0)}}
        # drivers without own sites but calling open/close helpers
        drivers = [g for g in ctx.astq['functions'] if g['file'].endswith(file) and g['name'] == 'generate_types']
        for f in fns + [d for d in drivers if d not in fns]:
            n += 1
            nets, problems = function_nets(ctx, T, f, {k: v for k, v in callee_nets.items() if k != f['name']})
            if problems:
                # correlated conditions in a loop body (opened under `not Unit`, closed under `content is Some`): once more on
                # the inlined view, one enum variant at a time
                raw = next((g for g in ctx.astq['functions'] if g['file'] == f['file'] and g['qual'] == f['qual'] and g['line'] == f['line']), None)
                if raw is not None:
                    fx = inline.view(ctx, raw)
                    _SPLIT.update(ctx=ctx, on=True)
                    try:
                        nets2, problems2 = function_nets(ctx, T, fx, {k: v for k, v in callee_nets.items() if k != f['name'] and k not in {q.split('::')[-1] for q in fx.get('inlined', [])}})
                    finally:
                        _SPLIT.update(on=False)
                    if not problems2:
                        nets, problems = nets2, problems2
            site = {'file': f['file'], 'line': f['line']}
            key = f"{be}:{f['name']}"
            for line, msg in problems:
                rep.fail('B1', key + ':loop', f"{be}: {f['qual']}: {msg}", {'file': f['file'], 'line': line})
            own, _ = first.get(f['name'], ({(0, 0, 0)}, []))
            if nets == {(0, 0, 0)}:
                rep.ok('B1', key, 'delimiters balance on every path', site)
            elif f['name'] in callee_nets and any(c.get('f') == f['name'] for g in ctx.astq['functions'] if g['file'].endswith(file) and g is not f for c in g['calls']):
                # an open/close helper: legitimate iff its callers compose its effect to zero on every path (checked at the caller)
                rep.ok('B1', key, f'helper with delimiter effect {sorted(own)} (must be composed to zero by its caller)', site)
            else:
                used = {k: sorted(v) for k, v in callee_nets.items() if any(c.get('f') == k for c in f['calls'])}
                rep.fail('B1', key, f"{be}: {f['qual']}: net delimiter balance (braces, parens, brackets) over its paths is {sorted(nets)} instead of always 0" + (f" — helper effects: {used}" if used else '') + ": on some path an opening delimiter is never closed or a closing one has no opener", site)
    rep.floor('B1', 'printer functions checked', n, 50)


def b2(ctx, rep):
    ref = json.load(open(os.path.join(core.VERIF, 'rules', 'c10_keywords.json')))
    sw = ctx.items('const', 'SWIFT_KEYWORDS', 'swift.rs')
    if not sw:
        raise core.Incomplete('SWIFT_KEYWORDS not found')
    have = set(sw[0]['strings'])
    missing = sorted(set(ref['swift']) - have)
    rep.check(not missing, 'B2', 'swift:keyword-table', f'{len(have)} keywords', f"SWIFT_KEYWORDS lacks the reserved word(s) {missing}: a field/variant/type of that name is emitted unescaped and the Swift file does not parse", {'file': sw[0]['file'], 'line': sw[0]['line']})
    lits, src = python_keyword_table(ctx)
    if not src:
        raise core.Incomplete('python.rs: keyword table (a list of string literals containing lambda/nonlocal) not found')
    missing = sorted(set(ref['python']) - lits)
    rep.check(not missing, 'B2', 'python:keyword-table', f'{len(lits)} keywords', f"the Python keyword list lacks {missing}: a field of that name is emitted as a bare attribute and the module does not parse", {'file': src[0]['file'], 'line': src[0]['line']})


def python_keyword_table(ctx):
    """The keyword table of the Python backend wherever it lives: a const/static item or a function of python.rs whose string
    literals include the tell-tale reserved words.  Returns (set of literals, [source items])."""
    srcs, lits = [], set()
    for it in ctx.astq['items']:
        if it['file'].endswith('python.rs') and it['kind'] in ('const', 'static') and {'lambda', 'nonlocal'} <= set(it.get('strings') or []):
            srcs.append(it)
            lits |= set(it['strings'])
    for g in ctx.astq['functions']:
        if not g['file'].endswith('python.rs') or g['sites']:
            continue
        ls = {l.get('v') for l in vt.lits(g.get('tail')) if l.get('t') == 'str'}
        for c in g['calls']:
            for a_ in c.get('args', []):
                ls |= {l.get('v') for l in vt.lits(a_) if l.get('t') == 'str'}
        for l_ in g.get('lets', []):
            ls |= {l.get('v') for l in vt.lits(l_.get('v')) if l.get('t') == 'str'}
        if {'lambda', 'nonlocal'} <= ls:
            srcs.append(g)
            lits |= ls
    return lits, srcs


def b6(ctx, rep, T):
    """B6: leading digits.  camelCase / PascalCase conversion drops leading underscores, so a variant such as `_1A` turns into
    `1a` — not an identifier.  (i) every leading-digit guard (`if name starts with a digit { "_" + name }`), wherever it
    lives (in a printer or in a name helper), tests the very string it emits: subject == else branch == the string embedded in
    the prefixed branch; (ii) every *declaration* of a variant identifier (`case x`, `data class X`, `object X`, `case class X`,
    `case object X`) whose name went through such a conversion is covered by a guard — inline, or through a guarded helper."""
    STRIPPING = {'to_camel_case', 'to_pascal_case'}
    n = 0
    guarded_helpers = {}
    # the back ends, and the helpers they share (language/mod.rs): a guard may live in one function used by several printers
    for be, file in [(b_, f_) for b_, (_st, f_) in emit.BACKENDS.items()] + [('mod', 'language/mod.rs')]:
        for f in [g for g in inline.file_views(ctx, file)]:
            if be == 'mod' and f['sites']:
                continue
            seen = set()
            trees = [(st['fmt'], st['line']) for st in f['sites']]
            if not f['sites']:
                trees += [(f.get('tail'), f['line'])] + [(l_.get('v'), l_.get('line', f['line'])) for l_ in f.get('lets', [])]
            triples = []   # (subject, prefixed value, plain value, line)
            for tree, line in trees:
                for x in vt.walk(tree):
                    if x.get('k') != 'cond' or 'is_ascii_digit' not in json.dumps(x.get('c'))[:4000]:
                        continue
                    k = vt.ckey(x)
                    if k in seen:
                        continue
                    seen.add(k)
                    subj = None
                    for y in vt.walk(vt.unvar(x.get('c'))):
                        if y.get('k') == 'call' and y.get('f') in ('chars', 'starts_with', 'bytes', 'as_bytes') and y.get('recv') is not None:
                            subj = y['recv']
                            break
                    if subj is not None:
                        triples.append((subj, x.get('t'), x.get('e'), line))
            # the same guard written as `match name.chars().next() { Some(c) if c.is_ascii_digit() => "_" + name, _ => name }`
            for m in f.get('matches', []):
                sc = vt.unvar(m.get('scrut'))
                if not (isinstance(sc, dict) and sc.get('k') == 'call' and sc.get('f') in ('next', 'first', 'nth')):
                    continue
                inner = vt.unvar(sc.get('recv'))
                if not (isinstance(inner, dict) and inner.get('k') == 'call' and inner.get('f') in ('chars', 'bytes', 'as_bytes') and inner.get('recv') is not None):
                    continue
                garm = [a for a in m['arms'] if 'Some' in ''.join(a.get('variants', [])) and 'is_ascii_digit' in (json.dumps(a.get('guard'))[:2000] + str(a.get('guard_text') or ''))]
                rest = [a for a in m['arms'] if a not in garm and (a['variants'] == ['_'] or 'None' in ''.join(a.get('variants', [])) or 'Some' in ''.join(a.get('variants', [])))]
                if len(garm) == 1 and rest:
                    k = ('match', vt.ckey(m.get('scrut')))
                    if k in seen:
                        continue
                    seen.add(k)
                    for a in rest[:1]:
                        triples.append((inner['recv'], garm[0].get('value'), a.get('value'), garm[0].get('line', f['line'])))
            for subj, tval, eval_, line in triples:
                    n += 1
                    sk = vt.ckey(subj)
                    else_ok = vt.ckey(eval_) == sk
                    then_ok = any(vt.ckey(h.get('hole')) == sk for y in vt.walk(vt.unvar(tval)) if y.get('k') == 'fmt' for h in y.get('parts', []) if isinstance(h, dict) and 'hole' in h)
                    ok = else_ok and then_ok
                    if not f['sites']:
                        guarded_helpers[f['name'].split('::')[-1]] = ok
                    rep.check(ok, 'B6', f"{be}:{f['name']}:digit-guard-subject", 'the tested string is the emitted string', f"{be}: {f['qual']} tests `{vt.show(subj)[:60]}` for a leading digit but emits `{vt.show(eval_)[:60]}` (prefixed form: `{vt.show(tval)[:50]}`) — the guard does not protect the printed identifier: a name whose *printed* form starts with a digit is emitted as is and the target file does not parse", {'file': f['file'], 'line': line})
    rep.floor('B6', 'leading-digit guards', n, 1)     # one shared helper is enough; what must be covered is counted below (declarations)
    # (ii) coverage of the declaration sites
    decl = re.compile(r'(\bcase |\bobject |\bdata class |\bcase class |\bcase object |\bclass )_?$')
    nd = 0
    for be, (_st, file) in emit.BACKENDS.items():
        fns = [inline.view(ctx, g) for g in ctx.astq['functions'] if g['file'].endswith(file)]
        for f in fns:
            env = emit.caller_env_deep(fns, f)
            for s in f['sites']:
                alts = list(emit.site_alternatives_c(T, s, env))
                cands = []
                for conds, seq in alts:
                    for ix, c in enumerate(seq):
                        if c[0] != 'atom' or not c[1].startswith('RustEnumVariantShared.id.original') or ix == 0 or seq[ix - 1][0] not in ('lit', 'lit*'):
                            continue
                        if not decl.search(seq[ix - 1][1]):
                            continue
                        strip = [v for v in c[2] if v in STRIPPING or v in guarded_helpers]
                        if not strip:
                            continue
                        cands.append((seq[ix - 1][1], c, conds))
                if not cands:
                    continue
                nd += 1
                via = list(cands[0][1][2])
                # a guarded helper protects the printed identifier only when it is applied to the *converted* name: after the last
                # underscore-stripping conversion on the way from the IR to the template
                last_strip = max([i for i, v in enumerate(via) if v in STRIPPING], default=-1)
                by_helper = any(guarded_helpers.get(v) and i > last_strip for i, v in enumerate(via))
                inline_guard = any(lit.endswith('_') for lit, c, conds in cands) and any(not lit.endswith('_') for lit, c, conds in cands) and any('is_ascii_digit' in json.dumps(conds, default=str) for lit, c, conds in cands)
                rep.check(by_helper or inline_guard, 'B6', f"{be}:{f['name']}:variant-declaration-guarded:{decl.search(cands[0][0]).group(1).strip()}", 'declared variant identifier is digit-guarded', f"{be}: {f['qual']} declares the variant identifier `{emit.seq_str([cands[0][1]])[:70]}` after `{cands[0][0][-14:]}` without a leading-digit guard: the conversion drops leading underscores, so a variant such as `_1A` is declared as `1a` / `1A`, which is not an identifier", {'file': f['file'], 'line': s['line']})
    rep.floor('B6', 'variant identifier declarations through an underscore-stripping conversion', nd, 4)


def b7(ctx, rep, T):
    """B7: a serde tag / content key is arbitrary JSON-key text (`tag = "my-type"`).  Wherever a backend writes it outside a
    string literal — as a property name, a field, a `case`, a constructor parameter — it must first pass a transform that makes
    it an identifier of the target language (quote-if-needed in TypeScript, a dash-removing replace, ...); otherwise a key that
    is not an identifier yields a file that does not parse.  Transform summaries are derived from the helper bodies."""
    from .. import transforms
    n = 0
    for be, (struct, file) in emit.BACKENDS.items():
        fns = [inline.view(ctx, g) for g in ctx.astq['functions'] if g['file'].endswith(file)]
        bad = {}
        for f in fns:
            env = emit.caller_env_deep(fns, f)
            for s in f['sites']:
                for conds, seq in emit.site_alternatives_c(T, s, env):
                    for ix, c in enumerate(seq):
                        if c[0] != 'atom' or not re.search(r'\b(tag_key|content_key)$', c[1]):
                            continue
                        facet = 'tag' if c[1].endswith('tag_key') else 'content'
                        left = seq[ix - 1] if ix > 0 else None
                        right = seq[ix + 1] if ix + 1 < len(seq) else None
                        in_string = bool(left and right and left[0] in ('lit', 'lit*') and right[0] in ('lit', 'lit*') and left[1].endswith('"') and right[1].startswith('"'))
                        n += 1
                        if in_string:
                            continue
                        safe = False
                        for v in c[2]:
                            sm = transforms.summarize(ctx, v)
                            if sm['kind'] == 'quote-select' or (sm['kind'] == 'replace' and '-' in (sm.get('lossy') or ())):
                                safe = True
                        if not safe:
                            bad.setdefault(facet, (f, s, seq, ix))
        for facet, (f, s, seq, ix) in sorted(bad.items()):
            rep.fail('B7', f'{be}:{facet}-key-as-identifier', f"{be}: {f['qual']} writes the serde {facet} key as bare target-language text (`{emit.seq_str(seq[max(0, ix - 1):ix + 2])[:80]}`, transforms: {list(seq[ix][2]) or 'none'}): a key that is not an identifier (`#[serde(tag = \"my-type\", content = \"the-content\")]`) produces a declaration that does not parse", {'file': f['file'], 'line': s['line']})
        for facet in ('tag', 'content'):
            if facet not in bad:
                rep.ok('B7', f'{be}:{facet}-key-as-identifier', 'key text outside string literals is made an identifier first (or never used there)')
    rep.floor('B7', 'template positions fed by the serde tag/content key', n, 20)


def b8(ctx, rep):
    """B8: the names a backend spells identifiers from (`Id.original` — Go's exported field names, Python's snake-cased fields —
    and the input of the rename rule) are the Rust identifier *without* its raw prefix: `r#type` must arrive as `type`
    (then keyword-escaped per language), never as `r#type`, whose `#` is not an identifier character anywhere."""
    from .. import parser_rules as pr
    f = ctx.fn('get_ident', file='parser.rs')
    site = {'file': f['file'], 'line': f['line']}
    ids = [s for s in f['structs'] if s['path'].split('::')[-1] == 'Id']
    if len(ids) != 1:
        raise core.Incomplete('B8: get_ident: Id construction not found')
    flds = ids[0]['v']['fields']
    p0 = f['params'][0]['name']
    rep.check(pr.raw_prefix_removed(flds.get('original'), p0, ctx), 'B8', 'Id.original:raw-prefix-removed', 'identifier with r# removed',
              f"get_ident: Id.original = `{vt.show(flds.get('original'))[:100]}` keeps the raw prefix: for a field written `r#type` Go emits `R#type string` and Python `r#type: str` — `#` is not an identifier character, the file does not parse", site)
    ins = [vt.unvar(n) for n in vt.walk(flds.get('renamed')) if isinstance(vt.unvar(n), dict) and vt.unvar(n).get('k') == 'call' and vt.unvar(n).get('f') == 'rename_all_to_case' and vt.unvar(n).get('args')]
    for i, n in enumerate(ins):
        rep.check(pr.raw_prefix_removed(n['args'][0], p0, ctx), 'B8', f'rename-input#{i}:raw-prefix-removed', 'rename rule applied to the identifier with r# removed',
                  f"get_ident: the rename rule is applied to `{vt.show(n['args'][0])[:100]}`, which keeps the raw prefix: `r#type` becomes a property / case name containing `#`", site)
    if not ins:
        raise core.Incomplete('B8: no rename_all_to_case application found in the value of Id.renamed')


def b3(ctx, rep, T):
    struct, file = emit.BACKENDS['swift']
    # inlined views: a local helper that builds the declared name (prefix + escaped name ...) is seen through
    fns = [inline.view(ctx, g) for g in ctx.astq['functions'] if g['file'].endswith(file)]
    decl = re.compile(r'(public let |case |public struct |enum |public typealias |\tcase )$')
    n = 0
    for f in fns:
        env = emit.caller_env_deep(fns, f)
        for s in f['sites']:
            for conds, seq in emit.site_alternatives_c(T, s, env):
                for ix, c in enumerate(seq):
                    if c[0] not in ('atom',):
                        continue
                    before = ''
                    j = ix - 1
                    while j >= 0 and seq[j][0] in ('lit', 'lit*', 'joined'):
                        if seq[j][0] != 'joined':
                            before = seq[j][1] + before
                        j -= 1
                    prev_is_lit = ix > 0 and seq[ix - 1][0] in ('lit', 'lit*', 'joined')
                    if not prev_is_lit:
                        continue
                    m = decl.search(before) or (seq[ix - 1][0] == 'joined' and any(x[0] == 'lit' and x[1].rstrip().endswith('case') for x in seq[:ix]))
                    if not m:
                        continue
                    if not re.search(r'\.id(\.(renamed|original))?$', c[1]) and 'prefix' not in c[1]:
                        continue
                    glued = False
                    if c[1].endswith('.prefix'):
                        # the prefix and the name are escaped together: the back-ticks must enclose the whole identifier
                        nxt = seq[ix + 1] if ix + 1 < len(seq) else None
                        if nxt and nxt[0] == 'atom':
                            glued = 'swift_keyword_aware_rename' in nxt[2] and 'swift_keyword_aware_rename' not in c[2]
                            c = nxt
                    n += 1
                    ok = 'swift_keyword_aware_rename' in c[2]
                    if glued:
                        role = ' '.join(re.sub(r'[^A-Za-z ]+', ' ', before).split()[-2:]) or 'case-list'
                        rep.fail('B3', f"swift:{f['name']}:{role}:{c[1].split('.')[0]}:escaped-with-prefix", f"swift: {f['qual']} escapes only the type name and puts the prefix in front of the result (`{emit.seq_str(seq[ix - 1:ix + 2])[:90]}`): with a non-empty prefix a reserved-word name yields prefix + back-ticked word (OP`Type`), which is not an identifier — the escaper must see prefix and name together", {'file': f['file'], 'line': s['line']})
                        continue
                    role = re.sub(r'[^A-Za-z ]+', ' ', before).split()[-2:] and ' '.join(re.sub(r'[^A-Za-z ]+', ' ', before).split()[-2:]) or 'case-list'
                    rep.check(ok, 'B3', f"swift:{f['name']}:{role}:{c[1].split('.')[0]}", f'{c[1]} escaped', f"swift: {f['qual']} writes the name `{c[1]}` after `{role}` without swift_keyword_aware_rename (path: {list(c[2]) or 'none'}): an identifier that is a Swift reserved word (default, in, case, …) makes the declaration unparsable", {'file': f['file'], 'line': s['line']})
    rep.floor('B3', 'swift declaration-name holes', n, 6)
    pf = ctx.fn('Python::write_field', file='python.rs')
    ok = False
    for s in pf['sites']:
        for seq in emit.site_alternatives(T, s):
            first = next((c for c in seq if c[0] == 'atom'), None)
            if first and 'python_property_aware_rename' in first[2]:
                ok = True
    rep.check(ok, 'B3', 'python:write_field:attribute-name', 'attribute name escaped', 'python: the field attribute name is not passed through python_property_aware_rename: a field named like a Python keyword (class, from, …) yields an unparsable class body', {'file': pf['file'], 'line': pf['line']})
    ppr = ctx.fn('python_property_aware_rename', file='python.rs')
    _lits, srcs = python_keyword_table(ctx)
    names = {x['name'].split('::')[-1] for x in srcs}
    psite = {'file': ppr['file'], 'line': ppr['line']}
    test = None
    for x in vt.walk(ppr.get('tail')):
        sc = x.get('scrut') if x.get('k') == 'match' else (x.get('c') if x.get('k') == 'cond' else None)
        sc = vt.unvar(sc) if sc is not None else None
        if isinstance(sc, dict) and sc.get('k') == 'call' and sc.get('f') == 'contains' and any(n_ in vt.show(sc.get('recv')) for n_ in names):
            test = (x, sc)
            break
    rep.check(test is not None, 'B3', 'python:escaper-uses-table', 'escaper consults the keyword table', 'python_property_aware_rename no longer decides by looking its argument up in the keyword table', psite)
    if test is not None:
        x, sc = test
        subj = sc['args'][0] if sc.get('args') else None
        while isinstance(vt.strip(subj), dict) and vt.strip(subj).get('k') in ('ref', 'deref', 'paren'):
            subj = vt.strip(subj).get('v')
        if x.get('k') == 'match':
            plain = next((a_['v'] for a_ in x['arms'] if 'lit:false' in a_.get('variants', [])), None)
        else:
            plain = x.get('e')
        same = subj is not None and plain is not None and vt.ckey(subj) == vt.ckey(plain)
        rep.check(same, 'B3', 'python:escaper-tests-emitted-name', 'the string looked up in the keyword table is the string emitted when it is not a keyword', f"python_property_aware_rename looks `{vt.show(subj)[:50]}` up in the keyword table but emits `{vt.show(plain)[:60]}` otherwise: the name that reaches the file (snake_case drops leading/trailing underscores and lower-cases: `from_`, `_global`, `In`) is never tested, so a reserved word is written as a bare attribute and the module does not parse", psite)
    skr = ctx.fn('swift_keyword_aware_rename', file='swift.rs')
    rep.check('SWIFT_KEYWORDS' in json.dumps(skr['tail']) + json.dumps(skr['calls']), 'B3', 'swift:escaper-uses-table', 'escaper consults the keyword table', 'swift_keyword_aware_rename no longer consults SWIFT_KEYWORDS', {'file': skr['file'], 'line': skr['line']})
