"""C15 — documentation text stays inside comments.

A taint rule.  Sources: the `comments` vectors of the IR (one raw doc string per `doc` attribute, whitespace-trimmed
at both ends by literal_to_string, interior line breaks preserved).  Taint is propagated through helper parameters
to a fixpoint; every template hole fed by doc text is a sink whose comment form (LINE `//` `///` `#`, BLOCK
`/** */`, DOCSTRING) is read from the literal text around it.  A sink must have a sanitiser adequate for its form
on the path from the source: LINE — line breaks split/replaced with the opener re-emitted; BLOCK — `*/`
neutralised; DOCSTRING — the triple quote neutralised.  Concatenation of several doc strings must re-emit the
opener after every line break it introduces."""
import json
import re

from .. import core, emit, vt

LINE_OPENERS = ['/// ', '// ', '# ', '///', '//', '#']


def doc_taint(ctx, T, fns):
    """{(fn qual, param name)} of parameters that receive doc text, by fixpoint over in-crate calls."""
    by_name = {}
    for f in fns:
        by_name.setdefault(f['name'], []).append(f)
    tainted = set()

    def is_doc(f, v):
        for x in vt.walk(v):
            if x.get('k') in ('atom', 'field', 'elem', 'payload'):
                c = T.canon_s(x)
                if c and (c.endswith('.comments') or c.endswith('.comments.[]')):
                    return True
            if x.get('k') == 'atom' and (f['qual'], x.get('root')) in tainted:
                return True
        return False

    changed = True
    while changed:
        changed = False
        for f in fns:
            for c in f['calls']:
                for g in by_name.get(c.get('f'), []):
                    params = [p['name'] for p in g['params'] if p['name'] != 'self']
                    args = c.get('args', [])
                    if len(params) != len(args):
                        continue
                    for p, a in zip(params, args):
                        if (g['qual'], p) not in tainted and is_doc(f, a):
                            tainted.add((g['qual'], p))
                            changed = True
    return tainted, is_doc


def form_of(seq, ix):
    """Comment form of the hole at ix from the literal text before it (skipping indentation components)."""
    before = ''
    for c in reversed(seq[:ix]):
        if c[0] in ('lit', 'lit*'):
            before = c[1] + before
            if before.strip(' \t') != '':
                if len(before) > 12:
                    break
        elif c[0] == 'joined':
            continue
        else:
            break
    after = ''
    for c in seq[ix + 1:]:
        if c[0] in ('lit', 'lit*'):
            after += c[1]
        else:
            break
    b = before.rstrip(' \t') + (' ' if before.endswith(' ') else '')
    if re.search(r'"""\n[ \t]*$', before) or re.search(r"'''\n[ \t]*$", before) or (re.search(r'^[ \t]*$', before.split('\n')[-1]) and '"""' in before and '"""' in ''.join(x[1] for x in seq[ix + 1:] if x[0] in ('lit', 'lit*'))):
        return 'DOCSTRING'
    if re.search(r'/\*\*? ?$', b) or re.search(r'(^|\n)[ \t]*\* $', before) or re.search(r' \* $', before):
        return 'BLOCK'
    for o in LINE_OPENERS:
        if b.endswith(o) or before.endswith(o):
            return 'LINE'
    return None


def block_context(f, s):
    """Comment form of a sink whose own template carries no opener: the block may be opened and closed by separate
    writes of the same function — an earlier write ending in `\"\"\"` / `/**` / `/*` and a later one with the matching
    closer, both on the same branch (same non-loop guards) as the sink."""
    def branch(x):
        return [(fr.get('k'), bool(fr.get('neg')), vt.ckey(fr.get('c')) if fr.get('k') == 'if' else str(fr.get('variants'))) for fr in x.get('guard', []) if fr.get('k') in ('if', 'arm')]

    def text(x):
        out = []
        for y in vt.walk(x['fmt']):
            if y.get('k') == 'fmt':
                out.extend(p2.get('lit', '') for p2 in y.get('parts', []) if isinstance(p2, dict))
        return ''.join(out)
    mine = branch(s)
    before = [x for x in f['sites'] if x['line'] < s['line'] and branch(x) == mine[:len(branch(x))]]
    after = [x for x in f['sites'] if x['line'] > s['line'] and branch(x) == mine[:len(branch(x))]]
    for opener, closer, form in (('"""', '"""', 'DOCSTRING'), ('/**', '*/', 'BLOCK'), ('/*', '*/', 'BLOCK')):
        o = [x for x in before if text(x).rstrip().endswith(opener) and not [fr for fr in x.get('guard', []) if fr.get('k') in ('for', 'while', 'loop')]]
        c = [x for x in after if closer in text(x) and not [fr for fr in x.get('guard', []) if fr.get('k') in ('for', 'while', 'loop')]]
        if o and c:
            # nothing between opener and sink may already close the block
            between = [x for x in f['sites'] if o[-1]['line'] < x['line'] < s['line'] and closer in text(x)]
            if not between:
                return form
    return None


def expand_via(ctx, via):
    """A local text → text helper on the path that is nothing but literal `replace`s of its argument (`fn escape(t) { t.replace("*/", "*\\/") }`)
    stands for those replaces: they are added to the path in the spelling the template layer uses for a direct `.replace(..)`."""
    out = list(via)
    for name in via:
        if not re.fullmatch(r'[A-Za-z_][A-Za-z0-9_]*', str(name)):
            continue
        gs = [g for g in ctx.astq['functions'] if g['name'].split('::')[-1] == name and g['file'].startswith('core/src/language/') and not g.get('loops') and not g.get('returns')]
        if len(gs) != 1:
            continue
        ps = [p_['name'] for p_ in gs[0]['params'] if p_['name'] != 'self']
        v = vt.unvar(gs[0].get('tail'))
        reps = []
        while isinstance(v, dict) and v.get('k') == 'call' and v.get('recv') is not None:
            if v.get('f') == 'replace' and len(v.get('args', [])) == 2:
                a0, a1 = vt.strip(v['args'][0]), vt.strip(v['args'][1])
                if not (isinstance(a0, dict) and a0.get('k') == 'lit' and isinstance(a1, dict) and a1.get('k') == 'lit'):
                    reps = None
                    break
                reps.append('replace(' + repr(str(a0.get('v'))) + ' → ' + repr(str(a1.get('v'))) + ')')
            elif v.get('f') not in ('to_string', 'to_owned', 'into', 'as_str', 'clone', 'as_ref'):
                reps = None
                break
            v = vt.unvar(v['recv'])
        if reps and isinstance(v, dict) and v.get('k') == 'atom' and len(ps) == 1 and v.get('root') == ps[0] and not v.get('path'):
            out += reps
    return out


def adequate(form, via, sep):
    vs = list(via)
    if form == 'LINE':
        for v in vs:
            if v in ('lines', 'split_terminator', "split('\\n')", 'split("\\n")') or v.startswith("replace('\\n'") or v.startswith("split('\\n'"):
                return True
        return False
    def neutralises(term):
        # some replace(term → R) on the path whose replacement text does not itself contain the terminator (R = `\\"""` still
        # ends the docstring: the back-slash escapes the first quote only) — a non-literal replacement is not judged adequate
        for v in vs:
            m = re.match(r"replace\((?P<p>'(?:[^'\\]|\\.)*'|\"(?:[^\"\\]|\\.)*\") → (?P<r>.*)\)$", v, re.S)
            if not m:
                continue
            import ast
            try:
                pat, repl = ast.literal_eval(m.group('p')), ast.literal_eval(m.group('r'))
            except Exception:
                continue
            if pat == term and term not in repl and term not in (repl + repl):
                return True
        return False
    if form == 'BLOCK':
        return neutralises('*/')
    if form == 'DOCSTRING':
        return neutralises('"""')
    return False


def run(ctx, rep):
    rep.explanation = ('Doc-comment containment decided as a taint analysis over the printers: sources are the IR `comments` vectors, taint is propagated through '
                       'helper parameters by fixpoint over resolved value trees, every template hole fed by doc text is a sink whose comment form is read '
                       'from the surrounding literal text, and the transforms between source and sink (derived from the code) must include a sanitiser '
                       'adequate for that form. Joins of several doc strings must re-emit the opener after each line break they introduce.')
    rep.not_decided = 'nothing beyond the frozen table of comment forms (LINE //, ///, #; BLOCK /* */; DOCSTRING """).'
    rep.trusted = ['syn', 'astq evaluator', 'comment-form table (target syntax)']
    T = emit.Types(ctx.astq)
    fns = [f for f in ctx.astq['functions'] if '/language/' in f['file']]
    tainted, is_doc = doc_taint(ctx, T, fns)
    rep.analysed['tainted_params'] = len(tainted)
    # --- source: literal_to_string trims both ends
    # asked of the inlined view of parse_comment_attrs — whichever helpers turn the attribute value into a string
    # (expr_to_string → literal_to_string on the pinned tree, one `string_literal_value` elsewhere) are expanded
    from .. import inline
    pca0 = ctx.fn('parse_comment_attrs', file='parser.rs')
    pca = inline.view(ctx, pca0, depth=4, force=('expr_to_string', 'literal_to_string'))
    ptxt = json.dumps(pca['calls']) + json.dumps(pca['matches']) + json.dumps(pca.get('tail'))
    rep.check('"doc"' in ptxt or "'doc'" in ptxt, 'X1', 'source:parse_comment_attrs', 'one string per #[doc = ..] attribute', 'parse_comment_attrs no longer selects the `doc` attribute values', {'file': pca['file'], 'line': pca['line']})
    source_trimmed = '"f": "trim"' in ptxt
    lts = pca0
    sinks = 0
    line_unsplit = False
    for f in fns:
        for s in f['sites']:
            if not is_doc(f, s['fmt']):
                continue
            for conds, seq in emit.site_alternatives_c(T, s):
                for ix, c in enumerate(seq):
                    if c[0] != 'atom':
                        continue
                    root_is_param = False
                    # tainted param atoms flatten to canon of their type (e.g. 'str', '[String]') — recognise via the site value
                    if not (c[1].endswith('.comments') or c[1].endswith('.comments.[]') or c[1] in ('str', '[String]', '[String].[]', 'String', 'Vec<String>', 'Vec<String>.[]')):
                        continue
                    sinks += 1
                    form = form_of(seq, ix) or block_context(f, s)
                    be = f['file'].split('/')[-1].replace('.rs', '')
                    sep = next((x[2] for x in reversed(seq[:ix]) if x[0] == 'joined'), None)
                    key = f"{be}:{f['name']}:{form or 'UNKNOWN'}" + (':joined' if sep is not None else '')
                    site = {'file': f['file'], 'line': s['line']}
                    if form is None:
                        # the text may pass through a string builder the evaluator does not model (a helper that assembles the
                        # comment in a loop with push_str): the comment form is then inside that helper — no verdict, not a finding
                        builders = [v for v in c[2] if any(g['name'].split('::')[-1] == v and g['file'] == f['file'] and g.get('loops') and any(cc.get('f') in ('push_str', 'push') for cc in g['calls']) for g in ctx.astq['functions'])]
                        if builders:
                            raise core.Incomplete(f"X2: {be}: in {f['qual']} the doc text passes through `{builders[0]}`, which assembles its result in a loop with push_str — the comment form written there is not modelled")
                        rep.fail('X2', key + ':' + re.sub(r'\W+', '_', emit.seq_str(seq[max(0, ix - 1):ix])[:20]), f"{be}: doc text reaches the output in {f['qual']} outside any recognised comment form: {emit.seq_str(seq)[:140]}", site)
                        continue
                    ok = adequate(form, expand_via(ctx, c[2]), sep)
                    if form == 'LINE' and not ok:
                        line_unsplit = True
                    # joins that introduce line breaks must re-emit the opener (or continuation) after them
                    if sep is not None and '\n' in sep:
                        tail = sep.split('\n')[-1]
                        if form == 'LINE' and not any(o.strip() in tail for o in LINE_OPENERS):
                            # the opener may instead be part of every joined element
                            j = max(i for i, x in enumerate(seq[:ix]) if x[0] == 'joined')
                            elem_has_opener = any(x[0] in ('lit', 'lit*') and any(o.strip() in x[1] for o in LINE_OPENERS) for x in seq[j:ix])
                            if not elem_has_opener:
                                rep.fail('X3', key + ':join', f"{be}: {f['qual']} joins several doc strings with {sep!r} inside a line comment without re-emitting the comment opener — every doc line after the first lands outside the comment", site)
                                continue
                        if form == 'BLOCK' and '*' not in tail and not ok:
                            pass
                    what = {'LINE': 'a line break inside one doc string (block doc comment, #[doc = "a\\nb"]) ends the line comment; the rest becomes code',
                            'BLOCK': 'a `*/` inside the doc text closes the block comment early',
                            'DOCSTRING': 'a `"""` (or trailing backslash) inside the doc text closes the docstring early'}[form]
                    rep.check(ok, 'X2', key, f'sanitised for {form} via {list(c[2])}', f"{be}: doc text is written into a {form} comment in {f['qual']} without a sanitiser for that form (transforms on the path: {list(c[2]) or 'none'}) — {what}", site)
    rep.floor('X2', 'doc-text sinks', sinks, 8)
    rep.check(source_trimmed or not line_unsplit, 'X1', 'source:trim', 'doc strings are trimmed at both ends',
              'doc strings are no longer trimmed at both ends on the way into the IR (parse_comment_attrs → expr_to_string → literal_to_string → trim) while line-comment sinks do not split lines: a `/**` doc whose text starts on the next line keeps its leading line break and the text lands outside the comment',
              {'file': lts['file'], 'line': lts['line']})
    rep.extra['evaluations'] = sinks
