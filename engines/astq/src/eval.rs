// Abstract evaluator: function body -> value trees, emission sites, calls, matches.
use crate::index::{attrs_json, elem_of, is_test_item, norm_ty, split_generic, split_top, tok, Index, Payload};
use serde_json::{json, Map, Value};
use std::collections::HashMap;
use syn::punctuated::Punctuated;
use syn::spanned::Spanned;
use syn::{Expr, Pat, Stmt, Token};

include!("eval_expr.rs");
include!("eval_macro.rs");

pub struct Ev<'a> {
    pub idx: &'a Index,
    pub env: Vec<HashMap<String, Value>>,
    pub guards: Vec<Value>,
    pub self_ty: Option<String>,
    pub closures: Vec<(syn::ExprClosure, Vec<HashMap<String, Value>>)>,
    pub silent: u32,
    pub depth: u32,
    // outputs
    pub sites: Vec<Value>,
    pub calls: Vec<Value>,
    pub matches: Vec<Value>,
    pub structs: Vec<Value>,
    pub assigns: Vec<Value>,
    pub returns: Vec<Value>,
    pub panics: Vec<Value>,
    pub indexes: Vec<Value>,
    pub lets: Vec<Value>,
    pub loops: Vec<Value>,
}

pub fn size(v: &Value) -> usize {
    match v {
        Value::Object(m) => 1 + m.values().map(size).sum::<usize>(),
        Value::Array(a) => a.iter().map(size).sum::<usize>(),
        _ => 0,
    }
}

/// `old ++ piece` as a format-like value (a literal piece becomes literal text).
pub fn concat_value(old: &Value, piece: &Value, line: usize) -> Value {
    let mut parts: Vec<Value> = Vec::new();
    let inner = {
        let mut x = old;
        while x.get("k").and_then(|k| k.as_str()) == Some("var") {
            match x.get("v") {
                Some(v) => x = v,
                None => break,
            }
        }
        x
    };
    if inner.get("k").and_then(|k| k.as_str()) == Some("fmt") && inner.get("concat").is_some() {
        if let Some(ps) = inner.get("parts").and_then(|p| p.as_array()) {
            parts = ps.clone();
        }
    } else {
        parts.push(json!({"hole":old,"named":null,"spec":""}));
    }
    let lit = {
        let mut x = piece;
        while matches!(x.get("k").and_then(|k| k.as_str()), Some("var")) {
            match x.get("v") {
                Some(v) => x = v,
                None => break,
            }
        }
        if x.get("k").and_then(|k| k.as_str()) == Some("lit") && matches!(x.get("t").and_then(|t| t.as_str()), Some("str") | Some("char")) {
            x.get("v").and_then(|v| v.as_str()).map(|s| s.to_string())
        } else {
            None
        }
    };
    match lit {
        Some(t) => parts.push(json!({"lit":t})),
        None => parts.push(json!({"hole":piece,"named":null,"spec":""})),
    }
    json!({"k":"fmt","line":line,"named_bindings":{},"parts":parts,"concat":true,"ty":"String"})
}

pub fn ty_of(v: &Value) -> Option<String> {
    v.get("ty").and_then(|t| t.as_str()).map(|s| s.to_string())
}

pub fn with_ty(mut v: Value, ty: Option<String>) -> Value {
    if let (Some(t), Value::Object(m)) = (ty, &mut v) {
        if !m.contains_key("ty") {
            m.insert("ty".into(), Value::String(t));
        }
    }
    v
}

fn line_of<T: Spanned>(t: &T) -> usize {
    t.span().start().line
}

pub fn eval_file(idx: &Index, rel: &str, f: &syn::File, out: &mut Vec<Value>) {
    eval_items(idx, rel, &f.items, "", out);
}

fn eval_items(idx: &Index, rel: &str, items: &[syn::Item], modpath: &str, out: &mut Vec<Value>) {
    for it in items {
        match it {
            syn::Item::Fn(f) => {
                if is_test_item(&f.attrs) {
                    continue;
                }
                out.push(eval_fn(idx, rel, modpath, None, None, &f.sig, &f.block, &f.attrs, &tok(&f.vis)));
                // nested fns inside bodies are handled by eval (Stmt::Item)
            }
            syn::Item::Impl(i) => {
                if is_test_item(&i.attrs) {
                    continue;
                }
                let self_ty = norm_ty(&i.self_ty);
                let trait_name = i.trait_.as_ref().map(|(_, p, _)| tok(p));
                for ii in &i.items {
                    if let syn::ImplItem::Fn(m) = ii {
                        if is_test_item(&m.attrs) {
                            continue;
                        }
                        let mut v = eval_fn(idx, rel, modpath, Some(self_ty.clone()), trait_name.clone(), &m.sig, &m.block, &m.attrs, &tok(&m.vis));
                        if let Value::Object(mm) = &mut v {
                            mm.insert("impl_attrs".into(), json!(attrs_json(&i.attrs)));
                        }
                        out.push(v);
                    }
                }
            }
            syn::Item::Trait(t) => {
                for ti in &t.items {
                    if let syn::TraitItem::Fn(m) = ti {
                        if let Some(b) = &m.default {
                            out.push(eval_fn(idx, rel, modpath, Some(t.ident.to_string()), Some(format!("{}(default)", t.ident)), &m.sig, b, &m.attrs, "pub"));
                        }
                    }
                }
            }
            syn::Item::Mod(m) => {
                if is_test_item(&m.attrs) {
                    continue;
                }
                if let Some((_, items)) = &m.content {
                    let mp = if modpath.is_empty() { m.ident.to_string() } else { format!("{}::{}", modpath, m.ident) };
                    eval_items(idx, rel, items, &mp, out);
                }
            }
            _ => {}
        }
    }
}

#[allow(clippy::too_many_arguments)]
fn eval_fn(
    idx: &Index,
    rel: &str,
    modpath: &str,
    self_ty: Option<String>,
    trait_name: Option<String>,
    sig: &syn::Signature,
    block: &syn::Block,
    attrs: &[syn::Attribute],
    vis: &str,
) -> Value {
    let mut ev = Ev {
        idx,
        env: vec![HashMap::new()],
        guards: vec![],
        self_ty: self_ty.clone(),
        closures: vec![],
        silent: 0,
        depth: 0,
        sites: vec![],
        calls: vec![],
        matches: vec![],
        structs: vec![],
        assigns: vec![],
        returns: vec![],
        panics: vec![],
        indexes: vec![],
        lets: vec![],
        loops: vec![],
    };
    let mut params = Vec::new();
    for inp in &sig.inputs {
        match inp {
            syn::FnArg::Receiver(_) => {
                params.push(json!({"name":"self","ty":self_ty.clone()}));
            }
            syn::FnArg::Typed(pt) => {
                let mut ty = norm_ty(&pt.ty);
                if ty == "Self" {
                    if let Some(s) = &self_ty {
                        ty = s.clone();
                    }
                }
                let names = pat_names(&pt.pat);
                for n in &names {
                    params.push(json!({"name":n,"ty":ty,"ty_text":tok(&pt.ty)}));
                }
                let atom = json!({"k":"atom","root":names.first().cloned().unwrap_or_default(),"root_ty":ty,"path":[],"ty":ty,"param":true});
                ev.bind_pat(&pt.pat, &atom);
            }
        }
    }
    let tail = ev.block(block, "fn_tail");
    let name = sig.ident.to_string();
    let qual = match &self_ty {
        Some(s) => format!("{}::{}", split_generic(s).0, name),
        None => name.clone(),
    };
    json!({
        "name": name, "qual": qual, "file": rel, "mod": modpath, "line": line_of(sig), "end_line": block.span().end().line,
        "self_ty": self_ty, "trait": trait_name, "vis": vis, "attrs": attrs_json(attrs),
        "params": params,
        "ret": match &sig.output { syn::ReturnType::Type(_, t) => Some(tok(t)), _ => None },
        "generics": tok(&sig.generics),
        "tail": tail,
        "sites": ev.sites, "calls": ev.calls, "matches": ev.matches, "structs": ev.structs,
        "assigns": ev.assigns, "returns": ev.returns, "panics": ev.panics, "indexes": ev.indexes,
        "lets": ev.lets, "loops": ev.loops,
    })
}

pub fn pat_names(p: &Pat) -> Vec<String> {
    let mut out = Vec::new();
    fn go(p: &Pat, out: &mut Vec<String>) {
        match p {
            Pat::Ident(i) => {
                out.push(i.ident.to_string());
                if let Some((_, s)) = &i.subpat {
                    go(s, out)
                }
            }
            Pat::Reference(r) => go(&r.pat, out),
            Pat::Paren(r) => go(&r.pat, out),
            Pat::Type(t) => go(&t.pat, out),
            Pat::Tuple(t) => t.elems.iter().for_each(|e| go(e, out)),
            Pat::TupleStruct(t) => t.elems.iter().for_each(|e| go(e, out)),
            Pat::Struct(s) => s.fields.iter().for_each(|f| go(&f.pat, out)),
            Pat::Slice(s) => s.elems.iter().for_each(|e| go(e, out)),
            Pat::Or(o) => {
                if let Some(f) = o.cases.first() {
                    go(f, out)
                }
            }
            _ => {}
        }
    }
    go(p, &mut out);
    out
}

/// Enum variant names a pattern can match (last path segments), "_" for catch-alls.
pub fn pat_variants(p: &Pat, out: &mut Vec<String>) {
    match p {
        Pat::Wild(_) => out.push("_".into()),
        Pat::Ident(i) => {
            if let Some((_, s)) = &i.subpat {
                pat_variants(s, out)
            } else {
                let n = i.ident.to_string();
                if n.chars().next().map(|c| c.is_uppercase()).unwrap_or(false) {
                    out.push(n)
                } else {
                    out.push("_".into())
                }
            }
        }
        Pat::Path(pp) => out.push(path_tail2(&pp.path)),
        Pat::TupleStruct(t) => {
            let outer = path_tail2(&t.path);
            // nested e.g. RustType::Special(SpecialRustType::Vec(_))
            let mut inner = Vec::new();
            for e in &t.elems {
                pat_variants_nested(e, &mut inner);
            }
            if inner.is_empty() {
                out.push(outer);
            } else {
                for i in inner {
                    out.push(format!("{}({})", outer, i));
                }
            }
        }
        Pat::Struct(s) => out.push(path_tail2(&s.path)),
        Pat::Or(o) => o.cases.iter().for_each(|c| pat_variants(c, out)),
        Pat::Reference(r) => pat_variants(&r.pat, out),
        Pat::Paren(r) => pat_variants(&r.pat, out),
        Pat::Lit(l) => out.push(format!("lit:{}", tok(&l.lit))),
        Pat::Tuple(t) => {
            let parts: Vec<String> = t
                .elems
                .iter()
                .map(|e| {
                    let mut v = Vec::new();
                    pat_variants(e, &mut v);
                    v.join("|")
                })
                .collect();
            out.push(format!("({})", parts.join(",")));
        }
        Pat::Slice(s) => out.push(format!("slice:{}", tok(s))),
        Pat::Rest(_) => out.push("..".into()),
        other => out.push(format!("?{}", tok(other))),
    }
}

fn pat_variants_nested(p: &Pat, out: &mut Vec<String>) {
    match p {
        Pat::TupleStruct(_) | Pat::Struct(_) | Pat::Path(_) => pat_variants(p, out),
        Pat::Or(o) => o.cases.iter().for_each(|c| pat_variants_nested(c, out)),
        Pat::Reference(r) => pat_variants_nested(&r.pat, out),
        Pat::Paren(r) => pat_variants_nested(&r.pat, out),
        _ => {}
    }
}

pub fn path_tail2(p: &syn::Path) -> String {
    let segs: Vec<String> = p.segments.iter().map(|s| s.ident.to_string()).collect();
    if segs.len() >= 2 {
        format!("{}::{}", segs[segs.len() - 2], segs[segs.len() - 1])
    } else {
        segs.join("::")
    }
}

impl<'a> Ev<'a> {
    pub fn lookup(&self, name: &str) -> Option<Value> {
        for sc in self.env.iter().rev() {
            if let Some(v) = sc.get(name) {
                return Some(v.clone());
            }
        }
        None
    }
    pub fn set_existing(&mut self, name: &str, v: Value) -> bool {
        for sc in self.env.iter_mut().rev() {
            if sc.contains_key(name) {
                sc.insert(name.to_string(), v);
                return true;
            }
        }
        false
    }
    pub fn define(&mut self, name: &str, v: Value) {
        self.env.last_mut().unwrap().insert(name.to_string(), v);
    }
    pub fn guard_json(&self) -> Value {
        Value::Array(self.guards.clone())
    }

    /// Bind the variables of `p` to the components of `v`.
    pub fn bind_pat(&mut self, p: &Pat, v: &Value) {
        match p {
            Pat::Ident(i) => {
                let name = i.ident.to_string();
                if name.chars().next().map(|c| c.is_uppercase()).unwrap_or(false) && i.subpat.is_none() {
                    return; // constant / unit variant pattern
                }
                let val = if size(v) > 6000 { json!({"k":"big","name":name,"ty":ty_of(v)}) } else { v.clone() };
                let kind = val.get("k").and_then(|k| k.as_str()).unwrap_or("");
                let val = if kind == "vecof" {
                    // locally built vectors keep their identity through the variable name
                    let mut v2 = val.clone();
                    if let Value::Object(m) = &mut v2 {
                        m.insert("name".into(), Value::String(name.clone()));
                    }
                    v2
                } else if matches!(kind, "atom" | "var" | "closure" | "big" | "unit" | "uninit") {
                    val
                } else {
                    json!({"k":"var","name":name,"v":val,"ty":ty_of(v)})
                };
                self.define(&name, val);
                if let Some((_, s)) = &i.subpat {
                    self.bind_pat(s, v);
                }
            }
            Pat::Reference(r) => self.bind_pat(&r.pat, v),
            Pat::Paren(r) => self.bind_pat(&r.pat, v),
            Pat::Type(t) => {
                let ty = norm_ty(&t.ty);
                let v2 = if ty.contains('_') && ty_of(v).is_some() { v.clone() } else { retype(v.clone(), ty) };
                self.bind_pat(&t.pat, &v2)
            }
            Pat::Tuple(t) => {
                let vty = ty_of(v);
                let parts: Vec<String> = match &vty {
                    Some(t) if t.starts_with('(') && t.ends_with(')') => split_top(&t[1..t.len() - 1]),
                    _ => vec![],
                };
                let items = v.get("items").and_then(|i| i.as_array()).cloned();
                for (i, e) in t.elems.iter().enumerate() {
                    let comp = if let (Some("tuple"), Some(items)) = (v.get("k").and_then(|k| k.as_str()), &items) {
                        items.get(i).cloned().unwrap_or(json!({"k":"unknown","text":"tuple-arity"}))
                    } else {
                        project(v, &i.to_string(), parts.get(i).cloned())
                    };
                    self.bind_pat(e, &comp);
                }
            }
            Pat::TupleStruct(t) => {
                let vname = path_tail2(&t.path);
                let last = t.path.segments.last().map(|s| s.ident.to_string()).unwrap_or_default();
                let vty = ty_of(v);
                let mut tys: Vec<Option<String>> = vec![None; t.elems.len()];
                match last.as_str() {
                    "Some" | "Ok" => {
                        if let Some(vt) = &vty {
                            tys[0] = elem_of(vt).or(Some(vt.clone()));
                        }
                    }
                    "Err" => {}
                    _ => {
                        let en = if t.path.segments.len() >= 2 {
                            t.path.segments[t.path.segments.len() - 2].ident.to_string()
                        } else {
                            vty.clone().map(|t| split_generic(&t).0).unwrap_or_default()
                        };
                        let en = if en == "Self" { self.self_ty.clone().unwrap_or(en) } else { en };
                        if let Some(vs) = self.idx.enums.get(&en) {
                            for (n, p) in vs {
                                if *n == last {
                                    if let Payload::Tuple(ts) = p {
                                        for (i, tt) in ts.iter().enumerate() {
                                            if i < tys.len() {
                                                tys[i] = Some(tt.clone());
                                            }
                                        }
                                    }
                                }
                            }
                        } else if let Some(fs) = self.idx.structs.get(&last) {
                            for (i, (_, tt)) in fs.iter().enumerate() {
                                if i < tys.len() {
                                    tys[i] = Some(tt.clone());
                                }
                            }
                        }
                    }
                }
                for (i, e) in t.elems.iter().enumerate() {
                    let comp = if last == "Some" || last == "Ok" {
                        // payload of an option-like value: keep the value itself, re-typed
                        let mut c = json!({"k":"payload","of":v,"variant":last});
                        if let Some(t) = &tys[0] {
                            c["ty"] = json!(t);
                        }
                        c
                    } else {
                        let mut c = json!({"k":"payload","of":v,"variant":vname,"pos":i});
                        if let Some(t) = &tys[i] {
                            c["ty"] = json!(t);
                        }
                        c
                    };
                    self.bind_pat(e, &comp);
                }
            }
            Pat::Struct(s) => {
                let vname = path_tail2(&s.path);
                let last = s.path.segments.last().map(|s| s.ident.to_string()).unwrap_or_default();
                let en = if s.path.segments.len() >= 2 { s.path.segments[s.path.segments.len() - 2].ident.to_string() } else { String::new() };
                let mut ftys: HashMap<String, String> = HashMap::new();
                let mut is_enum = false;
                if let Some(vs) = self.idx.enums.get(&en) {
                    for (n, p) in vs {
                        if *n == last {
                            is_enum = true;
                            if let Payload::Struct(fs) = p {
                                for (f, t) in fs {
                                    ftys.insert(f.clone(), t.clone());
                                }
                            }
                        }
                    }
                }
                if !is_enum {
                    if let Some(fs) = self.idx.structs.get(&last) {
                        for (f, t) in fs {
                            ftys.insert(f.clone(), t.clone());
                        }
                    }
                }
                for f in &s.fields {
                    let fname = match &f.member {
                        syn::Member::Named(i) => i.to_string(),
                        syn::Member::Unnamed(i) => i.index.to_string(),
                    };
                    let comp = if is_enum {
                        let mut c = json!({"k":"payload","of":v,"variant":vname,"field":fname});
                        if let Some(t) = ftys.get(&fname) {
                            c["ty"] = json!(t);
                        }
                        c
                    } else {
                        project(v, &fname, ftys.get(&fname).cloned())
                    };
                    self.bind_pat(&f.pat, &comp);
                }
            }
            Pat::Slice(s) => {
                let et = ty_of(v).and_then(|t| elem_of(&t));
                for e in &s.elems {
                    let comp = with_ty(json!({"k":"elem","of":v}), et.clone());
                    self.bind_pat(e, &comp);
                }
            }
            Pat::Or(o) => {
                if let Some(f) = o.cases.first() {
                    self.bind_pat(f, v)
                }
                // the other alternatives bind the same names to the payloads of their own variants: the value keeps the first
                // alternative's payload and lists the others under `also`, so that "the payload of variant V reaches …" can be
                // asked for every alternative
                let mut also: HashMap<String, Vec<Value>> = HashMap::new();
                for c in o.cases.iter().skip(1) {
                    self.env.push(HashMap::new());
                    self.bind_pat(c, v);
                    let scope = self.env.pop().unwrap_or_default();
                    for (n, val) in scope {
                        let inner = if val.get("k").and_then(|k| k.as_str()) == Some("var") { val.get("v").cloned().unwrap_or(Value::Null) } else { val };
                        if inner.get("k").and_then(|k| k.as_str()) == Some("payload") {
                            let mut d = json!({"variant": inner["variant"]});
                            if let Some(p) = inner.get("pos") {
                                d["pos"] = p.clone();
                            }
                            if let Some(p) = inner.get("field") {
                                d["field"] = p.clone();
                            }
                            also.entry(n).or_default().push(d);
                        }
                    }
                }
                for (n, ds) in also {
                    for scope in self.env.iter_mut().rev() {
                        if let Some(val) = scope.get_mut(&n) {
                            let is_var = val.get("k").and_then(|k| k.as_str()) == Some("var");
                            let target = if is_var { val.get_mut("v") } else { Some(val) };
                            if let Some(t) = target {
                                if t.get("k").and_then(|k| k.as_str()) == Some("payload") {
                                    t["also"] = Value::Array(ds.clone());
                                }
                            }
                            break;
                        }
                    }
                }
            }
            _ => {}
        }
    }
}

pub fn retype(mut v: Value, ty: String) -> Value {
    if let Value::Object(m) = &mut v {
        m.insert("ty".into(), Value::String(ty));
    }
    v
}

/// Field projection on a value: extends atoms, otherwise builds a field node.
pub fn project(v: &Value, field: &str, ty: Option<String>) -> Value {
    if v.get("k").and_then(|k| k.as_str()) == Some("atom") {
        let mut a = v.clone();
        if let Some(p) = a.get_mut("path").and_then(|p| p.as_array_mut()) {
            p.push(Value::String(field.to_string()));
        }
        if let Value::Object(m) = &mut a {
            m.remove("ty");
            m.remove("param");
            if let Some(t) = ty {
                m.insert("ty".into(), Value::String(t));
            }
        }
        return a;
    }
    let mut m = Map::new();
    m.insert("k".into(), json!("field"));
    m.insert("base".into(), v.clone());
    m.insert("name".into(), json!(field));
    if let Some(t) = ty {
        m.insert("ty".into(), json!(t));
    }
    Value::Object(m)
}
