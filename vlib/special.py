"""Specialisation of a function to one variant of its enum parameter.

Several rules are statements "per variant of SpecialRustType": what does `format_special_type` return for `Vec`, for
`Option`, for `U32`?  Reading the arm of a `match` only works while the function *is* one big match whose arms are the
results.  `per_variant` answers the question for any shape the evaluator can follow: early returns through a look-up
helper (`if let Some(s) = scalar_name(ty) { return Ok(s) }`), strings accumulated with `push_str` in a statement-level
match, nested helpers — by partially evaluating the function's exits (value trees + guard frames of the inlined view) under
the assumption "the parameter is variant V".  Conditions the assumption does not decide are kept (both outcomes), so the
result is a set of alternative value trees; alternatives that end in `never` (unreachable!/panic!/return elsewhere) are
dropped.  Nothing is executed: this is constant propagation of one fact over syntax trees.

The assumption is a *spec* object: `EnumSpec(param, variant)` ("the parameter is variant V") or `KeySpec(is_key, name)`
("this string — e.g. the last path segment's identifier in the type parser — equals `name`").  A KeySpec decides `match`es
over the key with literal arms, `==`/`matches!` tests, and membership tests against constant tables the evaluator has
resolved (`TABLE.contains(&key)`, `TABLE.iter().find(|(n, _)| *n == key)`, `TABLE.iter().any(..)`), so that a table-driven
dispatch and a one-arm-per-literal dispatch are the same function to the rules.  Several specs can be combined."""
import copy
import re

from . import vt

MAXD = 60


def _is_param(v, param):
    v = vt.unvar(v)
    while isinstance(v, dict) and v.get('k') in ('ref', 'deref', 'paren'):
        v = vt.unvar(v.get('v'))
    return isinstance(v, dict) and v.get('k') == 'atom' and v.get('root') == param and not v.get('path')


def _short(variants):
    return [str(x).split('::')[-1].split('(')[0] for x in variants]


def _shape(v):
    """'Some' / 'None' / 'Ok' / 'Err' for an evaluated value, else None."""
    v = vt.unvar(v)
    if not isinstance(v, dict):
        return None
    if v.get('k') == 'some':
        return 'Some'
    if v.get('k') == 'none':
        return 'None'
    if v.get('k') == 'call' and v.get('recv') is None and str(v.get('f')) in ('Some', 'Ok', 'Err') and len(v.get('args', [])) == 1:
        return str(v['f'])
    if v.get('k') == 'path' and str(v.get('text', '')).replace(' ', '').split('::')[-1] == 'None':
        return 'None'
    if v.get('k') == 'payload' and v.get('variant') in ('Some', 'Ok'):
        return None
    return None


def _payload(v):
    v = vt.unvar(v)
    if isinstance(v, dict) and v.get('k') == 'some':
        return v.get('v')
    if isinstance(v, dict) and v.get('k') == 'call' and v.get('args'):
        return v['args'][0]
    return None


def _lits(variants):
    return [str(x)[4:].strip().strip('"') for x in variants if str(x).startswith('lit:')]


def _const_items(v, d=0):
    """Items of a constant list the evaluator resolved (const/static array, slice or vec literal), else None."""
    while isinstance(v, dict) and d < 12:
        d += 1
        kk = v.get('k')
        if kk == 'var':
            v = v.get('v')
        elif kk in ('ref', 'deref', 'paren'):
            v = v.get('v')
        elif kk == 'call' and v.get('recv') is not None and v.get('f') in ('iter', 'into_iter', 'as_slice', 'as_ref', 'to_vec', 'copied', 'cloned'):
            v = v['recv']
        elif kk in ('array', 'vecof', 'tuple') and isinstance(v.get('items'), list):
            return [it.get('v') if isinstance(it, dict) and 'how' in it and 'v' in it else it for it in v['items']]
        else:
            return None
    return None


def _str_lit(v):
    v = vt.unvar(v)
    while isinstance(v, dict) and v.get('k') in ('ref', 'deref', 'paren'):
        v = vt.unvar(v.get('v'))
    if isinstance(v, dict) and v.get('k') == 'lit' and v.get('t') == 'str':
        return v.get('v')
    return None


def _table_keys(items):
    """String keys of a constant table: the items themselves, or the one tuple component that is a string literal everywhere."""
    if not items:
        return None
    flat = [_str_lit(x) for x in items]
    if all(x is not None for x in flat):
        return flat
    tuples = [vt.unvar(x) for x in items]
    if all(isinstance(t, dict) and t.get('k') == 'tuple' and t.get('items') for t in tuples):
        n = min(len(t['items']) for t in tuples)
        cols = [i for i in range(n) if all(_str_lit(t['items'][i]) is not None for t in tuples)]
        if len(cols) == 1:
            return [_str_lit(t['items'][cols[0]]) for t in tuples]
    return None


class EnumSpec:
    """`param` (a function parameter of enum type) is `variant`."""

    def __init__(self, param, variant):
        self.param, self.variant = param, variant

    def is_scrut(self, v):
        return _is_param(v, self.param)

    def arm_hits(self, a):
        """True: the arm's pattern takes the value; False: it does not."""
        vs = _short(a.get('variants', []))
        pat = str(a.get('pat', '')).strip()
        return bool(self.variant in vs or '_' in vs or (not [x for x in vs if x] and pat.replace('_', 'a').isidentifier()) or (vs and all(not x[:1].isupper() for x in vs)))

    def arm_frame(self, fr):
        vs = _short(fr.get('variants', []))
        named = [x for x in vs if x[:1].isupper()]
        if self.variant in vs:
            return True
        if '_' in vs or not named:
            return None    # catch-all: holds iff no earlier arm took the variant — decided by the caller through arm order
        return False

    def names_it(self, a):
        return self.variant in _short(a.get('variants', []))

    def test(self, c, specs):
        if c.get('k') == 'iflet' and _is_param(c.get('scrut'), self.param):
            return self.variant in _short(c.get('variants', []))
        if c.get('k') == 'matches' and _is_param(c.get('scrut'), self.param) and not c.get('guard'):
            return self.variant in _short(c.get('variants', []))
        return None


class KeySpec:
    """The string recognised by `is_key(value)` equals `name`."""

    def __init__(self, is_key, name, aliases=()):
        self._is_key, self.name, self.aliases = is_key, name, tuple(aliases)

    def is_key(self, v):
        if self._is_key(v):
            return True
        v = vt.unvar(v) if not (isinstance(v, dict) and v.get('k') == 'var' and v.get('name') in self.aliases) else v
        w = v
        while isinstance(w, dict) and w.get('k') in ('ref', 'deref', 'paren'):
            w = w.get('v')
        return isinstance(w, dict) and ((w.get('k') == 'var' and w.get('name') in self.aliases) or (w.get('k') == 'atom' and w.get('root') in self.aliases and not w.get('path')))

    def is_scrut(self, v):
        return self.is_key(v)

    def with_alias(self, name):
        return KeySpec(self._is_key, self.name, self.aliases + (name,))

    def arm_hits(self, a):
        lits = _lits(a.get('variants', []))
        if lits:
            return self.name in lits
        vs = _short(a.get('variants', []))
        pat = str(a.get('pat', '')).strip()
        return bool('_' in vs or pat.replace('_', 'a').isidentifier())

    def arm_frame(self, fr):
        lits = _lits(fr.get('variants', []))
        if lits:
            return self.name in lits
        return None

    def names_it(self, a):
        return self.name in _lits(a.get('variants', []))

    def _member(self, table_value):
        keys = _table_keys(_const_items(table_value))
        return None if keys is None else (self.name in keys)

    def _closure_eq(self, clo):
        """closure body `<x> == <key>`: the closure selects the table entry whose string equals the key."""
        clo = vt.unvar(clo)
        if not (isinstance(clo, dict) and clo.get('k') == 'closure'):
            return False
        b = vt.unvar(clo.get('body'))
        while isinstance(b, dict) and b.get('k') in ('paren',):
            b = vt.unvar(b.get('v'))
        return isinstance(b, dict) and b.get('k') == 'op' and b.get('op') == '==' and len(b.get('args', [])) == 2 and (self.is_key(b['args'][0]) != self.is_key(b['args'][1]))

    def project(self, v):
        """`TABLE.iter().find(|(n, _)| *n == key)` → `Some(row)`: component i of the row selected by the key."""
        if not (v.get('k') == 'field' and str(v.get('name', '')).isdigit()):
            return None
        b = vt.unvar(v.get('base'))
        if not (isinstance(b, dict) and b.get('k') == 'payload' and str(b.get('variant', '')).split('::')[-1] == 'Some'):
            return None
        sc = vt.unvar(b.get('of'))
        if not (isinstance(sc, dict) and sc.get('k') == 'call' and sc.get('f') == 'find' and sc.get('recv') is not None and len(sc.get('args', [])) == 1 and self._closure_eq(sc['args'][0])):
            return None
        items = _const_items(sc['recv'])
        keys = _table_keys(items)
        if keys is None or self.name not in keys:
            return None
        row = vt.unvar(items[keys.index(self.name)])
        i = int(v['name'])
        if isinstance(row, dict) and row.get('k') == 'tuple' and i < len(row.get('items', [])):
            return row['items'][i]
        return None

    def lookup(self, v):
        """`TABLE.iter().find(|(n, _)| *n == key)` as a value: some(row) / none, when the table is a resolved constant."""
        if not (v.get('k') == 'call' and v.get('f') == 'find' and v.get('recv') is not None and len(v.get('args', [])) == 1 and self._closure_eq(v['args'][0])):
            return None
        items = _const_items(v['recv'])
        keys = _table_keys(items)
        if keys is None:
            return None
        if self.name in keys:
            return {'k': 'some', 'v': items[keys.index(self.name)]}
        return {'k': 'none'}

    def test(self, c, specs):
        kk = c.get('k')
        if kk == 'op' and c.get('op') in ('==', '!=') and len(c.get('args', [])) == 2:
            a, b = c['args']
            for x, y in ((a, b), (b, a)):
                if self.is_key(x) and _str_lit(y) is not None:
                    return (_str_lit(y) == self.name) == (c['op'] == '==')
            return None
        if kk == 'matches' and self.is_key(c.get('scrut')) and not c.get('guard'):
            lits = _lits(c.get('variants', []))
            return (self.name in lits) if lits else None
        if kk == 'call' and c.get('recv') is not None:
            f = c.get('f')
            if f == 'contains' and len(c.get('args', [])) == 1 and self.is_key(c['args'][0]):
                return self._member(c['recv'])
            if f == 'any' and len(c.get('args', [])) == 1 and self._closure_eq(c['args'][0]):
                return self._member(c['recv'])
            if f in ('is_some', 'is_none') and not c.get('args'):
                inner = vt.unvar(c['recv'])
                if isinstance(inner, dict) and inner.get('k') == 'call' and inner.get('f') in ('find', 'position') and inner.get('recv') is not None and len(inner.get('args', [])) == 1 and self._closure_eq(inner['args'][0]):
                    m = self._member(inner['recv'])
                    return None if m is None else (m == (f == 'is_some'))
            return None
        if kk == 'iflet':
            sc = vt.unvar(c.get('scrut'))
            if isinstance(sc, dict) and sc.get('k') == 'call' and sc.get('f') in ('find', 'position') and sc.get('recv') is not None and len(sc.get('args', [])) == 1 and self._closure_eq(sc['args'][0]):
                m = self._member(sc['recv'])
                vs = _short(c.get('variants', []))
                if m is None or not vs:
                    return None
                return m if 'Some' in vs else (not m if 'None' in vs else None)
        return None


class OptSpec:
    """An Option-valued expression recognised by `is_lookup(value)` (a table look-up such as `self.type_map().get(base)`) is
    `Some` (some=True) or `None`."""

    def __init__(self, is_lookup, some):
        self._is_lookup, self.some = is_lookup, bool(some)
        self.want = 'Some' if some else 'None'

    def is_scrut(self, v):
        v = vt.unvar(v)
        while isinstance(v, dict) and v.get('k') == 'call' and v.get('recv') is not None and v.get('f') in ('cloned', 'copied', 'as_ref', 'as_deref', 'as_mut') and not v.get('args'):
            v = vt.unvar(v['recv'])
        return isinstance(v, dict) and bool(self._is_lookup(v))

    def arm_hits(self, a):
        vs = _short(a.get('variants', []))
        pat = str(a.get('pat', '')).strip()
        return bool(self.want in vs or '_' in vs or (not vs and pat.replace('_', 'a').isidentifier()))

    def arm_frame(self, fr):
        vs = _short(fr.get('variants', []))
        if self.want in vs:
            return True
        if '_' in vs or not vs:
            return None
        return False

    def names_it(self, a):
        return self.want in _short(a.get('variants', []))

    def test(self, c, specs):
        kk = c.get('k')
        if kk in ('iflet', 'matches') and self.is_scrut(c.get('scrut')) and not c.get('guard'):
            vs = _short(c.get('variants', []))
            if 'Some' in vs and 'None' not in vs:
                return self.some
            if 'None' in vs and 'Some' not in vs:
                return not self.some
            return None
        if kk == 'call' and c.get('recv') is not None and c.get('f') in ('is_some', 'is_none') and not c.get('args') and self.is_scrut(c['recv']):
            return self.some == (c['f'] == 'is_some')
        return None


def cond_truth(c, specs, depth=0):
    """True / False / None for a boolean condition (or `if let` test) under the specs; three-valued `!`, `&&`, `||`."""
    c = vt.unvar(c)
    while isinstance(c, dict) and c.get('k') == 'paren':
        c = vt.unvar(c.get('v'))
    if not isinstance(c, dict) or depth > 12:
        return None
    if c.get('k') == 'lit' and c.get('t') == 'bool':
        return bool(c.get('v')) if not isinstance(c.get('v'), str) else c.get('v') == 'true'
    if c.get('k') == 'op' and c.get('op') == '!' and len(c.get('args', [])) == 1:
        t = cond_truth(c['args'][0], specs, depth + 1)
        return None if t is None else (not t)
    if c.get('k') == 'op' and c.get('op') in ('&&', '||') and len(c.get('args', [])) == 2:
        a, b = (cond_truth(x, specs, depth + 1) for x in c['args'])
        if c['op'] == '&&':
            return False if (a is False or b is False) else (True if (a is True and b is True) else None)
        return True if (a is True or b is True) else (False if (a is False and b is False) else None)
    for sp in specs:
        t = sp.test(c, specs)
        if t is not None:
            return t
    return None


def _pat_alts(pat):
    """Top-level alternatives of a pattern text: [(variant name or '_' or binding, nested string literal or None)]."""
    alts, depth, cur, in_str = [], 0, '', False
    for ch in str(pat):
        if ch == '"':
            in_str = not in_str
        if not in_str:
            if ch in '([{':
                depth += 1
            elif ch in ')]}':
                depth -= 1
            elif ch == '|' and depth == 0:
                alts.append(cur)
                cur = ''
                continue
        cur += ch
    alts.append(cur)
    out = []
    for a in alts:
        a = a.strip()
        m = re.fullmatch(r'([\w\s:]+?)\s*\(\s*"((?:[^"\\]|\\.)*)"\s*\)', a)
        if m:
            out.append((m.group(1).replace(' ', '').split('::')[-1], m.group(2)))
        else:
            out.append((a.split('(')[0].replace(' ', '').split('::')[-1], None))
    return out


def _nested_literal_verdict(a, sp, specs, scrut):
    """For arms such as `Some("snake_case") => …` over an Option scrutinee: True (taken for sure) / False (not taken) / None
    (pattern has no nested string literal: the ordinary test applies).  The literal is compared with the KeySpec whose key is
    the payload of this scrutinee."""
    pat = str(a.get('pat', ''))
    if '"' not in pat or _lits(a.get('variants', [])):
        return None
    want = getattr(sp, 'want', None) or getattr(sp, 'variant', None)
    ks = next((x for x in specs if isinstance(x, KeySpec) and x.is_key({'k': 'payload', 'of': scrut, 'variant': 'Some'})), None)
    verdict = False
    for name, lit in _pat_alts(pat):
        if name == '_' or (name[:1].islower() and lit is None):
            return True
        if name != want:
            continue
        if lit is None:
            return True
        if ks is None:
            verdict = None if verdict is False else verdict
        elif ks.name == lit:
            return True
    return verdict if verdict is False else 'maybe'


def _take_arms(arms, sp, specs, scrut=None):
    """The arms of a match over the spec's scrutinee that can be taken, in order (several when an arm guard is undecided)."""
    taken = []
    for a in arms:
        nv = _nested_literal_verdict(a, sp, specs, scrut) if scrut is not None else None
        if nv is False:
            continue
        if nv == 'maybe':
            taken.append(a)
            continue
        if nv is None and not sp.arm_hits(a):
            continue
        g = a.get('guard')
        if g is None:
            taken.append(a)
            break
        specs2 = specs
        pat = str(a.get('pat', '')).strip()
        if isinstance(sp, KeySpec) and pat.replace('_', 'a').isidentifier():
            specs2 = [x.with_alias(pat) if x is sp else x for x in specs]
        t = cond_truth(g, specs2)
        if t is False:
            continue
        taken.append(a)
        if t is True:
            break
    return taken


def evs(v, specs, depth=0):
    """Alternatives (list of value trees) of v under the specs.  `never` alternatives are kept as {'k':'never'} so that
    callers can prune whole exits."""
    if depth > MAXD or not isinstance(v, dict):
        return [v]
    kk = v.get('k')
    if kk == 'var':
        # keep the name of the local: rules tell "the same local used twice" from "two draws" by it
        return [dict(v, v=x) if isinstance(x, dict) and x.get('k') != 'never' and v.get('name') else x for x in evs(v.get('v'), specs, depth + 1)]
    if kk in ('paren',):
        return evs(v.get('v'), specs, depth + 1)
    if kk == 'never':
        return [v]
    if kk == 'match':
        for sp in specs:
            if sp.is_scrut(v.get('scrut')):
                outs = []
                for a in _take_arms(v.get('arms', []), sp, specs, v.get('scrut')):
                    outs += evs(a.get('v'), specs, depth + 1)
                return outs[:24] or [{'k': 'never'}]
        # match on an evaluated Option/Result
        outs = []
        for sc in evs(v.get('scrut'), specs, depth + 1):
            sh = _shape(sc)
            hit = False
            scv = vt.unvar(sc)
            if sh is None and isinstance(scv, dict) and scv.get('k') == 'path' and str(scv.get('text', '')).replace(' ', '').split('::')[-1][:1].isupper():
                # the scrutinee evaluated to a unit variant (`Self::Pascal`): the arm that names it (or the first catch-all) is taken
                vn = str(scv['text']).replace(' ', '').split('::')[-1]
                for a in v.get('arms', []):
                    vs = _short(a.get('variants', []))
                    pat = str(a.get('pat', '')).strip()
                    if (vn in vs or '_' in vs or (not vs and pat.replace('_', 'a').isidentifier())) and a.get('guard') is None:
                        outs += evs(a.get('v'), specs, depth + 1)
                        hit = True
                        break
                if hit:
                    continue
            if sh is not None:
                for a in v.get('arms', []):
                    vs = _short(a.get('variants', []))
                    if (sh in vs or '_' in vs) and a.get('guard') is None:
                        outs += evs(_bind_payload(a.get('v'), sc), specs, depth + 1)
                        hit = True
                        break
            if not hit:
                for a in v.get('arms', []):
                    outs += evs(a.get('v'), specs, depth + 1)
        return outs[:24] or [{'k': 'never'}]
    if kk == 'cond':
        c = vt.unvar(v.get('c'))
        t = cond_truth(c, specs)
        if t is not None:
            return evs(v['t'] if t else v.get('e'), specs, depth + 1)
        if isinstance(c, dict) and c.get('k') == 'iflet':
            outs = []
            for sc in evs(c.get('scrut'), specs, depth + 1):
                sh = _shape(sc)
                if sh is None:
                    outs += evs(v.get('t'), specs, depth + 1) + evs(v.get('e'), specs, depth + 1)
                elif sh in _short(c.get('variants', [])):
                    outs += evs(v.get('t'), specs, depth + 1)
                else:
                    outs += evs(v.get('e'), specs, depth + 1)
            return outs[:24]
        # undecided condition: specialise both branches but keep the conditional (rules tabulate it themselves)
        ts, es = evs(v.get('t'), specs, depth + 1), evs(v.get('e'), specs, depth + 1)
        return [dict(v, t=t_, e=e_) for t_ in ts[:4] for e_ in es[:4]][:16]
    if kk == 'alt':
        outs = []
        guards_ = v.get('alt_guards') or [[] for _ in v.get('alts', [])]
        for a, frames in zip(v.get('alts', []), guards_):
            # alternatives of a function result: early returns (with the frames they sit under) in source order, then the tail
            ts = [frames_truth(fr, specs) for fr in frames if fr.get('k') in ('if', 'arm')]
            if any(t is False for t in ts):
                continue
            outs += evs(a, specs, depth + 1)
            if frames and ts and all(t is True for t in ts):
                break       # this early return is taken for sure: what follows it is not reached
        return outs[:24] or [{'k': 'never'}]
    if kk == 'fmt':
        alts = [[]]
        for p in v.get('parts', []):
            if 'lit' in p:
                alts = [a + [p] for a in alts]
            else:
                subs = evs(p.get('hole'), specs, depth + 1)
                if any(isinstance(s, dict) and s.get('k') == 'never' for s in subs) and len(subs) == 1:
                    return [{'k': 'never'}]
                subs = [s for s in subs if not (isinstance(s, dict) and s.get('k') == 'never')] or subs
                alts = [a + [dict(p, hole=s)] for a in alts for s in subs[:6]][:24]
        return [dict(v, parts=a) for a in alts]
    if kk == 'try':
        outs = []
        for x in evs(v.get('v'), specs, depth + 1):
            # `r.map(Some).map_err(f)?` — whatever r is, what survives the `?` is Some(<its Ok payload>)
            y = vt.unvar(x)
            while isinstance(y, dict) and y.get('k') == 'call' and y.get('recv') is not None and y.get('f') in ('map_err', 'or_else', 'context', 'with_context'):
                y = vt.unvar(y['recv'])
            if isinstance(y, dict) and y.get('k') == 'call' and y.get('f') == 'map' and y.get('recv') is not None and len(y.get('args', [])) == 1:
                a0 = vt.unvar(y['args'][0])
                if isinstance(a0, dict) and a0.get('k') == 'path' and str(a0.get('text', '')).replace(' ', '').split('::')[-1] == 'Some':
                    outs.append({'k': 'some', 'v': {'k': 'try', 'v': y['recv'], 'ty': None}})
                    continue
            sh = _shape(x)
            if isinstance(x, dict) and x.get('k') == 'never':
                outs.append(x)
            elif sh in ('Ok', 'Some'):
                outs.append(_payload(x))          # `Ok(a)?` is `a`
            elif sh in ('Err', 'None'):
                outs.append({'k': 'never'})       # `Err(e)?` leaves the function: no value here
            else:
                outs.append(dict(v, v=x))
        live = [o for o in outs if not (isinstance(o, dict) and o.get('k') == 'never')]
        return live or outs
    if kk == 'some':
        return [dict(v, v=x) if not (isinstance(x, dict) and x.get('k') == 'never') else x for x in evs(v.get('v'), specs, depth + 1)]
    if kk == 'call':
        outs = [v]
        for sp in specs:
            r = sp.lookup(v) if hasattr(sp, 'lookup') else None
            if r is not None:
                return [r]
        if v.get('recv') is not None and v.get('f') in ('and_then', 'map', 'filter', 'or_else', 'unwrap_or', 'unwrap_or_else', 'unwrap_or_default', 'map_or', 'map_or_else', 'ok_or', 'ok_or_else', 'is_some', 'is_none') and depth < 40:
            # Option adaptors over a receiver whose shape the assumption decides
            res = []
            for r in evs(v['recv'], specs, depth + 1)[:6]:
                sh = _opt_shape(r, specs)
                res.append(_adapt_option(v, r, sh, specs, depth))
            if all(x is not None for x in res):
                return [y for x in res for y in x][:16]
        if v.get('recv') is None and isinstance(v.get('callee_value'), dict) and depth < 40:
            # a call of a local that holds a function: a path (`RenameExt::to_x`) or a closure literal
            outs2 = []
            for cv in evs(v['callee_value'], specs, depth + 1)[:6]:
                t = vt.unvar(cv)
                while isinstance(t, dict) and t.get('k') in ('ref', 'deref', 'paren'):
                    t = vt.unvar(t.get('v'))
                if isinstance(t, dict) and t.get('k') == 'path':
                    outs2.append({'k': 'call', 'f': str(t.get('text', '')).replace(' ', ''), 'args': v.get('args', []), 'recv': None, 'line': v.get('line'), 'ty': v.get('ty')})
                elif isinstance(t, dict) and t.get('k') == 'closure' and isinstance(t.get('body'), dict):
                    from .inline import _subst_closure_params
                    names = [(p_.get('names') or ['_'])[0] for p_ in t.get('params', [])]
                    cenv = {n: a for n, a in zip(names, v.get('args', [])) if n and n != '_'}
                    outs2 += evs(_subst_closure_params(t['body'], cenv), specs, depth + 1)
                else:
                    outs2.append(v)
            return outs2[:12]
        if v.get('recv') is None and str(v.get('f')) in ('Some', 'Ok', 'Err') and len(v.get('args', [])) == 1:
            return [dict(v, args=[x]) if not (isinstance(x, dict) and x.get('k') == 'never') else x for x in evs(v['args'][0], specs, depth + 1)]
        if v.get('recv') is not None and v.get('f') in vt.TRANSPARENT_CALLS | {'to_owned', 'to_string', 'into', 'as_str', 'clone', 'as_deref', 'as_ref'}:
            return [dict(v, recv=x) if not (isinstance(x, dict) and x.get('k') == 'never') else x for x in evs(v['recv'], specs, depth + 1)]
        if v.get('recv') is None and str(v.get('f', '')).replace(' ', '').split('::')[-1][:1].isupper() and v.get('args'):
            # a tuple-variant / tuple-struct constructor: its value is the constructor applied to the specialised arguments
            combos = [[]]
            for a in v['args']:
                subs = [x for x in evs(a, specs, depth + 1)]
                if subs and all(isinstance(x, dict) and x.get('k') == 'never' for x in subs):
                    return [{'k': 'never'}]
                subs = [x for x in subs if not (isinstance(x, dict) and x.get('k') == 'never')] or subs
                combos = [c + [x] for c in combos for x in subs[:4]][:12]
            return [dict(v, args=c) for c in combos]
        if v.get('recv') is not None and isinstance(v['recv'], dict) and depth < 40:
            # an ordinary method call: its receiver is specialised (adaptor chains over a value that depends on the assumption)
            rs = [x for x in evs(v['recv'], specs, depth + 1)[:6]]
            rs = [x for x in rs if not (isinstance(x, dict) and x.get('k') == 'never')] or rs
            args_alts = [[]]
            for a in v.get('args', []):
                subs = evs(a, specs, depth + 1)[:3] if isinstance(a, dict) and a.get('k') != 'closure' else [a]
                subs = [x for x in subs if not (isinstance(x, dict) and x.get('k') == 'never')] or subs
                args_alts = [c + [x] for c in args_alts for x in subs][:6]
            return [dict(v, recv=r, args=c) if not (isinstance(r, dict) and r.get('k') == 'never') else r for r in rs for c in args_alts][:12]
        return outs
    if kk == 'field':
        for sp in specs:
            r = sp.project(v) if hasattr(sp, 'project') else None
            if r is not None:
                return evs(r, specs, depth + 1)
        if not isinstance(v.get('base'), dict):
            return [v]
        outs = []
        for b in evs(v['base'], specs, depth + 1)[:8]:
            if isinstance(b, dict) and b.get('k') == 'never':
                outs.append(b)
                continue
            t = vt.unvar(b)
            if isinstance(t, dict) and t.get('k') == 'tuple' and str(v.get('name', '')).isdigit() and int(v['name']) < len(t.get('items', [])):
                outs.append(t['items'][int(v['name'])])      # component of a tuple value that is known
            else:
                outs.append(dict(v, base=b))
        live = [o for o in outs if not (isinstance(o, dict) and o.get('k') == 'never')]
        return live or outs
    if kk == 'payload':
        for sp in specs:
            if isinstance(sp, OptSpec) and sp.is_scrut(v.get('of')):
                if str(v.get('variant', '')).split('::')[-1] != sp.want:
                    return [{'k': 'never'}]      # `Some` payload of a look-up assumed to miss
                return [v]
        outs = []
        want = str(v.get('variant', '')).replace(' ', '')
        for o in evs(v.get('of'), specs, depth + 1):
            oc = vt.unvar(o)
            if isinstance(oc, dict) and oc.get('k') == 'call' and oc.get('recv') is None and '::' in want and v.get('pos') is not None:
                # payload of a value that is a known constructor call: `match Shape::Fields(x) { Shape::Fields(f) => f }`
                fn_ = str(oc.get('f', '')).replace(' ', '').replace('Self::', want.rsplit('::', 1)[0].split('::')[-1] + '::')
                if fn_.split('::')[-2:] == want.split('::')[-2:] and int(v['pos']) < len(oc.get('args', [])):
                    outs += evs(oc['args'][int(v['pos'])], specs, depth + 1)
                    continue
                if fn_.split('::')[-2:-1] == want.split('::')[-2:-1] and fn_.split('::')[-1] != want.split('::')[-1] and fn_.split('::')[-1][:1].isupper():
                    outs.append({'k': 'never'})   # another variant of the same enum: this arm is not taken
                    continue
            sh = _shape(o)
            if sh is not None and sh != v.get('variant'):
                outs.append({'k': 'never'})      # `Some` payload of a value that is `None` on this path: path impossible
                continue
            pl = _payload(o) if sh == v.get('variant') else None
            outs.append(pl if pl is not None else dict(v, of=o))
        live = [o for o in outs if not (isinstance(o, dict) and o.get('k') == 'never')]
        return live or outs
    if kk == 'elem' and isinstance(v.get('of'), dict) and v.get('via') in ('map', 'and_then', 'filter', 'map_or', 'map_or_else', 'is_some_and', 'then', 'inspect', 'unwrap_or_else', 'or_else'):
        # the closure parameter of an Option adaptor whose receiver is known to be `Some(x)` on this path is x
        outs = []
        for x in evs(v['of'], specs, depth + 1)[:8]:
            if isinstance(x, dict) and x.get('k') == 'never':
                outs.append(x)
                continue
            pl = _payload(x) if _shape(x) == 'Some' else None
            outs.append(pl if pl is not None else dict(v, of=x))
        live = [o for o in outs if not (isinstance(o, dict) and o.get('k') == 'never')]
        return live or outs
    if kk in ('elem', 'ref', 'deref') and isinstance(v.get('of' if kk == 'elem' else 'v'), dict):
        key = 'of' if kk == 'elem' else 'v'
        return [dict(v, **{key: x}) if not (isinstance(x, dict) and x.get('k') == 'never') else x for x in evs(v[key], specs, depth + 1)[:8]]
    if kk == 'tuple' and isinstance(v.get('items'), list):
        combos = [[]]
        for it in v['items']:
            subs = evs(it, specs, depth + 1) if isinstance(it, dict) else [it]
            subs = [x for x in subs if not (isinstance(x, dict) and x.get('k') == 'never')] or subs
            combos = [c + [x] for c in combos for x in subs[:4]][:12]
        return [dict(v, items=c) for c in combos]
    return [v]


def _opt_shape(r, specs):
    """'Some' / 'None' for an evaluated receiver: by its own shape, or because a spec says so."""
    sh = _shape(r)
    if sh in ('Some', 'None'):
        return sh
    for sp in specs:
        if isinstance(sp, OptSpec) and sp.is_scrut(r):
            return sp.want
    t = vt.unvar(r)
    if isinstance(t, dict) and t.get('k') == 'call' and t.get('recv') is not None and t.get('f') in ('as_deref', 'as_ref', 'cloned', 'copied', 'as_mut') and not t.get('args'):
        return _opt_shape(t['recv'], specs)
    return None


def _adapt_option(call, recv, shape, specs, depth):
    """Value alternatives of `recv.<adaptor>(..)` when recv is known to be Some / None; None when undecided."""
    f, args = call.get('f'), call.get('args', [])
    if shape is None:
        return None

    def body_of(a):
        a = vt.unvar(a)
        return a.get('body') if isinstance(a, dict) and a.get('k') == 'closure' else None
    if f in ('is_some', 'is_none'):
        return [{'k': 'lit', 't': 'bool', 'v': (shape == 'Some') == (f == 'is_some'), 'ty': 'bool'}]
    if shape == 'None':
        if f in ('and_then', 'map', 'filter'):
            return [{'k': 'none'}]
        if f in ('unwrap_or', 'ok_or') and args:
            return evs(args[0], specs, depth + 1) if f == 'unwrap_or' else None
        if f in ('unwrap_or_else', 'or_else') and args and body_of(args[0]) is not None:
            return evs(body_of(args[0]), specs, depth + 1)
        if f == 'map_or' and len(args) == 2:
            return evs(args[0], specs, depth + 1)
        if f == 'map_or_else' and len(args) == 2 and body_of(args[0]) is not None:
            return evs(body_of(args[0]), specs, depth + 1)
        return None
    # Some(x): closure parameters of these adaptors are modelled by the evaluator as the element of the receiver, so the body
    # already speaks about the payload
    if f == 'and_then' and args and body_of(args[0]) is not None:
        return evs(body_of(args[0]), specs, depth + 1)
    if f == 'map' and args and body_of(args[0]) is not None:
        return [{'k': 'some', 'v': x} if not (isinstance(x, dict) and x.get('k') == 'never') else x for x in evs(body_of(args[0]), specs, depth + 1)]
    if f in ('map_or', 'map_or_else') and len(args) == 2 and body_of(args[1]) is not None:
        return evs(body_of(args[1]), specs, depth + 1)
    if f in ('unwrap_or', 'unwrap_or_else', 'unwrap_or_default'):
        pl = _payload(recv) if _shape(recv) == 'Some' else None
        return [pl] if pl is not None else [{'k': 'payload', 'of': recv, 'variant': 'Some'}]
    if f == 'or_else':
        return [recv]
    return None


def ev(v, param, variant, depth=0):
    return evs(v, [EnumSpec(param, variant)], depth)


def simplify(v):
    """Alternatives of a value with no assumption at all: `?` on known `Ok(..)`, payloads of known constructor calls, tuple
    projections and helper results (`alt`) folded — what a local holds after a helper returned it wrapped in a private enum."""
    return [x for x in evs(copy.deepcopy(v), []) if not (isinstance(x, dict) and x.get('k') == 'never')]


def _bind_payload(v, scrutinee_value):
    return v


def frames_truth(fr, specs):
    """True / False / None: does this guard frame hold under the specs?"""
    k = fr.get('k')
    if k == 'arm':
        for sp in specs:
            if sp.is_scrut(fr.get('scrut')):
                t = sp.arm_frame(fr)
                if t is True and fr.get('guard') is not None:
                    g = cond_truth(fr['guard'], specs)
                    return True if g is True else (False if g is False else None)
                return t
        return None
    if k == 'if':
        c = vt.unvar(fr.get('c'))
        neg = bool(fr.get('neg'))
        t = cond_truth(c, specs)
        if t is None and isinstance(c, dict) and c.get('k') == 'iflet' and not any(sp.is_scrut(c.get('scrut')) for sp in specs):
            shapes = {_shape(x) for x in evs(c.get('scrut'), specs) if not (isinstance(x, dict) and x.get('k') == 'never')}
            if shapes and None not in shapes:
                hits = {s in _short(c.get('variants', [])) for s in shapes}
                if len(hits) == 1:
                    t = hits.pop()
        if t is None:
            return None
        return t != neg
    return None


def frame_truth(fr, param, variant):
    return frames_truth(fr, [EnumSpec(param, variant)])


def frames_hold(G, frames, specs):
    """False when some guard frame is false under the specs (a catch-all arm counts as false when a sibling arm of the same
    match names the assumed value), else True."""
    for fr in frames:
        t = frames_truth(fr, specs)
        if t is None and fr.get('k') == 'arm':
            sp = next((x for x in specs if x.is_scrut(fr.get('scrut'))), None)
            if sp is not None and fr.get('guard') is None:
                named_elsewhere = any(sp.names_it(a) and a.get('guard') is None for m in G.get('matches', []) if vt.ckey(m.get('scrut')) == vt.ckey(fr.get('scrut')) and any(a2.get('line') == fr.get('line') for a2 in m.get('arms', [])) for a in m.get('arms', []))
                t = not named_elsewhere
        if t is False:
            return False
    return True


def outcomes(G, specs):
    """Value trees the (inlined view of a) function can return under the specs: exits whose guard frames are false under the
    assumption are dropped, `never` results too."""
    exits = [(r.get('guard', []), r.get('v')) for r in G.get('returns', []) if r.get('v') is not None]
    if G.get('tail') is not None:
        exits.append(([], G['tail']))
    vals = []
    cut = None      # line of an own early return that is taken for sure under the specs: nothing after it is reached
    for r in G.get('returns', []):
        if r.get('via') or r.get('v') is None:
            continue
        ts = [frames_truth(fr, specs) for fr in r.get('guard', []) if fr.get('k') in ('if', 'arm')]
        if ts and all(t is True for t in ts) and not any(fr.get('k') in ('for', 'while', 'loop', 'closure') for fr in r.get('guard', [])):
            cut = r.get('line', 0) if cut is None else min(cut, r.get('line', 0))
    if cut is not None:
        exits = [(r.get('guard', []), r.get('v')) for r in G.get('returns', []) if r.get('v') is not None and (r.get('via') or r.get('line', 0) <= cut)]
    for frames, val in exits:
        # arm frames with a catch-all pattern hold only if no sibling arm names the value: approximate by checking the
        # explicit arms of the same match (recorded in the function's `matches`)
        verdicts = []
        for fr in frames:
            t = frames_truth(fr, specs)
            if t is None and fr.get('k') == 'arm':
                sp = next((x for x in specs if x.is_scrut(fr.get('scrut'))), None)
                if sp is not None and fr.get('guard') is None:
                    named_elsewhere = any(sp.names_it(a) and a.get('guard') is None for m in G.get('matches', []) if vt.ckey(m.get('scrut')) == vt.ckey(fr.get('scrut')) and any(a2.get('line') == fr.get('line') for a2 in m.get('arms', [])) for a in m.get('arms', []))
                    t = not named_elsewhere
            verdicts.append(t)
        if any(t is False for t in verdicts):
            continue
        for x in evs(copy.deepcopy(val), specs):
            if isinstance(x, dict) and x.get('k') == 'never':
                continue
            if _contains_never(x):
                continue
            vals.append(x)
    return vals


def per_variant(ctx, f, enum_name, param=None):
    """{variant name: [value trees]} for every variant of `enum_name`: what `f` (inlined view) returns when its parameter of
    that enum type is the variant."""
    G = ctx.x(f)
    if param is None:
        cands = [p['name'] for p in f['params'] if enum_name in str(p.get('ty') or '')]
        if not cands:
            return {}
        param = cands[0]
    enum = ctx.item('enum', enum_name)
    return {var['name']: outcomes(G, [EnumSpec(param, var['name'])]) for var in enum['variants']}


def _contains_never(v, d=0):
    if d > 30:
        return False
    if isinstance(v, dict):
        if v.get('k') == 'never':
            return True
        if v.get('k') in ('cond', 'match', 'alt'):
            return False   # a never inside an undecided alternative does not kill the whole value
        return any(_contains_never(x, d + 1) for x in v.values())
    if isinstance(v, list):
        return any(_contains_never(x, d + 1) for x in v)
    return False
