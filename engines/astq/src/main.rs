// astq — syntax-tree analyser for the typeshare verification rules.
//
// Parses the repository's Rust sources with syn and, without executing
// anything, resolves every expression that reaches an output template into a
// *value tree* (atoms = IR field paths, literals, format templates, calls,
// conditionals) by abstract evaluation of each function body with an
// environment of local definitions and a stack of path guards.  The result is
// one JSON document consumed by the Python rule layer.
//
// usage: astq <repo-root> <out.json> [extra-file=label ...]

mod eval;
mod index;

use serde_json::{json, Value};
use std::path::{Path, PathBuf};

fn rs_files(dir: &Path, out: &mut Vec<PathBuf>) {
    if let Ok(rd) = std::fs::read_dir(dir) {
        let mut ents: Vec<_> = rd.flatten().map(|e| e.path()).collect();
        ents.sort();
        for p in ents {
            if p.is_dir() {
                rs_files(&p, out);
            } else if p.extension().map(|e| e == "rs").unwrap_or(false) {
                out.push(p);
            }
        }
    }
}

fn main() {
    let args: Vec<String> = std::env::args().collect();
    if args.len() < 3 {
        eprintln!("usage: astq <repo-root> <out.json> [extra-file=label ...]");
        std::process::exit(2);
    }
    let root = PathBuf::from(&args[1]);
    let mut files: Vec<(PathBuf, String)> = Vec::new();
    for sub in ["core/src", "cli/src", "lib/src", "annotation/src"] {
        let mut v = Vec::new();
        rs_files(&root.join(sub), &mut v);
        for p in v {
            let rel = p.strip_prefix(&root).unwrap().to_string_lossy().to_string();
            files.push((p, rel));
        }
    }
    for extra in &args[3..] {
        if let Some((p, label)) = extra.split_once('=') {
            files.push((PathBuf::from(p), label.to_string()));
        }
    }
    let mut parsed: Vec<(String, syn::File)> = Vec::new();
    let mut errors: Vec<Value> = Vec::new();
    for (p, rel) in &files {
        let src = match std::fs::read_to_string(p) {
            Ok(s) => s,
            Err(e) => {
                errors.push(json!({"file": rel, "error": e.to_string()}));
                continue;
            }
        };
        match syn::parse_file(&src) {
            Ok(f) => parsed.push((rel.clone(), f)),
            Err(e) => errors.push(json!({"file": rel, "error": e.to_string()})),
        }
    }
    let idx = index::Index::build(&parsed);
    let mut functions: Vec<Value> = Vec::new();
    for (rel, f) in &parsed {
        eval::eval_file(&idx, rel, f, &mut functions);
    }
    let doc = json!({
        "files": parsed.iter().map(|(r, _)| r.clone()).collect::<Vec<_>>(),
        "errors": errors,
        "items": idx.items_json(),
        "functions": functions,
    });
    std::fs::write(&args[2], serde_json::to_string(&doc).unwrap()).expect("astq: cannot write output");
}
