"""Whole-program call graph over mirq facts (all workspace crates), with class-hierarchy expansion of trait calls."""
from collections import defaultdict, deque


class Program:
    def __init__(self, doc):
        self.bodies = {}
        self.crate_of = {}
        for cname, c in doc['crates'].items():
            for b in c['bodies']:
                self.bodies[b['key']] = b
                self.crate_of[b['key']] = cname
        self.by_trait_item = defaultdict(list)
        for k, b in self.bodies.items():
            if b.get('trait_item'):
                self.by_trait_item[b['trait_item']].append(k)
        self.children = defaultdict(list)  # closures by root
        for k, b in self.bodies.items():
            if b.get('root'):
                self.children[b['root']].append(k)
        self.adts = {}
        for cname, c in doc['crates'].items():
            for a in c['adts']:
                self.adts[a['path']] = a
        self._edges = None
        # named constants / statics (their initialisers are bodies too): a body that mentions one depends on whatever the
        # initialiser refers to — tables of function pointers, closures stored in a const
        self.const_by_id = {b['id']: k for k, b in self.bodies.items() if b.get('kind') == 'const'}

    def consts_used(self, b):
        out = []
        for c in b.get('consts', []) or []:
            t = str(c.get('text', ''))
            if t.startswith('const '):
                k = self.const_by_id.get(t[6:].strip())
                if k is not None and k != b.get('key') and k not in out:
                    out.append(k)
        return out

    def targets_of_call(self, c):
        """Resolved local targets of one call record."""
        out = []
        ck = c.get('ckey') or ''
        if c['kind'] == 'direct' or c['kind'] == 'shim':
            if ck in self.bodies:
                out.append(ck)
            elif c.get('trait_item') and c['kind'] == 'shim':
                out.extend(self.by_trait_item.get(c['trait_item'], []))
        elif c['kind'] in ('virtual', 'unresolved'):
            ti = c.get('trait_item')
            if ti:
                out.extend(self.by_trait_item.get(ti, []))
            if ck in self.bodies and ck not in out:
                out.append(ck)
        return out

    @property
    def edges(self):
        if self._edges is None:
            e = defaultdict(set)
            for k, b in self.bodies.items():
                for c in b['calls']:
                    for t in self.targets_of_call(c):
                        e[k].add(t)
                for ck in self.consts_used(b):
                    e[k].add(ck)
                for r in b['refs']:
                    rk = r.get('key')
                    if rk in self.bodies:
                        e[k].add(rk)
                    elif r.get('trait_item'):
                        for t in self.by_trait_item.get(r['trait_item'], []):
                            e[k].add(t)
            self._edges = e
        return self._edges

    def reach(self, roots):
        """BFS; returns {key: predecessor key or None}."""
        pred = {}
        dq = deque()
        for r in roots:
            if r in self.bodies and r not in pred:
                pred[r] = None
                dq.append(r)
        while dq:
            k = dq.popleft()
            for t in sorted(self.edges.get(k, ())):
                if t not in pred:
                    pred[t] = k
                    dq.append(t)
        return pred

    def region(self, roots, crate=None, stop=()):
        """Bodies reachable from `roots` through calls / closure references that stay inside `crate` (default: the crate of
        the first root), not entering bodies whose id ends with a name in `stop`.  Lets a rule written for a function
        also see logic that has been moved into local helper functions."""
        roots = [r for r in roots if r in self.bodies]
        if not roots:
            return []
        crate = crate or self.crate_of[roots[0]]
        seen, dq = [], deque(roots)
        while dq:
            k = dq.popleft()
            if k in seen:
                continue
            seen.append(k)
            for t in sorted(self.edges.get(k, ())):
                if t in self.bodies and self.crate_of[t] == crate and t not in seen and not any(self.bodies[t]['id'].split('::{')[0].endswith(x) for x in stop):
                    dq.append(t)
            for t in self.children.get(k, []):
                if t not in seen:
                    dq.append(t)
        return seen

    def callers_in(self, keys, target):
        """[(body key, call record)] of the calls inside `keys` that resolve to `target`."""
        out = []
        for k in keys:
            for c in self.bodies[k]['calls']:
                if target in self.targets_of_call(c):
                    out.append((k, c))
        return out

    def path_to(self, pred, k):
        out = []
        while k is not None:
            out.append(self.bodies[k]['id'])
            k = pred.get(k)
        return list(reversed(out))

    def find(self, suffix, crate=None):
        """Body keys whose readable id ends with `suffix`."""
        return [k for k, b in self.bodies.items() if (b['id'] == suffix or b['id'].endswith('::' + suffix) or b['id'].endswith(suffix)) and (crate is None or self.crate_of[k] == crate)]

    def dominates(self, body, a, b):
        """Does basic block a dominate block b in this body?"""
        idom = body['idom']
        x = b
        seen = 0
        while x != -1 and seen < 100000:
            if x == a:
                return True
            nx = idom[x]
            if nx == x:
                break
            x = nx
            seen += 1
        return a == 0

    def reachable_blocks(self, body, start, avoid=()):
        seen = set()
        st = [start]
        while st:
            x = st.pop()
            if x in seen or x in avoid:
                continue
            seen.add(x)
            st.extend(body['succ'][x])
        return seen


def reachable_blocks_known(body, start):
    """Blocks reachable from `start` when boolean temporaries assigned a constant on the way are remembered: `matches!(x, P if g)`
    and `a && b` compile to "set a flag, join, switch on the flag" — from the block that set it to `true` only the `otherwise`
    target of that later switch is reachable.  (Constant propagation of bool locals along paths; everything else is followed.)"""
    import re
    seen, out = set(), set()
    st = [(start, ())]
    while st:
        x, env = st.pop()
        if (x, env) in seen or len(seen) > 20000:
            continue
        seen.add((x, env))
        out.add(x)
        e = dict(env)
        blk = body['blocks'][x]
        for stmt in blk['stmts']:
            m = re.match(r'(_\d+) = const (true|false)$', stmt)
            if m:
                e[m.group(1)] = m.group(2) == 'true'
                continue
            m = re.match(r'(_\d+) = ', stmt)
            if m:
                e.pop(m.group(1), None)
        m = re.match(r'switchInt\((?:move|copy) (_\d+)\) -> \[0: bb(\d+), otherwise: bb(\d+)\]', blk['term'])
        if m and m.group(1) in e:
            nxt = [int(m.group(3)) if e[m.group(1)] else int(m.group(2))]
        else:
            nxt = list(body['succ'][x])
            dm = re.match(r'(_\d+) = ', blk['term'])
            if dm:
                e.pop(dm.group(1), None)
        env2 = tuple(sorted(e.items()))
        for y in nxt:
            st.append((y, env2))
    return out


class CtxReach:
    """Reachability with receiver-type context for trait default bodies: a call `self.m()` inside a provided
    trait method, analysed for implementing type T, goes to T's override of m (or the provided body, again for T)."""

    def __init__(self, prog):
        self.p = prog
        # trait key prefix -> implementing self types
        self.impl_types = defaultdict(set)
        self.impl_body = {}  # (trait_item, self_ty) -> key
        for k, b in prog.bodies.items():
            ti = b.get('trait_item')
            if ti and not b.get('is_default') and b.get('self_ty'):
                self.impl_types[self.trait_of(ti)].add(b['self_ty'])
                self.impl_body[(ti, b['self_ty'])] = k

    @staticmethod
    def trait_of(ti):
        return ti.rsplit('::', 1)[0]

    def resolve_for(self, ti, t):
        k = self.impl_body.get((ti, t))
        if k:
            return [(k, None)]
        if ti in self.p.bodies and self.p.bodies[ti].get('is_default'):
            return [(ti, t)]
        return []

    def ctx_of(self, node):
        k, ctx = node
        b = self.p.bodies[k]
        if ctx is not None:
            return ctx
        # closures inside impl methods: context of the root
        root = b.get('root')
        rb = self.p.bodies.get(root) if root else b
        if rb is not None and rb.get('self_ty') and rb.get('trait_item'):
            return rb['self_ty']
        return None

    def succ(self, node):
        k, ctx = node
        b = self.p.bodies[k]
        out = []
        rootb = self.p.bodies.get(b.get('root')) if b.get('root') else b
        in_default = bool(rootb and rootb.get('is_default'))
        selft = self.ctx_of(node)

        def handle(ckey, kind, ti, arg0):
            if ti and ti in self.p.bodies or (ti and self.impl_types.get(self.trait_of(ti))):
                tr = self.trait_of(ti)
                types = self.impl_types.get(tr, set())
                if types:
                    selfish = arg0 is not None and ('Self' in arg0)
                    if kind in ('unresolved', 'virtual'):
                        if in_default and selfish and selft is not None:
                            return self.resolve_for(ti, selft)
                        r = []
                        for t in sorted(types):
                            r.extend(self.resolve_for(ti, t))
                        return r
                    if kind in ('direct', 'shim'):
                        if ckey in self.p.bodies:
                            cb = self.p.bodies[ckey]
                            if cb.get('is_default'):
                                # direct call of a provided method: Self is the caller's concrete type when known
                                if selft is not None and selft in types:
                                    return [(ckey, selft)]
                                return [(ckey, t) for t in sorted(types)]
                            return [(ckey, None)]
                        return []
            if ckey in self.p.bodies:
                return [(ckey, None)]
            if ti:
                return [(t, None) for t in self.p.by_trait_item.get(ti, [])]
            return []

        for c in b['calls']:
            a0 = c['arg_tys'][0] if c.get('arg_tys') else None
            out.extend(handle(c.get('ckey'), c['kind'], c.get('trait_item'), a0))
        for ck in self.p.consts_used(b):
            out.append((ck, None))
        for r in b['refs']:
            if r['kind'] == 'closure':
                if r['key'] in self.p.bodies:
                    out.append((r['key'], ctx))
            else:
                out.extend(handle(r.get('key'), r.get('res', 'direct'), r.get('trait_item'), 'Self' if in_default else None))
        return out

    def reach(self, roots):
        pred = {}
        dq = deque()
        for r in roots:
            n = r if isinstance(r, tuple) else (r, None)
            if n[0] in self.p.bodies and n not in pred:
                pred[n] = None
                dq.append(n)
        while dq:
            n = dq.popleft()
            for t in self.succ(n):
                if t not in pred:
                    pred[t] = n
                    dq.append(t)
        return pred

    def path_to(self, pred, n):
        out = []
        while n is not None:
            b = self.p.bodies[n[0]]
            out.append(b['id'] + (f'[Self={n[1]}]' if n[1] else ''))
            n = pred.get(n)
        return list(reversed(out))
