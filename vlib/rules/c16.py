"""C16 — rename_all case conversion agrees with serde_derive's algorithm.

MOSTLY NOT DECIDABLE WITH THIS FAMILY, and declared as such: the eight conversions are string transducers with
loop-carried state; whether they agree with serde_derive::internals::case on every identifier (and the fact that
serde has separate field / variant algorithms where typeshare has one) is a statement about computed strings.
A structural diff of the two sources would fire on behaviour-preserving edits and pass behaviour-changing ones; it is
not used.  What IS decided (necessary conditions of agreement):
(E1) the dispatch table of rename_all_to_case has exactly serde's eight rule names (parsed from the locked
serde_derive source), one unguarded arm each, each calling the conversion that corresponds to the rule name, applied
to the function's input; (E2) no rule / an unknown rule returns the input itself; (E3) serde maps case with ASCII
functions only — no Unicode case-mapping function may be reachable from the renaming routine (resolved MIR)."""
import glob
import os
import re

from .. import cg, core, vt

EXPECT = {  # rule name -> conversion (RenameExt contract / std ASCII functions)
    'lowercase': ('to_ascii_lowercase', 'to_lowercase'),
    'UPPERCASE': ('to_ascii_uppercase', 'to_uppercase'),
    'PascalCase': ('to_pascal_case',),
    'camelCase': ('to_camel_case',),
    'snake_case': ('to_snake_case',),
    'SCREAMING_SNAKE_CASE': ('to_screaming_snake_case',),
    'kebab-case': ('to_kebab_case',),
    'SCREAMING-KEBAB-CASE': ('to_screaming_kebab_case',),
}
UNICODE_CASE = re.compile(r'str::<impl str>::to_(lower|upper)case$|char::methods::<impl char>::to_(lower|upper)case$|<impl char>::to_(lower|upper)case$|unicode::conversions::to_(lower|upper)$')


def serde_rules(ctx):
    lock = open(os.path.join(ctx.repo, 'Cargo.lock')).read()
    m = re.search(r'name = "serde_derive"\nversion = "([^"]+)"', lock)
    if not m:
        raise core.Incomplete('serde_derive not in Cargo.lock')
    c = glob.glob(os.path.expanduser(f'~/.cargo/registry/src/*/serde_derive-{m.group(1)}/src/internals/case.rs'))
    if not c:
        raise core.Incomplete('serde_derive case.rs not in the cargo registry (reference table unavailable)')
    txt = open(c[0]).read()
    blk = re.search(r'static RENAME_RULES[^=]*=\s*&\[(.*?)\];', txt, re.S)
    return m.group(1), re.findall(r'\("([^"]+)",', blk.group(1)) if blk else []


FOLDING = ('eq_ignore_ascii_case', 'to_lowercase', 'to_uppercase', 'to_ascii_lowercase', 'to_ascii_uppercase', 'make_ascii_lowercase', 'make_ascii_uppercase',
           'trim', 'trim_start', 'trim_end', 'trim_matches', 'trim_start_matches', 'trim_end_matches', 'starts_with', 'ends_with', 'strip_prefix', 'strip_suffix', 'replace', 'to_case', 'is_case')


def e4(ctx, rep):
    """E4 (rule names are matched exactly): serde knows exactly eight spellings; "CamelCase", "snake_Case" or "uppercase " are
    unknown rules and leave names unchanged.  Between the attribute and the dispatch the rule string is therefore never
    case-folded, trimmed or matched by prefix: no such operation is applied to the looked-up `rename_all` value in the look-up
    function, nor to the rule parameter of the renaming routine."""
    n = 0
    for fname, which in (('serde_rename_all', None), ('rename_all_to_case', 1)):
        f0 = ctx.fn(fname, file='parser.rs')
        f = ctx.x(f0)
        site = {'file': f['file'], 'line': f['line']}
        rule_p = f['params'][which]['name'] if which is not None else None

        def about_rule(v):
            for x in vt.walk(v):
                if not isinstance(x, dict):
                    continue
                if rule_p is not None and x.get('k') == 'atom' and x.get('root') == rule_p:
                    return True
                if rule_p is None and x.get('k') == 'call' and x.get('f') == 'get_name_value_meta_items':
                    return True
                if rule_p is None and x.get('k') == 'lit' and x.get('v') == 'rename_all':
                    return True
            return False
        bad = []
        for c in f['calls']:
            if c.get('f') not in FOLDING:
                continue
            operands = ([c['recv']] if c.get('recv') is not None else []) + list(c.get('args', []))
            if any(about_rule(o) for o in operands):
                bad.append(c)
        n += 1
        rep.check(not bad, 'E4', f'{fname}:rule-name-exact', 'the rule string is neither folded, trimmed nor prefix-matched',
                  (f"{f['qual']} applies `{bad[0]['f']}` to the rename_all rule (`{vt.show(bad[0].get('recv') or bad[0]['args'][0])[:60]}`): a value that is not one of serde's eight spellings (\"CamelCase\", \"snake_Case\", \"Kebab-Case\") "
                   'is treated as the rule it resembles and renames fields/variants, where an unknown rule must leave names unchanged') if bad else '', {'file': f['file'], 'line': (bad[0].get('line') if bad else f['line'])})
    rep.analysed['E4:functions scanned'] = n


def run(ctx, rep):
    rep.explanation = ('Only necessary structural conditions are decided: the rule-name dispatch table against serde_derive\'s RENAME_RULES, identity for absent/unknown '
                       'rules, and absence of Unicode case-mapping functions in the code reachable from the renaming routine (serde is ASCII-only).')
    rep.not_decided = ('agreement of the eight conversions with serde_derive on all identifiers, in field and in variant position — string-transducer equivalence, not decidable by '
                       'this family. Reading the two sources shows real disagreements on the pinned tree (e.g. variant `OK` under snake_case: serde `o_k`, typeshare `ok`; typeshare '
                       'has one algorithm where serde has two); they are outside the decided clause and are NOT reported as findings of this check.')
    rep.trusted = ['syn/astq', 'rustc MIR call graph', 'serde_derive source named by Cargo.lock (RENAME_RULES)']
    # E0: the rule is read wherever serde accepts it — any #[serde(..)] attribute of the container, not just the first one
    # (shared with C01 KA / C02 VA: the look-ups are identified by the argument name they search for)
    from .. import parser_rules as pr
    rep.section(pr.all_attrs_rule, ctx, rep, 'E0', ('serde_rename_all',), 1, keys=('rename_all',))
    rep.section(e4, ctx, rep)
    ver, rules = serde_rules(ctx)
    rep.check(len(rules) == 8, 'E1', 'serde:rule-table', f'serde_derive {ver}: {rules}', f'could not read 8 rules from serde_derive {ver}', None)
    f = ctx.fn('rename_all_to_case', file='parser.rs')
    site = {'file': f['file'], 'line': f['line']}
    inp = f['params'][0]['name']
    # dispatch table, asked of the function itself (vlib/special.py): under "the rule is Some(r)" what does it return?  One
    # match arm per literal, a constant table of (name, conversion) pairs searched with `find`, early returns — all the same
    from .. import special
    rule_p = f['params'][1]['name']
    G = ctx.x(f)

    def is_rule_option(v):
        # the `case` parameter itself (possibly through as_deref / as_ref)
        v = vt.unvar(v)
        while isinstance(v, dict) and (v.get('k') in ('ref', 'deref', 'paren') or (v.get('k') == 'call' and v.get('recv') is not None and v.get('f') in ('as_deref', 'as_ref', 'cloned', 'clone') and not v.get('args'))):
            v = vt.unvar(v.get('v') if v.get('k') != 'call' else v['recv'])
        return isinstance(v, dict) and v.get('k') == 'atom' and v.get('root') == rule_p and not v.get('path')

    def is_rule_name(v):
        # the string inside it: payload of Some / element handed to an Option adaptor's closure, through as_str & co.
        d = 0
        while isinstance(v, dict) and d < 16:
            d += 1
            if v.get('k') == 'var' or v.get('k') in ('ref', 'deref', 'paren'):
                v = v.get('v')
            elif v.get('k') == 'call' and v.get('recv') is not None and v.get('f') in ('as_str', 'as_ref', 'as_deref', 'clone', 'to_string', 'to_owned', 'borrow') and not v.get('args'):
                v = v['recv']
            elif v.get('k') == 'payload' and str(v.get('variant', '')).split('::')[-1] == 'Some':
                return is_rule_option(v.get('of'))
            elif v.get('k') == 'elem':
                return is_rule_option(v.get('of'))
            else:
                return False
        return False

    def is_input(v):
        v = vt.unvar(v)
        while isinstance(v, dict) and (v.get('k') in ('ref', 'deref', 'paren') or (v.get('k') == 'call' and v.get('recv') is not None and v.get('f') in ('as_str', 'clone', 'to_owned', 'to_string', 'as_ref') and not v.get('args'))):
            v = vt.unvar(v.get('v') if v.get('k') != 'call' else v['recv'])
        return isinstance(v, dict) and v.get('k') == 'atom' and v.get('root') == inp and not v.get('path')

    def conversion(o):
        """name of the function applied to the input: `input.to_x()` or `Path::to_x(&input)`; '' for the input itself"""
        o = vt.unvar(o)
        if is_input(o):
            return ''
        if isinstance(o, dict) and o.get('k') == 'call':
            if o.get('recv') is not None and not o.get('args') and is_input(o['recv']):
                return str(o.get('f'))
            if o.get('recv') is None and len(o.get('args', [])) == 1 and is_input(o['args'][0]):
                return str(o.get('f', '')).replace(' ', '').split('::')[-1]
        return None

    def under(rule_name):
        specs = [special.OptSpec(is_rule_option, rule_name is not None)]
        if rule_name is not None:
            specs.append(special.KeySpec(is_rule_name, rule_name))
        return special.outcomes(G, specs)
    # literals the function compares the rule name with (match arms, `==`, constant tables)
    known = set()
    for m in G.get('matches', []):
        if is_rule_name(m.get('scrut')):
            known |= {x for a in m['arms'] for x in special._lits(a.get('variants', []))}
        elif is_rule_option(m.get('scrut')):
            # `match case.as_deref() { Some("snake_case") => …` — the literal sits inside the Option pattern
            known |= {lit for a in m['arms'] for _n, lit in special._pat_alts(a.get('pat', '')) if lit is not None}
    for x in (y for L in ('calls', 'lets', 'returns') for it in G.get(L, []) for y in vt.walk(it if L != 'calls' else dict(it, k='call'))):
        if x.get('k') == 'call' and x.get('f') in ('find', 'contains', 'any', 'position') and x.get('recv') is not None:
            keys = special._table_keys(special._const_items(x['recv']))
            if keys and any(is_rule_name(z) for z in vt.walk(x)):
                known |= set(keys)
    for x in vt.walk(G.get('tail') or {}):
        if x.get('k') == 'call' and x.get('f') in ('find', 'contains', 'any', 'position') and x.get('recv') is not None:
            keys = special._table_keys(special._const_items(x['recv']))
            if keys and any(is_rule_name(z) for z in vt.walk(x)):
                known |= set(keys)
    if not known:
        raise core.Incomplete('rename_all_to_case: no comparison of the rule name with string literals found (match arms / constant table)')
    for r in rules:
        key = f'rule:{r}'
        outs = under(r)
        convs = [conversion(o) for o in outs]
        want = EXPECT.get(r, ())
        if r not in known:
            rep.fail('E1', key, f'rename_all_to_case has no arm for serde\'s rule "{r}": names under that rule stay unchanged while serde renames them', site)
            continue
        if len(outs) != 1:
            rep.fail('E1', key, f'rule "{r}" is handled by a guarded / by several arms ({[vt.show(o)[:40] for o in outs]}): for some identifiers the rule is not applied — serde applies a rule to every identifier of its position', site)
            continue
        ok = convs[0] in want
        rep.check(ok, 'E1', key, f'"{r}" → {convs[0]}', f'rule "{r}" is mapped to `{vt.show(outs[0])[:60]}` — expected {inp}.{want[0]}() (the conversion of that name applied to the input)', site)
    extra = sorted(n for n in known if n not in rules and [conversion(o) for o in under(n)] != [''])
    rep.check(not extra, 'E1', 'no-extra-rules', 'no rule names beyond serde\'s', f'rename_all_to_case knows rule names serde does not: {extra}', site)
    # E2: no rule / an unknown rule returns the input itself
    unk = under('no-such-rule-name')
    rep.check(bool(unk) and all(conversion(o) == '' for o in unk), 'E2', 'unknown-rule-identity', 'unknown rule ⇒ input unchanged', f"an unknown rule does not yield the unchanged name: {[vt.show(o)[:50] for o in unk]}", site)
    non = under(None)
    rep.check(bool(non) and all(conversion(o) == '' for o in non), 'E2', 'no-rule-identity', 'no rule ⇒ input unchanged', f"without a rename_all rule the name is not returned unchanged: {[vt.show(o)[:50] for o in non]}", site)
    # E3 (MIR)
    prog = cg.Program(ctx.mirq('all'))
    cr = cg.CtxReach(prog)
    roots = [k for k in prog.find('rename_all_to_case', crate='typeshare_core') if prog.bodies[k]['kind'] == 'fn']
    if len(roots) != 1:
        raise core.Incomplete('rename_all_to_case not found in MIR')
    reach = cr.reach(roots)
    ascii_seen = 0
    n = 0
    for node in reach:
        b = prog.bodies[node[0]]
        for c in b['calls']:
            n += 1
            if 'to_ascii_lowercase' in c['callee'] or 'to_ascii_uppercase' in c['callee']:
                ascii_seen += 1
            if UNICODE_CASE.search(c['callee']):
                key = f"unicode-case:{b['id'].split('::')[-1]}:{re.sub(chr(92) + 's+', '', c['snippet'])[:40]}"
                rep.fail('E3', key, f"{b['id']} calls the Unicode case mapping `{c['callee'].split('::')[-1]}` (`{c['snippet'][:50]}`) on the renaming path: serde_derive maps case with to_ascii_* only, so identifiers containing non-ASCII letters are renamed differently (ß, é, İ …)", {'file': c['file'], 'line': c['line']})
    rep.analysed['E3:calls_scanned'] = n
    rep.check(ascii_seen >= 3, 'E3', 'positive-control:ascii-mapping-seen', f'{ascii_seen} to_ascii_* calls seen on the renaming path', 'positive control failed: the scanner does not see the ASCII case-mapping calls of the conversions', None)
    rep.floor('E3', 'bodies reachable from rename_all_to_case', len(reach), 6)
