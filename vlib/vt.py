"""Helpers over astq value trees (JSON dicts)."""

TRANSPARENT_CALLS = {
    'clone', 'to_string', 'to_owned', 'as_str', 'as_ref', 'into', 'as_slice', 'borrow', 'deref',
    'into_owned', 'iter', 'as_mut', 'cloned', 'copied', 'map_err', 'unwrap', 'expect', 'as_deref',
    'String::from', 'to_vec', 'as_bytes', 'String::from_utf8_lossy', 'Cow::Owned', 'Cow::Borrowed', 'Ok',
}


def k(v):
    return v.get('k') if isinstance(v, dict) else None


def strip(v):
    """See through var wrappers, try, casts of no interest and transparent calls."""
    while isinstance(v, dict):
        kk = v.get('k')
        if kk == 'var':
            v = v['v']
        elif kk == 'try':
            v = v['v']
        elif kk == 'some':
            v = v['v']
        elif kk == 'call' and v.get('f') in TRANSPARENT_CALLS:
            if v.get('recv') is not None:
                v = v['recv']
            elif len(v.get('args', [])) == 1:
                v = v['args'][0]
            else:
                return v
        else:
            return v
    return v


def show(v, depth=0):
    """Compact single-line rendering used in reports."""
    if v is None:
        return 'None'
    if not isinstance(v, dict):
        return repr(v)
    if depth > 12:
        return '…'
    kk = v.get('k')
    d = depth + 1
    if kk == 'atom':
        return '.'.join([v.get('root', '?')] + list(v.get('path', [])))
    if kk == 'lit':
        return repr(v.get('v'))
    if kk == 'var':
        return f"{v['name']}:=" + show(v['v'], d) if depth < 3 else v['name']
    if kk == 'path':
        return v.get('text', '?').replace(' ', '')
    if kk == 'fmt':
        out = []
        for p in v.get('parts', []):
            if 'lit' in p:
                out.append(p['lit'])
            else:
                out.append('{' + show(p['hole'], d) + (':' + p['spec'] if p.get('spec') else '') + '}')
        return 'fmt"' + ''.join(out).replace('\n', '\\n') + '"'
    if kk == 'call':
        args = ', '.join(show(a, d) for a in v.get('args', []))
        if v.get('recv') is not None:
            return f"{show(v['recv'], d)}.{v['f']}({args})"
        return f"{v['f']}({args})"
    if kk == 'cond':
        return f"if {show(v['c'], d)} then {show(v['t'], d)} else {show(v['e'], d)}"
    if kk == 'op':
        a = v.get('args', [])
        if len(a) == 1:
            return f"{v['op']}({show(a[0], d)})"
        return f"({show(a[0], d)} {v['op']} {show(a[1], d)})"
    if kk == 'match':
        return 'match ' + show(v['scrut'], d) + ' {' + '; '.join(f"{a['pat']} => {show(a['v'], d)}" for a in v['arms']) + '}'
    if kk == 'payload':
        f = v.get('field', v.get('pos', ''))
        return f"{show(v['of'], d)}@{v.get('variant')}.{f}"
    if kk == 'elem':
        return f"each({show(v['of'], d)})"
    if kk == 'field':
        return f"{show(v['base'], d)}.{v['name']}"
    if kk == 'closure':
        ps = ','.join('/'.join(p['names']) for p in v.get('params', []))
        return f"|{ps}| {show(v.get('body'), d)}"
    if kk == 'try':
        return show(v['v'], d) + '?'
    if kk == 'some':
        return f"Some({show(v['v'], d)})"
    if kk in ('none', 'unit', 'never', 'big', 'uninit', 'io_result'):
        return kk
    if kk == 'vecof':
        return '[' + ' | '.join(show(i['v'], d) for i in v.get('items', [])) + ']'
    if kk == 'alt':
        return 'alt(' + ' | '.join(show(a, d) for a in v.get('alts', [])) + ')'
    if kk == 'tuple':
        return '(' + ', '.join(show(i, d) for i in v.get('items', [])) + ')'
    if kk == 'array':
        return '[' + ', '.join(show(i, d) for i in v.get('items', [])) + ']'
    if kk == 'struct':
        return v.get('path', '?') + '{' + ', '.join(f"{n}: {show(x, d)}" for n, x in v.get('fields', {}).items()) + '}'
    if kk == 'index':
        return f"{show(v['base'], d)}[{show(v['index'], d)}]"
    if kk == 'range':
        return f"{show(v.get('start'), d) if v.get('start') else ''}..{'=' if v.get('inclusive') else ''}{show(v.get('end'), d) if v.get('end') else ''}"
    if kk == 'cast':
        return f"({show(v['v'], d)} as {v.get('ty')})"
    if kk == 'iflet':
        return f"let {v['pat']} = {show(v['scrut'], d)}"
    if kk == 'matches':
        return f"matches!({show(v['scrut'], d)}, {v['pat']})"
    if kk == 'macro':
        return f"{v['name']}!(..)"
    if kk == 'unknown':
        return '?<' + str(v.get('text'))[:60] + '>'
    return '<' + str(kk) + '>'


def children(v):
    """Direct sub-values."""
    if not isinstance(v, dict):
        return
    kk = v.get('k')
    if kk == 'fmt':
        for p in v.get('parts', []):
            if 'hole' in p:
                yield p['hole']
        return
    for key in ('v', 'recv', 'c', 't', 'e', 'scrut', 'of', 'base', 'index', 'body', 'start', 'end', 'rest', 'callee_value', 'result', 'guard'):
        x = v.get(key)
        if isinstance(x, dict):
            yield x
    for key in ('args', 'alts'):
        for x in v.get(key, []) or []:
            if isinstance(x, dict):
                yield x
    if kk == 'match':
        for a in v.get('arms', []):
            yield a['v']
    if kk in ('vecof',):
        for i in v.get('items', []):
            if isinstance(i.get('v'), dict):
                yield i['v']
    if kk in ('tuple', 'array'):
        for i in v.get('items', []):
            if isinstance(i, dict):
                yield i
    if kk == 'struct':
        for x in v.get('fields', {}).values():
            yield x


def walk(v):
    """Pre-order traversal of all nodes."""
    stack = [v]
    while stack:
        x = stack.pop()
        if isinstance(x, dict):
            yield x
            stack.extend(list(children(x)))


def atoms(v):
    return [x for x in walk(v) if x.get('k') == 'atom']


def atom_name(a):
    return '.'.join([a.get('root', '?')] + list(a.get('path', [])))


def calls_in(v):
    return [x for x in walk(v) if x.get('k') == 'call']


def paths_to_atoms(v, pred=lambda a: True):
    """Yield (atom, via) where via is the list of call names / node kinds between the root and the atom."""
    out = []

    def go(x, via):
        if not isinstance(x, dict):
            return
        kk = x.get('k')
        if kk == 'atom':
            if pred(x):
                out.append((x, list(via)))
            return
        nv = via
        if kk == 'call':
            nv = via + [x.get('f')]
        elif kk == 'op':
            nv = via + ['op' + x.get('op', '')]
        elif kk == 'fmt':
            # a format wrapper: record its literal skeleton
            skel = ''.join(p['lit'] if 'lit' in p else '{' + (p.get('spec') or '') + '}' for p in x.get('parts', []))
            nv = via + ['fmt:' + skel]
            for p in x.get('parts', []):
                if 'hole' in p:
                    go(p['hole'], via + ['fmt:' + skel + ('#?' if p.get('spec') == '?' else '')])
            return
        elif kk == 'index':
            nv = via + ['index' + ('range' if x.get('range') else '')]
        elif kk == 'cond':
            go(x['c'], via + ['cond-test'])
            go(x['t'], via)
            go(x['e'], via)
            return
        elif kk == 'match':
            go(x['scrut'], via + ['match-scrut'])
            for a in x.get('arms', []):
                go(a['v'], via)
            return
        for c in children(x):
            go(c, nv)

    go(v, [])
    return out


def lits(v):
    return [x for x in walk(v) if x.get('k') == 'lit']


def fmt_text(f):
    """Literal skeleton of a fmt value with holes as {}."""
    return ''.join(p['lit'] if 'lit' in p else '{}' for p in f.get('parts', []))
