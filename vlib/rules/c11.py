"""C11 — definitions emitted once each and after the definitions they use.

Decided: the dependency collector sees every reference and the drivers emit exactly the sorted sequence.
(G1) get_dependencies_from_type recurses into every type-carrying payload of every SpecialRustType variant and into
generic arguments as types; (G2) get_dependencies dispatches every RustItem constructor and each item collector
passes every type-bearing field (struct fields unfiltered, tuple and struct-variant payloads, alias target, const
type); (G3) every shared-ordering driver builds the item list from all four vectors, sorts it once, and writes every
item of the sorted slice, in order, into one and the same sink.
Not decided: that toposort_impl + sort_by_indices compute a permutation / a topological order (index arithmetic in
loops; argued by reading in DESIGN.md, not machine-checked)."""
import json
import re

from .. import core, coverage, emit, vt

DRIVERS = [('Language::generate_types', 'language/mod.rs'), ('Go::generate_types', 'language/go.rs'), ('Python::generate_types', 'language/python.rs')]


def run(ctx, rep):
    rep.explanation = ('Decided structurally: traversal coverage of the dependency collector over the IR enums (variants and payloads read from the enum '
                       'definitions, so new variants re-arm the rule) and the shape of the three shared-ordering drivers (all item vectors chained, one '
                       'topsort call before the first write, unfiltered in-order iteration, a single sink).')
    rep.not_decided = ('that toposort_impl and the in-place sort_by_indices compute a permutation and a topological order for every graph — a statement about '
                       'index arithmetic in loops with no structural witness; it would need execution or symbolic exploration (a different technique family).')
    rep.trusted = ['syn', 'astq evaluator']
    rep.section(g6, ctx, rep)
    f = ctx.fn('get_dependencies_from_type', file='topsort.rs')
    if not coverage.find_matches(f, 'SpecialRustType') and not coverage.find_matches(f, 'RustType'):
        delegated_traversal(ctx, rep, f)
        g2_onwards(ctx, rep)
        return
    if coverage.find_matches(f, 'SpecialRustType'):
        n = coverage.check_recursion(rep, 'G1', ctx, f, 'SpecialRustType', ['get_dependencies_from_type'], 'get_dependencies_from_type')
    else:
        n = special_children_delegated(ctx, rep, f)
    rep.floor('G1', 'payload-carrying SpecialRustType variants', n, 5)
    # generic arguments as types
    ms = coverage.find_matches(f, 'RustType')
    site = {'file': f['file'], 'line': f['line']}
    g_arm = None
    for m in ms:
        for a in m['arms']:
            if 'RustType::Generic' in a['variants']:
                g_arm = a
    if g_arm is None:
        rep.fail('G1', 'get_dependencies_from_type:RustType::Generic', 'no arm for RustType::Generic', site)
    else:
        rec = re.search(r'get_dependencies_from_type\s*\(\s*&?\s*\*?\s*parameter\b', g_arm['body']) or re.search(r'for\s+(\w+)\s+in\s+parameters[^{]*\{[^}]*get_dependencies_from_type\s*\(\s*&?\s*\1\b', g_arm['body'])
        rep.check(bool(rec), 'G1', 'get_dependencies_from_type:RustType::Generic:parameters', 'generic arguments traversed as types',
                  "get_dependencies_from_type inspects generic arguments by name only (`parameter.id()` looked up in the item table) instead of recursing into them as types: references nested inside a generic argument (Page<Vec<Item>>, Wrapper<Option<Item>>) create no ordering edge", {'file': f['file'], 'line': g_arm['line']})
        ploops = [l for l in f['loops'] if l.get('kind') == 'for' and vt.show(l['over']).endswith('parameters')]
        nested_under_lookup = any(any(fr.get('k') == 'if' and isinstance(fr['c'], dict) and fr['c'].get('k') == 'iflet' and 'types.get' in vt.show(fr['c']['scrut']) for fr in l['guard']) for l in ploops) or not ploops
        rep.check(not nested_under_lookup, 'G1', 'get_dependencies_from_type:RustType::Generic:parameters-unconditional', 'arguments visited regardless of the base type',
                  "generic arguments are only inspected when the generic type itself is a typeshared item of this file (`if let Some(..) = types.get(id)` encloses the loop): `Foreign<Item>` / a type-mapped generic yields no edge to Item", {'file': f['file'], 'line': g_arm['line']})
    rep.section(g2_onwards, ctx, rep)


def g6(ctx, rep):
    """G6 (a permutation of what was parsed): between the collector and the drivers no statement removes, de-duplicates or
    truncates the item vectors (shared with C03 S7) — the equality of items is the Rust identifier only, so "duplicates"
    are distinct definitions."""
    from . import c03
    sub = core.Report('C11', rep.tier)
    c03.s7(ctx, sub, emit.Types(ctx.astq))
    n = 0
    for o in sub.obligations:
        if o['rule'] == 'S7':
            n += 1
            rep.obligations.append(dict(o, rule='G6', key='G6:' + o['key'].split(':', 1)[1]))
    rep.floor('G6', 'item-vector discipline instances (from C03 S7)', n, 1)


def special_children_delegated(ctx, rep, f):
    """The container arm hands the work to a children iterator of SpecialRustType (`for p in special.parameters() { recurse(p) }`):
    every child must then be yielded by that iterator — its own coverage is checked instead."""
    site = {'file': f['file'], 'line': f['line']}
    helper = None
    for c in f['calls']:
        if c.get('f') != 'get_dependencies_from_type' or not c.get('args'):
            continue
        v = vt.unvar(c['args'][0])
        if isinstance(v, dict) and v.get('k') == 'elem':
            of = vt.unvar(v.get('of'))
            while isinstance(of, dict) and of.get('k') == 'call' and of.get('f') in ('iter', 'into_iter', 'by_ref') and of.get('recv') is not None:
                of = vt.unvar(of['recv'])
            r = vt.unvar(of.get('recv')) if isinstance(of, dict) and of.get('k') == 'call' else None
            if isinstance(r, dict) and (r.get('k') == 'payload' and 'Special' in str(r.get('variant', '')) or 'SpecialRustType' in str(r.get('ty') or '')):
                if not [fr for fr in c.get('guard', []) if fr.get('k') == 'if']:
                    helper = of.get('f')
    if helper is None:
        raise core.Incomplete('get_dependencies_from_type: neither a match over SpecialRustType nor a loop over a children iterator of the special type found')
    hs = [g for g in ctx.astq['functions'] if g['name'].split('::')[-1] == helper and (g.get('self_ty') or '').split('<')[0] == 'SpecialRustType']
    if len(hs) != 1:
        raise core.Incomplete(f'SpecialRustType::{helper} (children iterator used by get_dependencies_from_type) not found')
    return coverage.check_recursion(rep, 'G1', ctx, hs[0], 'SpecialRustType', [], 'get_dependencies_from_type', uses_ok=True)


def delegated_traversal(ctx, rep, f):
    """The collector does not walk the type itself but iterates the names produced by a traversal method of RustType:
    that method must yield *every* nested name — no filtering, truncating or deduplicating adaptor on the stream."""
    site = {'file': f['file'], 'line': f['line']}
    tp = f['params'][0]['name']
    loops = [l for l in f['loops'] if l.get('kind') == 'for']
    src = None
    for l in loops:
        o = vt.strip(l.get('over'))
        if isinstance(o, dict) and o.get('k') == 'call' and o.get('recv') is not None and vt.show(vt.strip(o['recv'])) == tp:
            src = o
    if src is None:
        raise core.Incomplete('get_dependencies_from_type: neither a match over RustType/SpecialRustType nor a loop over a traversal of the type was found')
    ms = [g for g in ctx.astq['functions'] if g['name'].split('::')[-1] == src['f'] and (g.get('self_ty') or '').startswith('RustType')]
    if len(ms) != 1:
        raise core.Incomplete(f"traversal method RustType::{src['f']} not found")
    m = ms[0]
    chain = [c.get('f') for c in vt.calls_in(m.get('tail'))] + [c.get('f') for c in m['calls']]
    bad = [c for c in chain if c in ('filter', 'filter_map', 'take', 'skip', 'take_while', 'skip_while', 'step_by', 'unique', 'dedup', 'nth', 'find')]
    rep.check(not bad, 'G1', f"get_dependencies_from_type:delegated:{src['f']}:unfiltered", 'every nested type name is yielded', f"get_dependencies_from_type collects dependencies from RustType::{src['f']}(), which passes the names through {sorted(set(bad))}: references to items whose name the filter rejects (lower-case / underscore-led / ignore-listed names) create no ordering edge and the item is written after its users", {'file': m['file'], 'line': m['line']})
    guarded = [c for c in f['calls'] if c.get('f') == 'get_dependencies']
    rep.check(bool(guarded), 'G1', 'get_dependencies_from_type:delegated:recurses', 'recurses into the referenced item', 'get_dependencies_from_type no longer recurses into the items it finds', site)


def g2_onwards(ctx, rep):
    # G2 item dispatch
    gd = ctx.fn('get_dependencies', file='topsort.rs')
    ri = ctx.item('enum', 'RustItem')
    ms = coverage.find_matches(gd, 'RustItem')
    if not ms:
        raise core.Incomplete('get_dependencies: match over RustItem not found')
    callees = {}
    for v in ri['variants']:
        arms = [a for a in ms[0]['arms'] if f"RustItem::{v['name']}" in a['variants']]
        ok = bool(arms) and not arms[0]['empty'] and arms[0]['calls']
        rep.check(ok, 'G2', f"get_dependencies:RustItem::{v['name']}", 'dispatched', f"get_dependencies does not collect dependencies of RustItem::{v['name']}", {'file': gd['file'], 'line': gd['line']})
        if ok:
            callees[v['name']] = arms[0]['calls'][0]['f']
    # struct: every field, unfiltered
    fs = ctx.fnx(callees.get('Struct', 'get_struct_dependencies'), file='topsort.rs')
    loops = [l for l in fs['loops'] if l.get('kind') == 'for' and 'fields' in vt.show(l['over'])]
    ok = bool(loops) and any(c.get('f') == 'get_dependencies_from_type' and '.ty' in vt.show(c['args'][0]) for c in fs['calls'])
    rep.check(ok, 'G2', 'struct:fields', 'every field type collected', 'get_struct_dependencies does not pass each field type to get_dependencies_from_type', {'file': fs['file'], 'line': fs['line']})
    for l in loops:
        chain = [c.get('f') for c in vt.calls_in(l['over'])]
        bad = [c for c in chain if c in ('filter', 'skip', 'take', 'step_by', 'skip_while', 'take_while', 'filter_map')]
        rep.check(not bad, 'G2', 'struct:fields-unfiltered', 'unfiltered', f'get_struct_dependencies iterates the fields through {bad}', {'file': fs['file'], 'line': l['line']})
    for l in fs['loops']:
        if l.get('ctl') and any(fr.get('k') == 'for' for fr in l.get('guard', [])):
            cond = next((vt.show(fr['c'])[:80] for fr in reversed(l['guard']) if fr.get('k') == 'if'), '')
            rep.fail('G2', 'struct:fields-skipped', f"get_struct_dependencies skips fields (`{l['ctl']}` under `{cond}`): the types of a skipped field create no ordering edge", {'file': fs['file'], 'line': l['line']})
    for c in fs['calls']:
        if c.get('f') == 'get_dependencies_from_type':
            conds = [fr for fr in c['guard'] if fr.get('k') == 'if' and 'seen' not in vt.show(fr['c'])]
            rep.check(not conds, 'G2', 'struct:fields-conditional', 'unconditional', f"get_struct_dependencies visits a field only under `{vt.show(conds[0]['c'])[:80] if conds else ''}`", {'file': fs['file'], 'line': c.get('line')})
    # enum: tuple + struct-variant payloads
    fe = ctx.fn(callees.get('Enum', 'get_enum_dependencies'), file='topsort.rs')
    coverage.check_recursion(rep, 'G2', ctx, fe, 'RustEnumVariant', ['get_dependencies_from_type'], 'get_enum_dependencies', needle=r'RustType|RustField')
    # alias / const
    for kind, fld in (('Alias', 'r#type'), ('Const', 'r#type')):
        fx = ctx.fnx(callees.get(kind, ''), file='topsort.rs')
        ok = any(c.get('f') == 'get_dependencies_from_type' and ('type' in vt.show(c['args'][0])) for c in fx['calls'])
        rep.check(ok, 'G2', f'{kind.lower()}:type', 'target type collected', f"{fx['name']} does not pass the {kind.lower()}'s type to get_dependencies_from_type", {'file': fx['file'], 'line': fx['line']})
    # G4: the item table is keyed by the spelling references carry.  reconcile_aliases rewrites every reference to a
    # serde(rename)d type to the renamed name (C09 N3), so a table keyed by id.original alone never finds those items:
    # their dependants get no edge and are written first.
    ts = ctx.fnx('topsort', file='topsort.rs')
    tl = [l for l in ts['lets'] if l.get('names') == ['types'] and isinstance(l.get('v'), dict)]
    if not tl:
        raise core.Incomplete('topsort: the `types` table was not found')
    facets = set()
    for x in vt.walk(tl[0]['v']):
        if x.get('k') == 'field' and x.get('name') in ('original', 'renamed') and isinstance(vt.unvar(x.get('base')), dict) and vt.unvar(x['base']).get('name') == 'id':
            facets.add(x['name'])
        if x.get('k') == 'atom' and len(x.get('path', [])) >= 2 and x['path'][-2] == 'id' and x['path'][-1] in ('original', 'renamed'):
            facets.add(x['path'][-1])
    rep.check('renamed' in facets, 'G4', 'types-table:keyed-by-reference-spelling', f'keys: {sorted(facets)}', f"topsort keys its item table by id.{'/'.join(sorted(facets)) or '?'} only, while references to a serde(rename)d type arrive under the renamed name (reconcile): `struct A {{ f: Foo }}` with `#[serde(rename = \"Zed\")] struct Foo` yields no edge A → Foo and A is written before Zed", {'file': ts['file'], 'line': tl[0].get('line', ts['line'])})
    # G5: no collector lists the item itself among its dependencies (a self-edge is read as a cycle by toposort_impl,
    # which then abandons the remaining dependencies of the item)
    for kind, cname in sorted(callees.items()):
        fc = ctx.fnx(cname, file='topsort.rs')
        item_p = fc['params'][0]['name']
        res_p = next((q['name'] for q in fc['params'] if 'Vec<String>' in str(q.get('ty') or '')), 'res')
        selfpush = []
        for c in fc['calls']:
            if c.get('f') in ('push', 'extend', 'insert') and vt.show(vt.strip(c.get('recv'))) == res_p and c.get('args'):
                a = vt.strip(c['args'][-1])
                roots = {y.get('root') for y in vt.walk(a) if y.get('k') == 'atom'}
                txt = vt.show(a)
                if item_p in roots and re.search(r'\bid\.(original|renamed)\b', txt) and not any(y.get('k') == 'elem' for y in vt.walk(a)):
                    selfpush.append(c)
        rep.check(not selfpush, 'G5', f'{cname}:no-self-dependency', 'the item is not its own dependency', f"{cname} pushes the item's own name (`{vt.show(selfpush[0]['args'][-1])[:60] if selfpush else ''}`) into its dependency list: toposort_impl reads the self-edge as a cycle and skips the item's remaining dependencies, which are then written after it", {'file': fc['file'], 'line': selfpush[0].get('line') if selfpush else fc['line']})
    # G3 drivers
    for qual, file in DRIVERS:
        d0 = ctx.fn(qual, file=file)
        # inlined view: a helper that builds and sorts the list (`sorted_items(data)`) is part of the driver
        d = ctx.x(d0)
        site = {'file': d['file'], 'line': d['line']}

        def pos(c):
            # source position in the driver: facts of an expanded helper sit at its call site, ordered among themselves
            return (c.get('via_line') or c.get('line', 0), c.get('line', 0) if c.get('via_line') else 0)
        ts = [c for c in d['calls'] if c.get('f') == 'topsort']
        rep.check(len(ts) == 1, 'G3', f'{qual}:topsort-once', 'topsort called once', f'{qual} calls topsort {len(ts)} times', site)
        if not ts:
            continue
        arg = ts[0]['args'][0]
        txt = json.dumps(arg)
        missing = [v for v in ('aliases', 'structs', 'enums', 'consts') if f'"{v}"' not in txt and f"'{v}'" not in vt.show(arg)]
        # the list is built from a destructured ParsedData: names appear as payload fields
        missing = [v for v in missing if v not in txt]
        rep.check(not missing, 'G3', f'{qual}:all-items-sorted', 'aliases+structs+enums+consts chained into the sorted list', f'{qual}: the list handed to topsort lacks {missing}', site)
        writes = [c for c in d['calls'] if c.get('f', '').startswith('write_') and c['f'] in ('write_enum', 'write_struct', 'write_type_alias', 'write_const')]
        rep.check(len({c['f'] for c in writes}) == 4, 'G3', f'{qual}:all-kinds-written', 'four item kinds written', f"{qual} writes only {sorted({c['f'] for c in writes})}", site)
        # nothing reorders the list after the topological sort
        sorted_var = vt.show(vt.strip(arg)).split('.')[0].strip('&').replace('mut ', '').strip()
        sorted_key = vt.ckey(vt.strip(arg))

        def is_sorted_list(v):
            v = vt.strip(v)
            return isinstance(v, dict) and (vt.ckey(v) == sorted_key or vt.show(v).split('.')[0] == sorted_var)
        REORDER = ('sort', 'sort_by', 'sort_by_key', 'sort_unstable', 'sort_unstable_by', 'sort_unstable_by_key', 'sort_by_cached_key', 'reverse', 'swap', 'rotate_left', 'rotate_right', 'retain', 'dedup', 'dedup_by', 'dedup_by_key', 'remove', 'insert', 'swap_remove', 'drain', 'truncate', 'select_nth_unstable', 'partition_point', 'shuffle')
        later = [c for c in d['calls'] if c.get('f') in REORDER and c.get('recv') is not None and pos(c) > pos(ts[0]) and is_sorted_list(c['recv'])]
        rep.check(not later, 'G3', f'{qual}:no-reordering-after-topsort', 'the sorted order is what is written', f"{qual} reorders the list after topsort with `{later[0]['f'] if later else ''}` ({vt.show(later[0]['args'][0])[:50] if later and later[0].get('args') else ''}): items are no longer written dependencies-first (e.g. a constant before the alias that is its type)", {'file': d['file'], 'line': later[0].get('line') if later else d['line']})
        early = [c for c in writes if pos(c) < pos(ts[0])]
        rep.check(not early, 'G3', f'{qual}:sorted-before-write', 'topsort precedes every write', f'{qual} writes items before sorting', site)
        sinks = {emit.sig(c['args'][0]) for c in writes if c.get('args')}
        rep.check(len(sinks) == 1, 'G3', f'{qual}:single-sink', 'all item kinds go to one sink in list order',
                  f"{qual} writes item kinds into {len(sinks)} different sinks ({sorted({vt.show(c['args'][0])[:20] for c in writes})}): items of one kind are emitted out of the sorted order (e.g. constants before the aliases they use)", site)
        loops = [dict(l, frame=('for', l['line'])) for l in d['loops'] if l.get('kind') == 'for' and (is_sorted_list(l['over']) or 'items' in vt.show(l['over']))]
        # the iterator spelling of the same loop: `sorted.iter().try_for_each(|item| write(item))` / `for_each`
        for c in d['calls']:
            if c.get('f') in ('try_for_each', 'for_each') and c.get('recv') is not None and c.get('args'):
                clo = vt.unvar(c['args'][0])
                src = c['recv']
                for _ in range(8):
                    src = vt.unvar(src)
                    if isinstance(src, dict) and src.get('k') == 'call' and src.get('recv') is not None and src.get('f') in ('iter', 'into_iter', 'iter_mut'):
                        src = src['recv']
                    elif isinstance(src, dict) and src.get('k') in ('ref', 'deref', 'paren'):
                        src = src.get('v')
                    else:
                        break
                if isinstance(clo, dict) and clo.get('k') == 'closure' and clo.get('id') is not None and isinstance(src, dict) and is_sorted_list(src):
                    loops.append({'kind': 'for', 'line': c.get('line'), 'over': c['recv'], 'frame': ('closure', clo['id'])})

        def inside(c, l):
            kind_, ident = l['frame']
            return any(fr.get('k') == kind_ and (fr.get('line') == ident if kind_ == 'for' else fr.get('id') == ident) for fr in c['guard'])
        wl = [l for l in loops if any(inside(c, l) for c in writes)]
        rep.check(len(wl) == 1, 'G3', f'{qual}:one-write-loop', 'one loop over the sorted list', f'{qual}: {len(wl)} loops write items', site)
        if len(wl) == 1:
            outside = [c for c in writes if not inside(c, wl[0])]
            rep.check(not outside, 'G3', f'{qual}:every-write-in-the-sorted-loop', 'items are written only while walking the sorted list', f"{qual}: `{outside[0]['f'] if outside else ''}` is {'reached through ' + str(outside[0].get('via')) + ' ' if outside and outside[0].get('via') else ''}called outside the loop over the sorted list — that item kind is written at a position the topological order did not choose", {'file': d['file'], 'line': outside[0].get('via_line') or outside[0].get('line') if outside else d['line']})
        for l in wl:
            # adaptors between the sorted list and the loop variable
            chain, v2 = [], l['over']
            for _ in range(24):
                v2 = vt.unvar(v2)
                if not isinstance(v2, dict):
                    break
                if v2.get('k') in ('ref', 'deref', 'paren'):
                    v2 = v2.get('v')
                elif v2.get('k') == 'call' and v2.get('recv') is not None:
                    chain.append(v2.get('f'))
                    v2 = v2['recv']
                else:
                    break
            bad = [c for c in chain if c in ('filter', 'skip', 'take', 'rev', 'step_by', 'filter_map', 'sorted')]
            rep.check(not bad, 'G3', f'{qual}:loop-unfiltered', 'in order, unfiltered', f'{qual} iterates the sorted list through {bad}', {'file': d['file'], 'line': l['line']})
        for l in d['loops']:
            # `continue` / `break` inside the loop that *writes* the items skips or cuts off items; a pre-scan over the same list
            # (collecting names before anything is written) may use them freely
            if l.get('ctl') and wl and inside(l, wl[0]):
                rep.fail('G3', f'{qual}:loop-ctl', f"{qual} has `{l['ctl']}` in the item loop", {'file': d['file'], 'line': l['line']})
