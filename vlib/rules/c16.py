"""C16 — rename_all case conversion agrees with serde_derive's algorithm.

MOSTLY NOT DECIDABLE WITH THIS FAMILY, and declared as such: the eight conversions are string transducers with
loop-carried state; whether they agree with serde_derive::internals::case on every identifier (and the fact that
serde has separate field / variant algorithms where typeshare has one) is a statement about computed strings.
A structural diff of the two sources would fire on behaviour-preserving edits and pass behaviour-changing ones; it is
not used.  What IS decided (necessary conditions of agreement):
(E1) the dispatch table of rename_all_to_case has exactly serde's eight rule names (parsed from the locked
serde_derive source), one unguarded arm each, each calling the conversion that corresponds to the rule name, applied
to the function's input; (E2) no rule / an unknown rule returns the input itself; (E3) serde maps case with ASCII
functions only — no Unicode case-mapping function may be reachable from the renaming routine (resolved MIR)."""
import glob
import os
import re

from .. import cg, core, vt

EXPECT = {  # rule name -> conversion (RenameExt contract / std ASCII functions)
    'lowercase': ('to_ascii_lowercase', 'to_lowercase'),
    'UPPERCASE': ('to_ascii_uppercase', 'to_uppercase'),
    'PascalCase': ('to_pascal_case',),
    'camelCase': ('to_camel_case',),
    'snake_case': ('to_snake_case',),
    'SCREAMING_SNAKE_CASE': ('to_screaming_snake_case',),
    'kebab-case': ('to_kebab_case',),
    'SCREAMING-KEBAB-CASE': ('to_screaming_kebab_case',),
}
UNICODE_CASE = re.compile(r'str::<impl str>::to_(lower|upper)case$|char::methods::<impl char>::to_(lower|upper)case$|<impl char>::to_(lower|upper)case$|unicode::conversions::to_(lower|upper)$')


def serde_rules(ctx):
    lock = open(os.path.join(ctx.repo, 'Cargo.lock')).read()
    m = re.search(r'name = "serde_derive"\nversion = "([^"]+)"', lock)
    if not m:
        raise core.Incomplete('serde_derive not in Cargo.lock')
    c = glob.glob(os.path.expanduser(f'~/.cargo/registry/src/*/serde_derive-{m.group(1)}/src/internals/case.rs'))
    if not c:
        raise core.Incomplete('serde_derive case.rs not in the cargo registry (reference table unavailable)')
    txt = open(c[0]).read()
    blk = re.search(r'static RENAME_RULES[^=]*=\s*&\[(.*?)\];', txt, re.S)
    return m.group(1), re.findall(r'\("([^"]+)",', blk.group(1)) if blk else []


def run(ctx, rep):
    rep.explanation = ('Only necessary structural conditions are decided: the rule-name dispatch table against serde_derive\'s RENAME_RULES, identity for absent/unknown '
                       'rules, and absence of Unicode case-mapping functions in the code reachable from the renaming routine (serde is ASCII-only).')
    rep.not_decided = ('agreement of the eight conversions with serde_derive on all identifiers, in field and in variant position — string-transducer equivalence, not decidable by '
                       'this family. Reading the two sources shows real disagreements on the pinned tree (e.g. variant `OK` under snake_case: serde `o_k`, typeshare `ok`; typeshare '
                       'has one algorithm where serde has two); they are outside the decided clause and are NOT reported as findings of this check.')
    rep.trusted = ['syn/astq', 'rustc MIR call graph', 'serde_derive source named by Cargo.lock (RENAME_RULES)']
    ver, rules = serde_rules(ctx)
    rep.check(len(rules) == 8, 'E1', 'serde:rule-table', f'serde_derive {ver}: {rules}', f'could not read 8 rules from serde_derive {ver}', None)
    f = ctx.fn('rename_all_to_case', file='parser.rs')
    site = {'file': f['file'], 'line': f['line']}
    inp = f['params'][0]['name']
    # dispatch table: every match arm of the function whose pattern names a string literal ("x" or Some("x")) maps that
    # rule name to the arm's body; arms without a literal (None, _, Some(_) | None, Some(other)) are the fall-through
    arms, plain, all_arms = {}, [], []
    for m in f['matches']:
        for a in m['arms']:
            all_arms.append(a)
            names = re.findall(r'"([^"]*)"', a['pat'])
            for n in names:
                arms.setdefault(n, []).append(a)
            if not names:
                plain.append(a)
    if not arms:
        raise core.Incomplete('rename_all_to_case: no match arm over rule-name literals found')
    for r in rules:
        al = arms.get(r, [])
        key = f'rule:{r}'
        if not al:
            rep.fail('E1', key, f'rename_all_to_case has no arm for serde\'s rule "{r}": names under that rule stay unchanged while serde renames them', site)
            continue
        guarded = [a for a in al if a.get('guard')]
        if guarded or len(al) > 1:
            rep.fail('E1', key, f'rule "{r}" is handled by a guarded / by several arms (`{vt.show(guarded[0]["guard"])[:70] if guarded else ""}`): for some identifiers the rule is not applied — serde applies a rule to every identifier of its position', {'file': f['file'], 'line': (guarded or al)[0]['line']})
            continue
        body = al[0]['body'].replace(' ', '')
        want = EXPECT.get(r, ())
        ok = any(body == f'{inp}.{w}()' for w in want)
        rep.check(ok, 'E1', key, f'"{r}" → {body}', f'rule "{r}" is mapped to `{al[0]["body"][:60]}` — expected {inp}.{want[0]}() (the conversion of that name applied to the input)', {'file': f['file'], 'line': al[0]['line']})
    extra = [n for n in arms if n not in rules]
    rep.check(not extra, 'E1', 'no-extra-rules', 'no rule names beyond serde\'s', f'rename_all_to_case knows rule names serde does not: {extra}', site)
    # E2: every fall-through arm (no rule / unknown rule) returns the input itself; an arm that merely forwards to a
    # nested match (the Some(value) => match value.as_str() {..} form) is not a fall-through
    inner_texts = [a['body'].replace(' ', '') for a in plain]
    fall = [a for a in plain if not a['body'].lstrip().startswith('match')]
    covers_none = any('None' in a['variants'] for a in fall)
    covers_unknown = any('_' in a['variants'] or re.search(r'Some\s*\(\s*_\s*\)', a['pat']) for a in fall)
    ident = all(a['body'].replace(' ', '') == inp and not a.get('guard') for a in fall)
    rep.check(covers_unknown and ident, 'E2', 'unknown-rule-identity', 'unknown rule ⇒ input unchanged', f"an unknown rule does not yield the unchanged name: {[a['pat'] + ' => ' + a['body'][:40] for a in fall]}", site)
    rep.check(covers_none and ident, 'E2', 'no-rule-identity', 'no rule ⇒ input unchanged', f"without a rename_all rule the name is not returned unchanged: {[a['pat'] + ' => ' + a['body'][:40] for a in fall]}", site)
    # E3 (MIR)
    prog = cg.Program(ctx.mirq('all'))
    cr = cg.CtxReach(prog)
    roots = [k for k in prog.find('rename_all_to_case', crate='typeshare_core') if prog.bodies[k]['kind'] == 'fn']
    if len(roots) != 1:
        raise core.Incomplete('rename_all_to_case not found in MIR')
    reach = cr.reach(roots)
    ascii_seen = 0
    n = 0
    for node in reach:
        b = prog.bodies[node[0]]
        for c in b['calls']:
            n += 1
            if 'to_ascii_lowercase' in c['callee'] or 'to_ascii_uppercase' in c['callee']:
                ascii_seen += 1
            if UNICODE_CASE.search(c['callee']):
                key = f"unicode-case:{b['id'].split('::')[-1]}:{re.sub(chr(92) + 's+', '', c['snippet'])[:40]}"
                rep.fail('E3', key, f"{b['id']} calls the Unicode case mapping `{c['callee'].split('::')[-1]}` (`{c['snippet'][:50]}`) on the renaming path: serde_derive maps case with to_ascii_* only, so identifiers containing non-ASCII letters are renamed differently (ß, é, İ …)", {'file': c['file'], 'line': c['line']})
    rep.analysed['E3:calls_scanned'] = n
    rep.check(ascii_seen >= 3, 'E3', 'positive-control:ascii-mapping-seen', f'{ascii_seen} to_ascii_* calls seen on the renaming path', 'positive control failed: the scanner does not see the ASCII case-mapping calls of the conversions', None)
    rep.floor('E3', 'bodies reachable from rename_all_to_case', len(reach), 6)
