"""C17 — re-running is idempotent and the output depends only on the latest inputs.

Decided: the write discipline.  (W1) who may write (shared with C08); (W4) in every generation-path writer the
write is dominated by a whole-file read of the same path and by an equality test whose equal-branch cannot reach
the write, and the bytes compared are exactly the bytes written; (W5) writes truncate (fs::write / File::create, or
OpenOptions with truncate(true)), never append; the old content flows only into the equality test;
(W7) the bytes written are a deterministic function of the inputs (the hash-order consumers of C06's D1 rule).
Not decided: multi-run histories — which files a later run is responsible for, stale files of vanished crates."""
import json
import os
import re

from .. import cg, core, vt
from . import c06, c08

GEN_WRITERS = {'writer::check_write_file': ('check_write_file', 'cli/src/writer.rs'), 'language::swift::Swift::write_codable_file': ('Swift::write_codable_file', 'language/swift.rs')}
WHOLE_READ = ('std::fs::read', 'std::fs::read_to_string', 'std::io::Read::read_to_end', 'std::io::Read::read_to_string')
PARTIAL_READ = ('read_exact', 'Read::read', 'read_at', 'read_buf', 'io::Read::take', 'BufRead')    # `take` = io::Read::take (not mem::take / Option::take)


def gen_writers(ctx, prog):
    """GEN_WRITERS with the output writer of the CLI under its actual name (found by role: wiring.output_writer)."""
    from .. import wiring
    ow = wiring.output_writer(ctx, prog)
    for k_ in [k_ for k_ in GEN_WRITERS if GEN_WRITERS[k_][1] == 'cli/src/writer.rs']:
        del GEN_WRITERS[k_]
    GEN_WRITERS[ow['mir']] = (ow['name'], 'cli/src/writer.rs')
    # the Swift back end's own file writer (Codable.swift), also by role: the one function of swift.rs that writes a file
    import re as _re
    wr = _re.compile(r'std::fs::write$|std::fs::File::create(_new)?$|OpenOptions::open$')
    sw = [b for b in prog.bodies.values() if b['kind'] in ('fn', 'assoc_fn') and str(b.get('file', '')).endswith('language/swift.rs') and not b.get('derived') and any(wr.search(c['callee']) for c in b['calls'])]
    if len(sw) == 1:
        for k_ in [k_ for k_ in GEN_WRITERS if GEN_WRITERS[k_][1] == 'language/swift.rs']:
            del GEN_WRITERS[k_]
        GEN_WRITERS[sw[0]['id']] = ('Swift::' + sw[0]['id'].split('::')[-1], 'language/swift.rs')
    return GEN_WRITERS


def run(ctx, rep):
    rep.explanation = ('Idempotence decided on the shape of the two generation-path writers in the resolved program: MIR dominators (read and equality test dominate the '
                       'write; the equal branch cannot reach it), def-use (old file content flows only into the comparison; the compared value is the written value), '
                       'the set of write primitives (truncating only) and the who-may-write whitelist; determinism of the written bytes is inherited from the '
                       'hash-order consumer rule.')
    rep.not_decided = 'multi-run histories: which files a later run is responsible for and stale files of crates that disappeared; the `!output.is_empty()` guard (an empty result leaves an older file in place) is reported as information only.'
    rep.trusted = ['rustc MIR (dominators, moves, resolved callees)', 'std::fs contracts (fs::write / File::create truncate)']
    prog = cg.Program(ctx.mirq('all'))
    # the output writer is found by role (wiring.output_writer): the table is re-keyed with its actual name
    gen_writers(ctx, prog)
    c08.w.__wrapped__ = None
    # W1 (who may write)
    sub = core.Report('C17', rep.tier)
    c08.w(ctx, sub, prog)
    for o in sub.obligations:
        if o['rule'] == 'W1':
            rep.obligations.append(o)
    for bid, (qual, file) in GEN_WRITERS.items():
        ks = [k for k in prog.bodies if prog.bodies[k]['id'] == bid]
        if len(ks) != 1:
            raise core.Incomplete(f'writer {bid} not found')
        b = prog.bodies[ks[0]]
        f = ctx.fnx(qual, file=file)
        site = {'file': b['file'], 'line': b['line']}
        name = qual.split('::')[-1]
        calls = b['calls']
        reads = [c for c in calls if is_whole_read(c)]
        partial = [c for c in calls if not is_whole_read(c) and (any(p in c['callee'] for p in PARTIAL_READ) or c['callee'].endswith('File::open'))]
        oo_names = oo_flags(calls)
        writes = [c for c in calls if is_write_event(c, oo_names)]
        # a write performed inside a closure (`.and_then(|()| file.write_all(..))`) happens where the closure is handed over
        for r in b['refs']:
            if r.get('kind') == 'closure' and r.get('key') in prog.bodies:
                for k2 in prog.region([r['key']]):
                    for c2 in prog.bodies[k2]['calls']:
                        if is_write_event(c2, oo_names):
                            writes.append(dict(c2, bb=r['bb'], in_closure=True))
        eqs = [c for c in calls if c['callee'].endswith('PartialEq<std::vec::Vec<U, A2>>>::eq') or re.search(r'PartialEq.*::eq$|PartialEq.*::ne$', c['callee'])]
        eqs = [c for c in eqs if any('u8' in t for t in c.get('arg_tys', []))]
        # logic moved into local helpers: a helper that wraps the whole-file read counts as the read; a bool helper that
        # reads and compares counts as the equality test (its own contract is checked on its value tree below)
        partial_h, cmp_helpers = [], []
        for c in calls:
            for h in prog.targets_of_call(c):
                if h == ks[0] or prog.crate_of.get(h) != prog.crate_of[ks[0]] or prog.bodies[h]['id'] in GEN_WRITERS:
                    continue
                hr = prog.region([h])
                hcalls = [x for k2 in hr for x in prog.bodies[k2]['calls']]
                h_reads = [x for x in hcalls if is_whole_read(x)]
                h_eqs = [x for x in hcalls if re.search(r'PartialEq.*::(eq|ne)$', x['callee']) and any('u8' in t for t in x.get('arg_tys', []))]
                h_writes = [x for x in hcalls if c08.WRITE_API.search(x['callee'])]
                partial_h += [x for x in hcalls if not is_whole_read(x) and (any(p in x['callee'] for p in PARTIAL_READ) or x['callee'].endswith('File::open'))]
                if h_reads and not h_writes and h_eqs and prog.bodies[h]['locals'].get('_0') == 'bool':
                    cmp_helpers.append((c, h))
                elif h_reads and not h_writes and not h_eqs:
                    reads.append(c)
        partial = partial + partial_h
        for c, h in cmp_helpers:
            okh, whyh = cmp_helper_contract(ctx, prog.bodies[h])
            rep.check(okh, 'W4', f"{name}:compare-helper:{prog.bodies[h]['id'].split('::')[-1]}", 'helper is true exactly when the file could be read and its bytes equal the argument', f"{name} decides through {prog.bodies[h]['id']}, {whyh}", {'file': prog.bodies[h]['file'], 'line': prog.bodies[h]['line']})
            reads.append(c)
            eqs.append(dict(c, callee=c['callee'] + '::eq', via_helper=True))
        # W5 truncating primitives (decided independently of W4)
        truncating(prog, b, ks[0], rep, name, site, writes)
        rep.check(bool(writes), 'W4', f'{name}:writes', 'write primitive present', f'{name}: no write primitive found', site)
        rep.check(bool(reads) and not partial, 'W4', f'{name}:whole-file-read', 'old content read completely (fs::read)', f"{name} reads the existing file with {sorted({c['callee'].split('::')[-1] for c in partial}) or 'nothing'} instead of a whole-file read: a file that merely *starts* with the new output compares equal and is left untouched (stale tail kept)", site)
        if not (reads and writes and eqs):
            rep.check(bool(eqs), 'W4', f'{name}:equality-test', 'byte equality test', f'{name}: no byte-for-byte equality test between old and new content', site)
            continue
        # attempts to get at the old content: the whole-file read itself, or the (non-truncating) open of the handle it is read from
        attempts = reads + [c for c in calls if c['callee'].endswith(('OpenOptions::open', 'File::open')) and not is_write_event(c, oo_names)]
        for wr in writes:
            dom = any(prog.dominates(b, r['bb'], wr['bb']) for r in attempts)
            # on the path where the old content was obtained, the write is only reachable through the equality test
            through_eq = any(e.get('via_helper') and prog.dominates(b, e['bb'], wr['bb']) for e in eqs)   # helper: read and test are one call
            for r in attempts:
                ok_bbs = read_ok_targets(b, r, prog)
                avoid = {e['bb'] for e in eqs}
                if ok_bbs is None:
                    # the outcome of the read is never inspected: both outcomes continue together and must pass the test
                    ok_bbs = [r['bb']]
                if prog.dominates(b, r['bb'], wr['bb']) and all(wr['bb'] not in prog.reachable_blocks(b, ob, avoid=avoid) for ob in ok_bbs):
                    through_eq = True
            rep.check(dom and through_eq, 'W4', f"{name}:compare-dominates:{wr['callee'].split('::')[-1]}", 'after a successful read the write is only reachable through the equality test', f"{name}: `{wr['callee'].split('::')[-1]}` can be reached after a successful read of the old content without the equality test — an unchanged file is rewritten (mtime changes)", {'file': wr['file'], 'line': wr['line']})
        # equal branch must not reach a write
        for e in eqs:
            res = c08.moved_set(b, e['dest'].split(' ')[0])
            tgt_true = None
            for i, blk in enumerate(b['blocks']):
                m = re.match(r'switchInt\((?:move|copy) (_\d+)\) -> \[0: bb(\d+), otherwise: bb(\d+)\]', blk['term'])
                if m and m.group(1) in res:
                    tgt_true = int(m.group(3)) if e['callee'].endswith('::eq') else int(m.group(2))
            if tgt_true is None:
                rep.fail('W4', f'{name}:equal-branch', f'{name}: the result of the equality test does not control a branch', site)
                continue
            reach = cg.reachable_blocks_known(b, tgt_true)     # flags set on the way (`matches!` with a guard, `&&`) are remembered
            bad = [wr for wr in writes if wr['bb'] in reach]
            rep.check(not bad, 'W4', f'{name}:equal-branch-skips-write', 'equal content ⇒ no write', f"{name}: the write is still reached when old and new content are equal", site)
        # old content only flows into the comparison
        for r in reads:
            ms = c08.moved_set(b, r['dest'].split(' ')[0])
        # (payload of Ok(buf) is a field projection, tracked through the astq view below)
        # written value == compared value (astq)
        cmp_v, wr_v = compared_and_written(ctx, f)
        if cmp_v is None or wr_v is None:
            rep.fail('W4', f'{name}:same-bytes', f'{name}: could not identify the compared and the written value', site)
        else:
            same = cmp_v == wr_v
            rep.check(same, 'W4', f'{name}:same-bytes', f'compared and written value: {cmp_v}', f"{name}: the existing file is compared with `{cmp_v}` but `{wr_v}` is written — the comparison can never succeed for content this function wrote itself, so the file is rewritten on every run (mtime not preserved)", site)
    # informational
    rep.note('check_write_file skips writing when the new output is empty: an older non-empty file stays in place (not part of the decided clause).')
    # W8: a successful run always reaches the writer — no early success exit ("nothing to do" shortcuts decided from
    # time stamps, caches or the like) in generate_types: a run is responsible for giving every output file the content
    # a run into an empty location would produce, and only the writer's byte comparison may decide to leave a file alone
    gt = ctx.fnx('generate_types', file='cli/src/main.rs')
    wg = [c for c in gt['calls'] if c.get('f') in ('write_generated', 'writer::write_generated')]
    if not wg:
        raise core.Incomplete('generate_types: call of write_generated not found')
    early_ok = []
    for r in gt.get('returns', []):
        v = vt.unvar(r.get('v'))
        is_ok = isinstance(v, dict) and ((v.get('k') == 'call' and str(v.get('f', '')).split('::')[-1] == 'Ok') or v.get('k') == 'ok')
        if is_ok and r.get('line', 0) < wg[0].get('line', 0) and not r.get('via'):
            early_ok.append(r)
    conds = [fr for fr in wg[0]['guard'] if fr.get('k') == 'if' and not fr.get('early_exit')]
    why8 = ''
    if early_ok:
        why8 = 'early `return Ok(..)` under `' + vt.show(next((fr['c'] for fr in early_ok[0]['guard'] if fr.get('k') == 'if'), None))[:70] + '`'
    elif conds:
        why8 = 'the call is conditional on `' + vt.show(conds[0]['c'])[:70] + '`'
    rep.check(not early_ok and not conds, 'W8', 'generate_types:writer-always-reached', 'every successful run reaches write_generated', f"generate_types can finish successfully without calling write_generated ({why8}): outputs are left as an earlier run wrote them although the inputs (a deleted or moved source file, a changed option) would now produce something else", {'file': gt['file'], 'line': (early_ok[0].get('line') if early_ok else wg[0].get('line'))})
    # W7: determinism of the bytes
    sub = core.Report('C17', rep.tier)
    c06.run(ctx, sub)
    n = 0
    for o in sub.obligations:
        if o['rule'] == 'D1':
            n += 1
            o2 = dict(o)
            o2['rule'] = 'W7'
            o2['key'] = 'W7:' + o['key'].split(':', 1)[1]
            rep.obligations.append(o2)
    rep.floor('W7', 'hash-order consumer sites (from C06 D1)', n, 8)


def derived_set(body, start):
    """Locals whose value derives from `start`: plain moves/copies/Some wraps, and results of calls that take a derived
    local as an argument (with_context, map_err, Try::branch, From::from ... — the Result of a read on its way to a test)."""
    s = set(c08.moved_set(body, start))
    changed = True
    while changed:
        changed = False
        for c in body['calls']:
            d = (c.get('dest') or '').split(' ')[0]
            if d and d not in s and any(re.search(rf'\b(move|copy) {x}\b', a) for a in c['args'] for x in s):
                s |= c08.moved_set(body, d)
                changed = True
    return s


def read_ok_targets(body, r, prog=None):
    """Blocks entered when the read succeeded: the `0` targets (Ok / Continue) of every switch on the discriminant of a value
    derived from the read's result; None when the result is never inspected."""
    rs = derived_set(body, r['dest'].split(' ')[0])
    out = []
    for blk in body['blocks']:
        dm = [re.match(r'(_\d+) = discriminant\((_\d+)\)', st) for st in blk['stmts']]
        dm = [m for m in dm if m and m.group(2) in rs]
        sw = re.match(r'switchInt\((?:move|copy) (_\d+)\) -> \[0: bb(\d+)', blk['term'])
        if dm and sw and sw.group(1) == dm[-1].group(1):
            out.append((body['blocks'].index(blk), int(sw.group(2))))
    # the outcome is decided at the first inspection; later switches on the same value (drop elaboration) re-test it
    if prog is not None:
        out = [(sb, t) for sb, t in out if not any(sb2 != sb and prog.dominates(body, sb2, sb) for sb2, _ in out)]
    return [t for _, t in out] or None


def oo_flags(calls):
    """Names of the OpenOptions builder calls in effect: a boolean setter counts only when its argument is `true`
    (`.truncate(false)` does not truncate); `new` / `open` are kept so that the chain can be printed."""
    out = set()
    for c in calls:
        if 'OpenOptions' not in c['callee']:
            continue
        nm = c['callee'].split('::')[-1]
        arg = (c.get('args') or [''])[-1]
        if nm in ('read', 'write', 'append', 'truncate', 'create', 'create_new') and re.search(r'const false', arg):
            continue
        out.add(nm)
    return out


def is_write_event(c, oo_names):
    """A call that changes the content or the modification time of the output file: fs::write, File::create*, a truncating or
    creating OpenOptions::open, set_len, and io::Write methods on a File handle.  Configuring an OpenOptions value or opening
    an existing file read/write without truncation changes nothing yet."""
    cal = c['callee']
    if re.search(r'std::fs::write$|fs::File::create$|File::create_new$|fs::remove_file$|fs::rename$|fs::copy$|File::set_len$|fs::hard_link$', cal):
        return True
    if cal.endswith('OpenOptions::open'):
        # opening an existing file changes it only when the chain truncates (create/append leave content and mtime alone)
        return bool(oo_names & {'truncate'})
    if (c.get('declared') or '').startswith('std::io::Write::') and any('fs::File' in t for t in c.get('arg_tys', [])[:1]):
        return True
    return False


def is_whole_read(c):
    names = (c.get('declared') or '', c.get('callee') or '')
    return any(n == r or n.endswith('::' + r.split('::', 1)[-1]) for n in names for r in WHOLE_READ)


def truncating(prog, b, key, rep, name, site, writes):
    """W5: the bytes of an earlier output never survive a rewrite.  Write primitives are fs::write / File::create (truncate by
    contract) or a handle from an OpenOptions chain that is opened for writing with truncate(true) / create_new(true), never
    append; a handle opened for writing without truncation is accepted only when the function itself cuts the file with
    set_len(0) (manual truncation).  Looks through same-crate helpers of the writer."""
    region = prog.region([key])
    calls = [x for k2 in region if prog.bodies[k2]['id'] not in GEN_WRITERS or k2 == key for x in prog.bodies[k2]['calls']]
    oo = [c for c in calls if 'OpenOptions' in c['callee']]
    names = oo_flags(calls)
    for_write = names & {'write', 'append', 'create', 'create_new', 'truncate'}
    set_len0 = [c for c in calls if c['callee'].endswith('File::set_len') and c['args'][1:2] and re.match(r'const 0_u64', c['args'][1])]
    if oo and for_write:
        ok = ('truncate' in names or 'create_new' in names or bool(set_len0)) and 'append' not in names
        rep.check(ok, 'W5', f'{name}:truncating', f'OpenOptions chain {sorted(names)}', f"{name} opens the output with OpenOptions {sorted(names)} — without truncate(true) a shorter new output leaves the tail of the previous file in place; with append the old content is kept", site)
    else:
        prim = sorted({c['callee'].split('::')[-1] for c in writes if 'OpenOptions' not in c['callee']})
        rep.check(set(prim) <= {'write', 'create', 'write_all', 'flush', 'sync_all', 'sync_data'}, 'W5', f'{name}:truncating', f'{prim} (truncate by contract)', f'{name}: unexpected write primitives {prim}', site)
    bad = [c for c in calls if c['callee'].endswith(('OpenOptions::append', 'fs::rename'))]
    if not set_len0:
        bad += [c for c in calls if c['callee'].endswith('File::set_len') or c.get('declared', '').endswith(('Seek::seek', 'Seek::rewind', 'Seek::seek_relative'))]
    rep.check(not bad, 'W5', f'{name}:no-append-rename-seek', 'no append / rename; no seek or set_len other than a manual truncation to 0', f"{name} uses {[c['callee'] for c in bad][:2]} — repositioning inside or appending to the previous file keeps part of its content", site)


def _is_read_call(x):
    x = vt.unvar(x)
    return isinstance(x, dict) and x.get('k') == 'call' and str(x.get('f', '')).replace(' ', '').endswith(('fs::read', 'read_to_string', 'read_to_end'))


def closed_comparison(v):
    """`<read>.is_ok_and(|old| old == X)`, `<read>.map_or(false, |old| old == X)`, `<read>.map(|old| old == X).unwrap_or(false)`,
    `<read>.ok().is_some_and(..)`, `matches!(<read>, Ok(old) if old == X)`: true exactly when the file could be read and its bytes
    equal X.  Returns X (the value compared with the old bytes) or None."""
    v = vt.unvar(v)
    if not isinstance(v, dict):
        return None

    def eq_other(body, elem_of):
        b = vt.unvar(body.get('body') if body.get('k') == 'closure' else body)
        if isinstance(b, dict) and b.get('k') == 'op' and b.get('op') == '==' and len(b.get('args', [])) == 2:
            sides = [vt.strip(a_) for a_ in b['args']]
            old = [i for i, a_ in enumerate(sides) if isinstance(vt.unvar(a_), dict) and vt.unvar(a_).get('k') in ('elem', 'payload') and _is_read_call(_peel_ok(vt.unvar(a_).get('of')))]
            if len(old) == 1:
                return b['args'][1 - old[0]]
        return None
    if v.get('k') == 'call' and v.get('f') in ('is_ok_and', 'is_some_and') and v.get('args') and _is_read_call(_peel_ok(v.get('recv'))):
        return eq_other(vt.unvar(v['args'][0]), v.get('recv'))
    if v.get('k') == 'call' and v.get('f') == 'map_or' and len(v.get('args', [])) == 2 and _is_read_call(_peel_ok(v.get('recv'))):
        d0 = vt.strip(v['args'][0])
        if isinstance(d0, dict) and d0.get('k') == 'lit' and d0.get('v') is False:
            return eq_other(vt.unvar(v['args'][1]), v.get('recv'))
    if v.get('k') == 'call' and v.get('f') in ('unwrap_or', 'unwrap_or_default') and isinstance(vt.unvar(v.get('recv')), dict):
        r = vt.unvar(v['recv'])
        d0 = vt.strip(v['args'][0]) if v.get('args') else {'k': 'lit', 'v': False}
        if r.get('k') == 'call' and r.get('f') == 'map' and r.get('args') and _is_read_call(_peel_ok(r.get('recv'))) and isinstance(d0, dict) and d0.get('v') is False:
            return eq_other(vt.unvar(r['args'][0]), r.get('recv'))
    if v.get('k') == 'matches' and _is_read_call(v.get('scrut')) and 'Ok' in ''.join(v.get('variants', [])) and v.get('guard') is not None:
        return eq_other(v['guard'], v.get('scrut'))
    return None


def _peel_ok(x):
    x = vt.unvar(x)
    while isinstance(x, dict) and x.get('k') == 'call' and x.get('f') in ('ok', 'as_ref', 'as_deref') and x.get('recv') is not None:
        x = vt.unvar(x['recv'])
    return x


def cmp_helper_contract(ctx, hb):
    """A bool helper used as the compare step: with the read succeeding its value is `old == new` (new = a parameter),
    with the read failing it is false."""
    cands = [f for f in ctx.astq['functions'] if f['file'] == hb['file'] and f['line'] == hb['line']]
    if len(cands) != 1:
        return False, 'whose source could not be located'
    from .. import inline
    h = ctx.x(cands[0])
    res = inline._result(h)
    params0 = [p['name'] for p in cands[0]['params']]
    other = closed_comparison(res)
    if other is not None:
        o = vt.strip(other)
        while isinstance(o, dict) and o.get('k') in ('ref', 'deref', 'paren'):
            o = vt.strip(o.get('v'))
        if isinstance(o, dict) and o.get('k') == 'atom' and o.get('root') in params0:
            return True, ''
        return False, f'which compares the old bytes with `{vt.show(other)[:60]}`, not with its argument'

    def is_read(x):
        x = vt.unvar(x)
        return isinstance(x, dict) and x.get('k') == 'call' and str(x.get('f', '')).replace(' ', '').endswith(('fs::read', 'read_to_string', 'read_to_end'))
    ok_v = vt.unvar(vt.peval(res, lambda sc: 'Ok' if is_read(sc) else None))
    err_v = vt.unvar(vt.peval(res, lambda sc: 'Err' if is_read(sc) else None))
    params = [p['name'] for p in cands[0]['params']]
    good_ok = isinstance(ok_v, dict) and ok_v.get('k') == 'op' and ok_v.get('op') == '==' and any(isinstance(vt.strip(a), dict) and vt.strip(a).get('k') == 'payload' and is_read(vt.strip(a).get('of')) for a in ok_v['args']) \
        and any(isinstance(vt.strip(a), dict) and vt.strip(a).get('k') == 'atom' and vt.strip(a).get('root') in params for a in ok_v['args'])
    good_err = isinstance(err_v, dict) and err_v.get('k') == 'lit' and err_v.get('v') is False
    if not good_ok:
        return False, f'which on a successful read yields `{vt.show(ok_v)[:80]}` instead of comparing the old bytes with its argument'
    if not good_err:
        return False, f'which yields `{vt.show(err_v)[:60]}` instead of false when the file cannot be read'
    return True, ''


def compared_and_written(ctx, f):
    """Textual identity of the value compared with the old content and of the value handed to the write."""
    cmp_v = None
    for m in f['matches']:
        for a in m['arms']:
            if a.get('guard') and vt.strip(a['guard']).get('k') == 'op' and vt.strip(a['guard']).get('op') == '==':
                args = vt.strip(a['guard'])['args']
                cmp_v = vt.show(vt.strip(args[1]))
    for c in f['calls']:
        pass
    # `if buf == x` form
    if cmp_v is None:
        for x in [fr['c'] for c in f['calls'] + f['returns'] for fr in c.get('guard', []) if fr.get('k') == 'if']:
            y = vt.strip(x)
            if isinstance(y, dict) and y.get('k') == 'op' and y.get('op') == '==':
                cmp_v = show_bytes(y['args'][1])
            elif isinstance(y, dict) and closed_comparison(y) is not None:
                cmp_v = show_bytes(closed_comparison(y))
            elif isinstance(y, dict):
                # the comparison sits inside the (inlined) condition: old bytes = payload of the whole-file read
                for z in vt.walk(y):
                    if z.get('k') == 'op' and z.get('op') == '==' and len(z.get('args', [])) == 2:
                        sides = [vt.strip(a) for a in z['args']]
                        old = [i for i, a in enumerate(sides) if isinstance(a, dict) and a.get('k') == 'payload' and 'read' in str(vt.unvar(a.get('of')).get('f', ''))]
                        if len(old) == 1:
                            cmp_v = show_bytes(z['args'][1 - old[0]])
    wr_v = None
    for c in f['calls']:
        if c.get('f') in ('fs::write', 'std::fs::write') and len(c.get('args', [])) == 2:
            wr_v = show_bytes(c['args'][1])
        if c.get('f') == 'write_all' and c.get('args'):
            wr_v = show_bytes(c['args'][0])
        if c.get('f') == 'write_codable' and len(c.get('args', [])) == 2:
            # resolve the helper's template
            g = ctx.fn('Swift::write_codable', file='swift.rs')
            s = g['sites'][0] if g['sites'] else None
            if s:
                parts = s['fmt']['parts']
                inner = show_bytes(c['args'][1])
                lit = ''.join(p.get('lit', '') for p in parts)
                wr_v = inner + (' + ' + repr(lit) if lit else '') + (" + '\\n'" if s.get('nl') else '')
    return cmp_v, wr_v


def show_bytes(v):
    s = vt.show(vt.strip(v))
    return re.sub(r'\.as_bytes\(\)$', '', s)
