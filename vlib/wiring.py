"""Config -> backend wiring in cli::language() (shared by C05 and C20)."""
from . import core, vt

SECTION = {'Swift': 'swift', 'Kotlin': 'kotlin', 'Scala': 'scala', 'TypeScript': 'typescript', 'Go': 'go', 'Python': 'python'}
PARAMS = {'swift': 'SwiftParams', 'kotlin': 'KotlinParams', 'scala': 'ScalaParams', 'typescript': 'TypeScriptParams', 'go': 'GoParams', 'python': 'PythonParams'}
ADAPTERS = {'GenericConstraints::from_config'}


def backend_wiring(ctx, rep, rule, only_fields=None):
    """Each backend struct field is initialised from config.<own language>.<same name>; every params field is consumed.
    The backend literals are looked for in the whole CLI crate (language() itself, `From<XParams> for X` impls, builder
    helpers): a field value is either `config.<section>.<field>` (root of type Config) or `<params>.<field>` where the root
    is a value of the language's own params struct."""
    fns = [f for f in ctx.astq['functions'] if f['file'].startswith('cli/src/')]
    fl = ctx.fnx('language', file='cli/src/main.rs')
    lits = []
    for f in [fl] + [g for g in fns if not (g['file'] == fl['file'] and g['name'] == fl['name'])]:
        for st in f['structs']:
            nm = st['path'].split('::')[-1]
            if nm == 'Self':        # `impl From<XParams> for X { fn from(p) -> Self { Self { .. } } }`
                nm = (f.get('self_ty') or '').split('<')[0].split('::')[-1]
                st = dict(st, path=nm)
            if nm in SECTION:
                lits.append((f, st))
    have = {st['path'].split('::')[-1] for _, st in lits}
    rep.floor(rule, 'backends constructed somewhere in the CLI crate', len(have), 6)
    consumed = {}
    for f, st in lits:
        be = st['path'].split('::')[-1]
        sec = SECTION[be]
        site = {'file': f['file'], 'line': st['line']}
        for fld, v in st['v']['fields'].items():
            if only_fields and fld not in only_fields:
                continue
            key = f'{be}.{fld}'
            inner = vt.strip(v)
            if isinstance(inner, dict) and inner.get('k') == 'call' and inner.get('f') in ADAPTERS and inner.get('args'):
                inner = vt.strip(inner['args'][0])
            if isinstance(inner, dict) and inner.get('k') == 'atom' and inner.get('root_ty') == 'Config':
                path = inner.get('path', [])
                ok = len(path) == 2 and path[0] == sec and path[1] == fld
                if len(path) == 2:
                    consumed.setdefault(be, set()).add((path[0], path[1]))
                rep.check(ok, rule, key, f'{be}.{fld} = config.{".".join(path)}', f"{f['name']}(): {be}.{fld} is initialised from config.{'.'.join(path)} — expected config.{sec}.{fld} (another language's / another setting's value is silently used)", site)
            elif isinstance(inner, dict) and inner.get('k') == 'atom' and str(inner.get('root_ty', '')).endswith('Params'):
                path = inner.get('path', [])
                own = inner.get('root_ty') == PARAMS[sec]
                ok = own and len(path) == 1 and path[0] == fld
                if own and len(path) == 1:
                    consumed.setdefault(be, set()).add((sec, path[0]))
                rep.check(ok, rule, key, f'{be}.{fld} = <{inner.get("root_ty")}>.{".".join(path)}', f"{f['qual']}: {be}.{fld} is initialised from {inner.get('root_ty')}.{'.'.join(path)} — expected the field `{fld}` of {PARAMS[sec]} (another language's / another setting's value is silently used)", site)
            elif isinstance(inner, dict) and inner.get('k') == 'atom' and inner.get('param') and inner.get('root') == fld:
                rep.ok(rule, key, f'{be}.{fld} = parameter {fld}', site)
            else:
                rep.fail(rule, key, f"{f['qual']}: {be}.{fld} is initialised from `{vt.show(v)[:80]}`, not from config.{sec}.{fld}", site)
    if only_fields:
        return
    # reverse: every field of the params struct is used by a construction of its own backend
    for be, sec in SECTION.items():
        ps = [i for i in ctx.astq['items'] if i['kind'] == 'struct' and i['name'] == PARAMS[sec]]
        if not ps:
            raise core.Incomplete(f'config struct {PARAMS[sec]} not found')
        f0, st0 = next(((f, st) for f, st in lits if st['path'].split('::')[-1] == be), (fl, {'line': fl['line']}))
        for pf in ps[0]['fields']:
            rep.check((sec, pf['name']) in consumed.get(be, set()), rule, f'{sec}.{pf["name"]}:consumed', 'consumed by its backend', f"the configuration value {sec}.{pf['name']} is never handed to the {be} backend — the setting from typeshare.toml / the command line has no effect", {'file': f0['file'], 'line': st0['line']})


def config_mutations(ctx, prog):
    """Type-directed inventory (MIR places, so aliases, methods on Config and nested helpers are all seen): every statement in
    hand-written code of the CLI crate that assigns to, or takes a mutable borrow of, a place inside `config::Config` / a
    `config::*Params` value.  Returns [(function id, params struct, field name, statement, file, line)]."""
    import re
    adts = {a['path']: a for a in ctx.mirq('all')['crates']['typeshare#bin']['adts']}
    out = []
    proj = re.compile(r'\.(\d+): (config::(?:\w+Params|Config))\)((?:\.\d+: [^()]*(?:\([^()]*\))?[^()]*\))?)')
    for k, b in prog.bodies.items():
        if prog.crate_of[k] != 'typeshare#bin' or b.get('derived') or b.get('exp'):
            continue
        for blk in b['blocks']:
            for st in blk['stmts']:
                lhs, _, rhs = st.partition(' = ')
                target = None
                if 'config::' in lhs and lhs.startswith('('):
                    target = lhs
                elif rhs.startswith('&mut ') and 'config::' in rhs:
                    target = rhs
                if target is None:
                    continue
                # innermost params struct on the path and the field selected from it
                ms = list(re.finditer(r': (config::(?:\w+Params|Config))\)\.(\d+): ', target))
                if ms:
                    owner, idx = ms[-1].group(1), int(ms[-1].group(2))
                else:
                    m1 = re.search(r'\.(\d+): (config::(?:\w+Params|Config))\)', target)
                    if not m1:
                        continue
                    owner, idx = 'config::Config', int(m1.group(1))
                fields = (adts.get(owner) or {}).get('variants', [{}])[0].get('fields', [])
                fname = fields[idx]['name'] if idx < len(fields) else f'#{idx}'
                out.append((b['id'], owner, fname, st[:140], b['file'], b['line']))
    return out


_OW = {}


def output_writer(ctx, prog=None):
    """The compare-before-write writer of the CLI, found by what it does — whatever it is called (`check_write_file` on the pinned
    tree): the one hand-written function of cli/src/writer.rs whose own body both reads a file whole (`fs::read` …) and writes one
    (`fs::write` / `File::create` / `OpenOptions::open`).  Returns {'mir': 'writer::<name>', 'name': <name>, 'file': …}."""
    import re
    from . import cg
    key = id(ctx)
    if key in _OW:
        return _OW[key]
    prog = prog or cg.Program(ctx.mirq('all'))
    RD = re.compile(r'std::fs::read(_to_string)?$|std::io::Read::read_to_(end|string)$')
    WR = re.compile(r'std::fs::write$|std::fs::File::create(_new)?$|OpenOptions::open$|std::io::Write::write_all$')
    cands = []
    for k, b in prog.bodies.items():
        if b['kind'] != 'fn' or not str(b.get('file', '')).endswith('cli/src/writer.rs') or b.get('derived'):
            continue
        callees = [c['callee'] for c in b['calls']]
        if any(RD.search(x) for x in callees) and any(WR.search(x) for x in callees):
            cands.append(b)
    named = [b for b in cands if b['id'].split('::')[-1] == 'check_write_file']
    if len(cands) > 1 and len(named) == 1:
        cands = named       # the name the rules were written against breaks a tie: any other reader-and-writer is then judged by W1
    if not cands:
        # nobody both reads and writes (the comparison may be what a change broke): the function of that name, else the only
        # function of the file that writes at all — the rules then say what is missing in it
        writers = [b for b in prog.bodies.values() if b['kind'] == 'fn' and str(b.get('file', '')).endswith('cli/src/writer.rs') and not b.get('derived') and any(WR.search(c['callee']) for c in b['calls'])]
        named = [b for b in prog.bodies.values() if b['kind'] == 'fn' and str(b.get('file', '')).endswith('cli/src/writer.rs') and b['id'].split('::')[-1] == 'check_write_file']
        cands = named if len(named) == 1 else (writers if len(writers) == 1 else [])
    if len(cands) != 1:
        from . import core
        raise core.Incomplete(f'cli/src/writer.rs: the compare-before-write writer (a function that reads a file whole and writes one) expected once, found {[b["id"] for b in cands]}')
    b = cands[0]
    _OW.clear()
    _OW[key] = {'mir': b['id'], 'name': b['id'].split('::')[-1], 'file': 'cli/src/writer.rs', 'line': b['line']}
    return _OW[key]


def override_fn(ctx):
    """The function of the CLI crate that lays the command-line options over the loaded configuration — `override_configuration(config,
    &options)` on the pinned tree, `Config::overridden_by(self, &options)` elsewhere — found by its signature: it takes the whole
    Config (by value or `self`) and the Args, and hands a Config back.  Returns (astq function, config parameter name, options
    parameter name)."""
    from . import core
    cands = []
    for g in ctx.astq['functions']:
        if not g['file'].startswith('cli/src/') or g.get('nested_in'):
            continue
        ptys = {p_['name']: str(p_.get('ty') or '') for p_ in g['params']}
        opts = [n for n, t in ptys.items() if t.replace('&', '').strip() == 'Args']
        cfgs = [n for n, t in ptys.items() if t.replace('&', '').replace('mut ', '').strip() == 'Config'] or (['self'] if 'self' in ptys and (g.get('self_ty') or '') == 'Config' else [])
        if opts and cfgs and 'Config' in str(g.get('ret') or '').replace('Self', 'Config' if (g.get('self_ty') or '') == 'Config' else 'Self'):
            cands.append((g, cfgs[0], opts[0]))
    named = [c for c in cands if c[0]['name'].split('::')[-1] == 'override_configuration']
    if len(cands) > 1 and len(named) == 1:
        cands = named
    if len(cands) != 1:
        raise core.Incomplete(f"CLI crate: the function that lays the command-line options over the configuration (takes Config and &Args, returns Config) expected once, found {[c[0]['qual'] for c in cands]}")
    return cands[0]
