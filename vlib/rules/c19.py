"""C19 — #[typeshare] is transparent to the Rust compiler and to serde.

Decided: the macro's effect.  (Y1) the only mutation of the parsed item anywhere in the proc-macro crate is
`Vec<Attribute>::retain` inside the helper-attribute remover, whose predicate keeps every attribute whose *path*
differs from the literal `typeshare` (so all helpers on a member are removed and nothing else is); the macro
arguments are never read; (Y2) when the input does not parse as a DeriveInput the untouched input stream is
returned, otherwise the token stream of that same item; (Y3) the remover is applied at every helper-attribute
position of syn::Data: enum variants and every field of every variant (named and unnamed), struct fields of every
shape, union fields.  Not decided: rustc/serde behaviour on arbitrary twin programs."""
import json
import re

from .. import core, vt

MUTATORS = {'retain', 'retain_mut', 'remove', 'clear', 'push', 'insert', 'truncate', 'drain', 'pop', 'swap_remove', 'extend', 'append', 'dedup', 'sort', 'reverse', 'take', 'replace', 'swap', 'push_value', 'push_punct'}


def run(ctx, rep):
    rep.explanation = ('Transparency decided as an effect analysis of annotation/src/lib.rs: inventory of every mutating call and assignment, the shape of the retain '
                       'predicate, provenance of the returned token stream in both branches, and coverage of every attribute-bearing position of syn::Data.')
    rep.not_decided = 'whether rustc accepts / serde treats identically arbitrary annotated-vs-stripped twin programs (compilation outcomes are not enumerable statically here); item-level attributes are not stripped by the macro — the invoking attribute is consumed by rustc itself.'
    rep.trusted = ['syn', 'astq evaluator', "syn's DeriveInput/Data structure"]
    fns = [f for f in ctx.astq['functions'] if f['file'].endswith('annotation/src/lib.rs')]
    rep.floor('Y1', 'functions in the proc-macro crate', len(fns), 4)
    # Y1 mutation inventory
    muts = []
    for f in fns:
        for c in f['calls']:
            if c.get('f') in MUTATORS and c.get('recv') is not None:
                muts.append((f, c))
        for a in f['assigns']:
            muts.append((f, {'f': 'assign', 'line': a.get('line'), 'recv': a.get('target'), 'text': a.get('text')}))
    def keeps_non_typeshare(clo):
        """The retain predicate keeps exactly the attributes whose *path* is not `typeshare`: `x.path()…to_string() != NAME`,
        or the negation of a helper predicate that is `attr.path()…to_string() == NAME`."""
        clo = vt.strip(clo)
        body = clo.get('body') if isinstance(clo, dict) and clo.get('k') == 'closure' else None
        b_ = vt.unvar(body)

        def path_eq(x, op):
            x = vt.unvar(x)
            if not (isinstance(x, dict) and x.get('k') == 'op' and x.get('op') == op):
                return False
            txt = json.dumps(x)
            return '"f": "path"' in txt and ('CONFIG_ATTRIBUTE_NAME' in txt or '"typeshare"' in txt) and '"contains"' not in txt and '"starts_with"' not in txt
        if path_eq(b_, '!='):
            return True
        if isinstance(b_, dict) and b_.get('k') == 'op' and b_.get('op') == '!' and b_.get('args'):
            inner = vt.unvar(b_['args'][0])
            if path_eq(inner, '=='):
                return True
            if isinstance(inner, dict) and inner.get('k') == 'call' and inner.get('recv') is None:
                hs = [g for g in fns if g['name'].split('::')[-1] == str(inner.get('f')).split('::')[-1]]
                if len(hs) == 1 and path_eq(hs[0].get('tail'), '==') and not hs[0].get('returns'):
                    return True
        return False
    ok_mut = [m for m in muts if m[1]['f'] == 'retain' and m[1].get('args') and keeps_non_typeshare(m[1]['args'][0])
              and not [fr for fr in m[1].get('guard', []) if fr.get('k') in ('if', 'arm') and not fr.get('let_else_rest')]]   # "the input parsed" (let-else) is Y2's exit inventory, not a condition on the stripping
    for f, c in muts:
        if any(f is f2 and c is c2 for f2, c2 in ok_mut):
            continue
        why = ''
        if c['f'] == 'retain' and c.get('args') and not keeps_non_typeshare(c['args'][0]):
            why = f" (predicate `{vt.show(vt.strip(c['args'][0]))[:90]}` is not the test `attribute path != \"typeshare\"`)"
        rep.fail('Y1', f"{f['name']}:{c['f']}:{vt.show(c.get('recv'))[-24:] if c.get('recv') else c.get('text', '')}", f"{f['qual']} mutates the item with `{c['f']}` on `{vt.show(c.get('recv'))[:60] if c.get('recv') else c.get('text')}`{why} — the macro may only remove #[typeshare(..)] helper attributes from members; anything else changes the program the compiler and serde see", {'file': f['file'], 'line': c.get('line')})
    rep.check(bool(ok_mut), 'Y1', 'remover:retain-all', 'attribute lists filtered with retain(path != "typeshare"), unconditionally', 'the macro no longer filters whole attribute lists with retain: only some helper attributes are removed (a member carrying two #[typeshare(..)] helpers keeps one, which rustc rejects)', {'file': 'annotation/src/lib.rs', 'line': fns[0]['line']})
    rem = [f for f in fns if f['name'] == 'remove_configuration_from_attributes']
    if rem:
        r = rem[0]
        site = {'file': r['file'], 'line': r['line']}
        rets = [c for c in r['calls'] if c.get('f') == 'retain']
        ok = len(rets) == 1 and vt.show(vt.strip(rets[0]['recv'])) == r['params'][0]['name'] and not [fr for fr in rets[0]['guard'] if fr.get('k') in ('if', 'arm', 'for')]
        rep.check(ok, 'Y1', 'remover:whole-list', 'the remover filters its whole argument', 'remove_configuration_from_attributes no longer filters the whole attribute list it is given', site)
    r = rem[0] if rem else fns[0]
    site = {'file': r['file'], 'line': r['line']}
    lets = [l for l in r['lets'] if l.get('names') == ['CONFIG_ATTRIBUTE_NAME']]
    consts = [i for i in ctx.astq['items'] if i['kind'] == 'const' and i['name'] == 'CONFIG_ATTRIBUTE_NAME']
    src = open(ctx.repo + '/annotation/src/lib.rs').read()
    m = re.search(r'const\s+CONFIG_ATTRIBUTE_NAME\s*:\s*&str\s*=\s*"([^"]*)"', src)
    rep.check(bool(m) and m.group(1) == 'typeshare', 'Y1', 'remover:name', 'CONFIG_ATTRIBUTE_NAME = "typeshare"', f"the helper attribute name is {m.group(1) if m else 'missing'}", site)
    # Y2 pass-through
    t = [f for f in fns if f['name'] == 'typeshare']
    if not t:
        raise core.Incomplete('proc-macro entry `typeshare` not found')
    t = t[0]
    tsite = {'file': t['file'], 'line': t['line']}
    attr_p, item_p = t['params'][0]['name'], t['params'][1]['name']
    uses_attr = attr_p in vt.show(t['tail']) and not attr_p.startswith('_')
    alltxt = json.dumps(t['tail']) + json.dumps(t['calls'])
    rep.check(f'"root": "{attr_p}"' not in alltxt, 'Y2', 'macro-arguments-unused', 'attribute arguments are never read', 'the macro reads its argument stream: behaviour may now depend on the typeshare(...) arguments', tsite)
    # Y2 as an exit inventory: every way out of the macro either hands back the untouched input stream *because the input
    # does not parse as a DeriveInput* (the only condition allowed), or emits the token stream of the parsed-and-stripped item.
    def is_parse(x):
        x = vt.unvar(x)
        return isinstance(x, dict) and x.get('k') == 'call' and 'DeriveInput' in vt.show(x).replace(' ', '') and str(x.get('f', '')).split('::')[0].startswith('parse') and f'{item_p}.clone()' in vt.show(x).replace(' ', '')

    def is_raw_item(x):
        x = vt.strip(x)
        return isinstance(x, dict) and x.get('k') == 'atom' and x.get('root') == item_p and not x.get('path')

    def parse_failed_frame(fr):
        """guard frame that holds exactly when parse::<DeriveInput>(item.clone()) is not Ok"""
        c = fr.get('c')
        if fr.get('k') != 'if' or not isinstance(c, dict):
            return False
        if c.get('k') == 'iflet' and is_parse(c.get('scrut')):
            ok_pat = 'Ok' in ''.join(c.get('variants', []))
            return (ok_pat and bool(fr.get('neg'))) or ('Err' in ''.join(c.get('variants', [])) and not fr.get('neg'))
        cc = vt.unvar(c)
        if isinstance(cc, dict) and cc.get('k') == 'call' and cc.get('f') in ('is_err', 'is_ok') and is_parse(cc.get('recv')):
            return (cc['f'] == 'is_err') != bool(fr.get('neg'))
        return False

    exits = []   # (value, [guard frames], line)
    for r in t.get('returns', []):
        exits.append((r.get('v'), [fr for fr in r.get('guard', []) if fr.get('k') in ('if', 'arm')], r.get('line')))

    def leaves(v, frames):
        v0 = v
        while isinstance(v, dict) and v.get('k') == 'var':
            v = v['v']
        if isinstance(v, dict) and v.get('k') == 'cond':
            leaves(v.get('t'), frames + [{'k': 'if', 'c': v.get('c'), 'neg': False}])
            leaves(v.get('e'), frames + [{'k': 'if', 'c': v.get('c'), 'neg': True}])
        elif isinstance(v, dict) and v.get('k') == 'match' and v.get('arms'):
            for a_ in v['arms']:
                pv = ''.join(a_.get('variants', []))
                leaves(a_.get('v'), frames + [{'k': 'if', 'c': {'k': 'iflet', 'scrut': v.get('scrut'), 'variants': a_.get('variants', [])}, 'neg': False}])
        elif isinstance(v, dict) and v.get('k') == 'never':
            return
        else:
            exits.append((v0, frames, t['line']))
    leaves(t['tail'], [])
    saw_parse = any(is_parse(x) for x in vt.walk(t['tail'])) or any(is_parse(x) for l_ in t.get('lets', []) for x in vt.walk(l_.get('v')))
    rep.check(saw_parse, 'Y2', 'parse-on-a-clone', 'parse::<DeriveInput>(item.clone())', 'the macro no longer parses a clone of its input as DeriveInput', tsite)
    raw, emitted, other = [], [], []
    for v, frames, line in exits:
        if is_raw_item(v):
            raw.append((v, frames, line))
        elif 'to_token_stream()' in vt.show(v).replace(' ', ''):
            emitted.append((v, frames, line))
        else:
            other.append((v, frames, line))
    bad_raw = [(v, fr, ln) for v, fr, ln in raw if not (len(fr) == 1 and parse_failed_frame(fr[0]))]
    rep.check(bool(raw) and not bad_raw, 'Y2', 'non-derive-input:untouched', 'input returned unchanged exactly when it does not parse as DeriveInput',
              ('the macro hands back its input untouched under `' + ' && '.join((('!' if f_.get('neg') else '') + vt.show(f_.get('c'))[:70]) for f_ in bad_raw[0][1]) + '` — for a struct/enum/union that takes this exit the #[typeshare(..)] helper attributes on members are not stripped and rustc rejects them (the only pass-through allowed is "does not parse as DeriveInput")') if bad_raw else 'for items that are not struct/enum/union (type aliases, consts, fns) the macro no longer returns the untouched input', {'file': t['file'], 'line': (bad_raw[0][2] if bad_raw else t['line'])})
    rep.check(bool(emitted) and not other, 'Y2', 'derive-input:same-item', 'output = token stream of the parsed item', f"the macro emits `{vt.show(other[0][0])[:80] if other else '?'}` for struct/enum/union inputs", tsite)
    strip_calls = [c for c in t['calls'] if c.get('f') == 'strip_configuration_attribute']
    if [g for g in fns if g['name'] == 'strip_configuration_attribute']:
        rep.check(len(strip_calls) == 1, 'Y2', 'strip-called-once', 'strip_configuration_attribute(&mut item)', 'strip_configuration_attribute is not applied exactly once to the parsed item', tsite)
    # Y3 position coverage, by provenance: in the inlined view of strip_configuration_attribute (every helper except the
    # remover itself expanded) each call of the remover is classified by where its argument comes from; every
    # helper-attribute position of syn::Data must be reached, over the complete member lists, unconditionally.
    from .. import inline
    s0l = [f for f in fns if f['name'] == 'strip_configuration_attribute'] or [t]
    has_remover = bool([f for f in fns if f['name'] == 'remove_configuration_from_attributes'])
    s0 = s0l[0]
    ssite = {'file': s0['file'], 'line': s0['line']}
    helpers = tuple(f['name'] for f in fns if f['name'] not in ('remove_configuration_from_attributes', 'strip_configuration_attribute', 'typeshare'))
    v = inline.view(ctx, s0, depth=5, force=helpers, mir=True)
    TRUNC = ('filter', 'skip', 'take', 'step_by', 'take_while', 'skip_while', 'nth', 'last', 'first', 'next', 'find', 'rev_take')

    def source(x):
        """(base value, adaptor chain) of an iterated collection: strips borrows and iter()/iter_mut()/into_iter()."""
        chain = []
        x = vt.unvar(x)
        while isinstance(x, dict):
            if x.get('k') in ('ref', 'paren', 'deref'):
                x = vt.unvar(x.get('v'))
            elif x.get('k') == 'call' and x.get('recv') is not None:
                chain.append(x.get('f'))
                x = vt.unvar(x['recv'])
            else:
                break
        return x, chain

    def fld(x):
        """(base, field name) of a field access in either representation."""
        x = vt.unvar(x)
        if isinstance(x, dict) and x.get('k') == 'field':
            return vt.unvar(x.get('base')), x.get('name')
        if isinstance(x, dict) and x.get('k') == 'atom' and x.get('path'):
            return dict(x, path=x['path'][:-1]), x['path'][-1]
        if isinstance(x, dict) and x.get('k') == 'payload' and x.get('field'):
            return {'k': 'payload', 'of': x.get('of'), 'variant': x.get('variant')}, x.get('field')
        return None, None

    def data_kind(x):
        x = vt.unvar(x)
        while isinstance(x, dict) and x.get('k') in ('ref', 'deref', 'paren'):
            x = vt.unvar(x.get('v'))
        if isinstance(x, dict) and x.get('k') == 'payload' and str(x.get('variant', '')).startswith('Data::'):
            return str(x['variant']).split('::')[1].split('(')[0]
        return None
    reached = {}
    # the stripped attribute lists: (A) the argument of every call of the remover; (B) the *gathered* form — one loop applies the
    # good `retain` to every element of a collection of `&mut Vec<Attribute>` built by a helper: then every `.attrs` projection
    # inside that collection's value is a stripped position (adaptors on the way to it count as truncation)
    stripped = [(c['args'][0], c['guard'], [], c.get('line')) for c in v['calls'] if c.get('f') == 'remove_configuration_from_attributes' and c.get('args')]
    if not has_remover:
        for c in v['calls']:
            if not (c.get('f') == 'retain' and c.get('args') and keeps_non_typeshare(c['args'][0]) and c.get('recv') is not None):
                continue
            r_ = vt.unvar(c['recv'])
            while isinstance(r_, dict) and r_.get('k') in ('ref', 'deref', 'paren'):
                r_ = vt.unvar(r_.get('v'))
            if isinstance(r_, dict) and fld(r_)[1] == 'attrs':
                # the direct form: `<member>.attrs.retain(keep non-typeshare)` (possibly through a method of a helper trait)
                stripped.append((r_, c['guard'], [], c.get('line')))
                continue
            if not (isinstance(r_, dict) and r_.get('k') == 'elem' and isinstance(r_.get('of'), dict)):
                continue
            outer_frames = [fr for fr in c['guard'] if fr.get('k') == 'if' and not fr.get('let_else_rest')]

            def collect(node, anc, d=0):
                if d > 60 or not isinstance(node, (dict, list)):
                    return
                if isinstance(node, list):
                    for y in node:
                        collect(y, anc, d + 1)
                    return
                if (node.get('k') == 'field' and node.get('name') == 'attrs') or (node.get('k') == 'atom' and (node.get('path') or [None])[-1] == 'attrs'):
                    stripped.append((node, outer_frames, list(anc), c.get('line')))
                    return
                anc2 = anc + ([node.get('f')] if node.get('k') == 'call' and node.get('recv') is not None else [])
                if node.get('k') == 'cond':
                    anc2 = anc2 + ['filter']      # a member taken only under a condition
                for key, y in node.items():
                    if key in ('guard', 'ty', 'named', 'spec'):
                        continue
                    collect(y, anc2, d + 1)
            collect(r_['of'], [])
    if not stripped:
        raise core.Incomplete('Y3: neither calls of remove_configuration_from_attributes nor a loop that retains over a gathered collection of attribute lists found — position coverage of this shape is not modelled, no verdict')
    for arg0, guard0, extra_chain, line0 in stripped:
        c = {'args': [arg0], 'guard': guard0, 'line': line0}
        conds = [fr for fr in c['guard'] if fr.get('k') == 'if']
        # `if let Fields::Named(..) = fields` selects a field shape (accounted for below), it is not a condition on members
        shape_sel = [x.split('::')[1].split('(')[0] for fr in conds if isinstance(vt.unvar(fr.get('c')), dict) and vt.unvar(fr['c']).get('k') == 'iflet' and not fr.get('neg') for x in vt.unvar(fr['c']).get('variants', []) if str(x).startswith('Fields::')]
        conds = [fr for fr in conds if not (isinstance(vt.unvar(fr.get('c')), dict) and vt.unvar(fr['c']).get('k') == 'iflet' and not fr.get('neg') and any(str(x).startswith('Fields::') for x in vt.unvar(fr['c']).get('variants', [])))]
        shape_sel += [x.split('::')[1].split('(')[0] for fr in c['guard'] if fr.get('k') == 'arm' for x in fr.get('variants', []) if str(x).startswith('Fields::')]
        b, name = fld(vt.strip(c['args'][0]))
        if name != 'attrs' or not isinstance(b, dict) or b.get('k') != 'elem':
            continue
        coll, chain = source(b.get('of'))
        trunc = [t for t in chain if t in TRUNC] + [t for t in extra_chain if t in TRUNC]
        cb, cname = fld(coll)
        pos = None
        shape = 'whole'
        if cname in ('named', 'unnamed') and isinstance(cb, dict) and cb.get('k') == 'payload' and str(cb.get('variant', '')).startswith('Fields::'):
            shape = str(cb['variant']).split('::')[1].split('(')[0]
            cb, cname = fld(vt.unvar(cb.get('of')))
        if cname == 'variants' and data_kind(cb) == 'Enum':
            pos = 'enum:variant-attrs'
        elif cname == 'fields' and data_kind(cb) == 'Struct':
            pos = 'struct:fields'
        elif cname == 'named' and fld(cb)[1] == 'fields' and data_kind(fld(cb)[0]) == 'Union':
            pos = 'union:fields'
        elif cname == 'fields' and isinstance(cb, dict) and cb.get('k') == 'elem':
            vcoll, vchain = source(cb.get('of'))
            vb, vname = fld(vcoll)
            if vname == 'variants' and data_kind(vb) == 'Enum':
                pos = 'enum:variant-fields'
                trunc += [t for t in vchain if t in TRUNC]
        if pos:
            if shape == 'whole' and shape_sel:
                shape = shape_sel[0]
            reached.setdefault(pos, []).append({'cond': conds, 'trunc': trunc, 'shape': shape, 'line': c.get('line')})
    msgs = {'enum:variant-attrs': 'helper attributes on enum variants are not stripped', 'enum:variant-fields': 'helper attributes on enum variant fields are not stripped',
            'struct:fields': 'helper attributes on struct fields are not stripped', 'union:fields': 'helper attributes on union fields are not stripped'}
    for pos, msg in msgs.items():
        hits = reached.get(pos, [])
        good = [h for h in hits if not h['cond'] and not h['trunc']]
        why = msg if not hits else (f"{msg[:-17]} are only stripped under a condition / over a truncated list ({[vt.show(h['cond'][0]['c'])[:50] if h['cond'] else h['trunc'] for h in hits][:2]})")
        rep.check(bool(good), 'Y3', pos, 'stripped for every member', why + ': a #[typeshare(..)] helper there survives into the macro output and rustc rejects the annotated program while the stripped twin compiles', ssite)
    for pos in ('enum:variant-fields', 'struct:fields'):
        shapes = {h['shape'] for h in reached.get(pos, []) if not h['cond'] and not h['trunc']}
        ok = 'whole' in shapes or {'Named', 'Unnamed'} <= shapes
        rep.check(ok, 'Y3', f'{pos}:named-and-unnamed', 'every field of every shape (named, tuple) visited', f"{pos}: only {sorted(shapes) or 'no'} field shapes are visited: a #[typeshare(..)] helper on a tuple-struct / tuple-variant field survives into the macro output", ssite)
    ms = [m2 for m2 in v['matches'] if any(x.startswith('Data::') for a in m2['arms'] for x in a['variants'])]
    kinds = {x.split('::')[1].split('(')[0] for m2 in ms for a in m2['arms'] for x in a['variants'] if x.startswith('Data::')}
    for kind in ('Enum', 'Struct', 'Union'):
        rep.check(kind in kinds, 'Y3', f'data:{kind}', 'handled', f'strip_configuration_attribute has no arm for Data::{kind}: helper attributes inside such items survive and rustc rejects them', ssite)
