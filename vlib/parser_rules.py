"""Rules about the attribute-reading layer of core/src/parser.rs shared by several properties."""
from . import core, vt

ATTR_STREAM = {'iter', 'into_iter', 'filter', 'inspect', 'rev', 'cloned', 'copied', 'enumerate', 'peekable', 'by_ref', 'as_ref', 'to_vec', 'clone'}
TRUNC = {'find', 'first', 'next', 'nth', 'take', 'last', 'position', 'skip', 'get', 'take_while', 'skip_while', 'split_first', 'split_last', 'find_map', 'rposition', 'step_by', 'next_back', 'pop', 'truncate'}


def is_attr_param(p):
    t = (p.get('ty') or '').replace('syn::', '')
    return t in ('[Attribute]', 'Vec<Attribute>') or t.endswith('[Attribute]')


def attr_level(v, params):
    """Is v a stream/slice of whole attributes derived from an attrs parameter through attribute-preserving steps?"""
    v0 = v
    while isinstance(v, dict):
        kk = v.get('k')
        if kk in ('var', 'try', 'some'):
            v = v['v']
            continue
        if kk == 'atom':
            return v.get('root') in params and not v.get('path')
        if kk == 'call' and v.get('f') in ATTR_STREAM and v.get('recv') is not None:
            v = v['recv']
            continue
        return False
    return False


def all_attrs_rule(ctx, rep, rule, roots, floor, files=('parser.rs',)):
    """Every attribute look-up the property depends on examines all attributes of the node: no truncating adapter on
    the attribute stream itself.  `roots` are the look-ups the property's behaviour goes through; the rule covers them
    and every attribute-reading helper they (transitively) delegate to — look-ups serving other properties are not
    this property's business."""
    fs = [f for f in ctx.astq['functions'] if any(f['file'].endswith(x) for x in files)]
    by = {}
    for f in fs:
        by.setdefault(f['name'].split('::')[-1], []).append(f)
    missing = [r for r in roots if r not in by]
    if missing:
        raise core.Incomplete(f'{rule}: attribute look-up(s) {missing} not found in {files}')
    rel, todo = set(), list(roots)
    while todo:
        nm = todo.pop()
        if nm in rel:
            continue
        rel.add(nm)
        for f in by.get(nm, []):
            for c in f['calls']:
                cal = c.get('f') if c.get('recv') is None else None
                cal = cal or (c.get('path') or '').split('::')[-1]
                if cal in by and cal not in rel:
                    todo.append(cal)
    n = 0
    for f in fs:
        if f['name'].split('::')[-1] not in rel:
            continue
        params = {p['name'] for p in f['params'] if is_attr_param(p)}
        if not params:
            continue
        n += 1
        bad = []
        for c in f['calls']:
            if c.get('f') in TRUNC and isinstance(c.get('recv'), dict) and attr_level(c['recv'], params):
                bad.append(c)
        for ix in f['indexes']:
            if attr_level(ix['base'], params):
                bad.append({'f': 'index', 'line': ix['line'], 'recv': ix['base']})
        site = {'file': f['file'], 'line': f['line']}
        if bad:
            b = bad[0]
            rep.fail(rule, f"{f['name']}:all-attributes", f"{f['name']} truncates the attribute list itself with `{b['f']}` ({vt.show(b.get('recv'))[:70]}) — an attribute argument placed in a second #[serde(..)]/#[typeshare(..)] attribute (any spelling and order is in scope) is not seen", {'file': f['file'], 'line': b.get('line', f['line'])})
        else:
            rep.ok(rule, f"{f['name']}:all-attributes", 'every attribute of the node is examined', site)
    rep.floor(rule, 'attribute-reading functions the property depends on', n, floor)


def field_sites(ctx):
    """The RustField construction sites in parser.rs: [(fn, struct-literal fact)]."""
    out = []
    for f in ctx.fns(file='parser.rs'):
        for st in f['structs']:
            if st['path'].split('::')[-1] == 'RustField':
                out.append((f, st))
    return out


def elem_root(v):
    """For a closure element value (`each(..)`), the root parameter the collection was taken from."""
    seen = 0
    while isinstance(v, dict) and seen < 50:
        seen += 1
        kk = v.get('k')
        if kk in ('var', 'try', 'some'):
            v = v['v']
        elif kk == 'atom':
            return v.get('root')
        elif kk in ('elem', 'payload'):
            v = v.get('of')
        elif kk == 'field':
            v = v.get('base')
        elif kk == 'call':
            v = v.get('recv') if v.get('recv') is not None else (v['args'][0] if v.get('args') else None)
        elif kk == 'index':
            v = v.get('base')
        else:
            return None
    return None


def attr_lookup_spec(ctx, fn_name):
    """(name literal, namespace const) a boolean/valued attribute helper looks for, following one level of delegation."""
    f = ctx.fn(fn_name, file='parser.rs')
    for c in f['calls']:
        if c.get('f') in ('serde_attr', 'get_name_value_meta_items'):
            lits = [vt.strip(a) for a in c.get('args', [])]
            names = [a.get('v') for a in lits if isinstance(a, dict) and a.get('k') == 'lit']
            consts = [a.get('text') for a in lits if isinstance(a, dict) and a.get('k') == 'path']
            return c['f'], names, consts
    return None, [], []
