"""Three-valued evaluation of guard expressions (value trees) over a closed vocabulary."""
import re

from . import vt

PRED_CALLS = {'is_optional', 'is_double_optional', 'is_empty', 'is_some', 'is_none', 'is_vec', 'is_hash_map'}


def key_of(T, v):
    """Canonical key of an atomic boolean expression, or None."""
    v = vt.strip(v) if not (isinstance(v, dict) and v.get('k') == 'call' and v.get('f') in PRED_CALLS) else v
    if not isinstance(v, dict):
        return None
    kk = v.get('k')
    if kk == 'call' and v.get('f') in PRED_CALLS and v.get('recv') is not None and not v.get('args'):
        r = T.canon_s(v['recv'])
        if r is None:
            r = vt.show(vt.strip(v['recv']))
        return f"{r}.{v['f']}()"
    if kk == 'call' and v.get('f') == 'load' and v.get('recv') is not None:
        # AtomicBool::load(ordering): a boolean read of the flag
        r = T.canon_s(v['recv'])
        if r is None:
            r = vt.show(vt.strip(v['recv']))
        return f"{r}.load()"
    if kk == 'iflet' and any(x.startswith('Some') for x in v.get('variants', [])):
        r = T.canon_s(v['scrut'])
        if r is None:
            r = vt.show(vt.strip(v['scrut']))
        return f"{r}.is_some()"
    c = T.canon_s(v)
    if c is not None:
        return c
    return None


def _built_list(r):
    """The locally built list behind an emptiness test: the `vecof` itself, or `vecof.join(sep)` when every pushed piece is
    visibly non-empty text (then the joined string is empty exactly when the list is)."""
    r = vt.strip(r)
    if isinstance(r, dict) and r.get('k') == 'vecof':
        return r
    if isinstance(r, dict) and r.get('k') == 'call' and r.get('f') == 'join' and r.get('recv') is not None:
        inner = vt.strip(r['recv'])
        if isinstance(inner, dict) and inner.get('k') == 'vecof':
            def nonempty(x):
                x = vt.strip(x)
                while isinstance(x, dict) and x.get('k') == 'call' and x.get('recv') is not None and x.get('f') in ('to_string', 'to_owned', 'into', 'clone') and not x.get('args'):
                    x = vt.strip(x['recv'])
                if isinstance(x, dict) and x.get('k') == 'lit' and x.get('t') == 'str':
                    return bool(x.get('v'))
                if isinstance(x, dict) and x.get('k') == 'fmt':
                    return any(isinstance(p_, dict) and p_.get('lit') for p_ in x.get('parts', [])) or any(isinstance(p_, str) and p_ for p_ in x.get('parts', []))
                return False
            if all(nonempty(it.get('v')) for it in inner.get('items', [])):
                return inner
    return None


def _cmp_key(v):
    """Key of `a == b` / `a != b` when neither side is itself a boolean expression (then the comparison is one atomic test,
    the same whichever way round it is written)."""
    a = [vt.unvar(x) for x in v.get('args', [])]
    if len(a) != 2:
        return None

    def boolish(x):
        while isinstance(x, dict) and x.get('k') in ('ref', 'paren', 'deref'):
            x = vt.unvar(x.get('v'))
        return isinstance(x, dict) and ((x.get('k') == 'lit' and x.get('t') == 'bool') or x.get('k') == 'op' or (x.get('k') == 'call' and x.get('f') in PRED_CALLS) or str(x.get('ty') or '') == 'bool')
    if boolish(a[0]) or boolish(a[1]):
        return None
    ks = sorted(vt.ckey(x) for x in a)
    return 'cmp:' + ks[0] + '==' + ks[1]


def _option_presence(r):
    """(condition, negated) when r is `if c { Some(..) } else { None }` (how astq reads `c.then_some(x)` / `c.then(|| x)`)."""
    r = vt.unvar(r)
    while isinstance(r, dict) and r.get('k') in ('ref', 'paren', 'deref'):
        r = vt.unvar(r.get('v'))
    if isinstance(r, dict) and r.get('k') == 'cond':
        t, e = vt.unvar(r.get('t')), vt.unvar(r.get('e'))
        if isinstance(t, dict) and t.get('k') == 'some' and isinstance(e, dict) and e.get('k') == 'none':
            return r['c'], False
        if isinstance(e, dict) and e.get('k') == 'some' and isinstance(t, dict) and t.get('k') == 'none':
            return r['c'], True
    return None


def eval3(T, v, asg):
    """True / False / None (unknown) for condition value tree v under assignment {key: bool}."""
    if not isinstance(v, dict):
        return None
    kk = v.get('k')
    if kk == 'var':
        return eval3(T, v['v'], asg)
    if kk == 'lit' and v.get('t') == 'bool':
        return bool(v.get('v'))
    if kk == 'op':
        op = v.get('op')
        a = v.get('args', [])
        if op == '!':
            x = eval3(T, a[0], asg)
            return None if x is None else (not x)
        if op == '&&':
            x, y = eval3(T, a[0], asg), eval3(T, a[1], asg)
            if x is False or y is False:
                return False
            if x is True and y is True:
                return True
            return None
        if op == '||':
            x, y = eval3(T, a[0], asg), eval3(T, a[1], asg)
            if x is True or y is True:
                return True
            if x is False and y is False:
                return False
            return None
        if op in ('==', '!='):
            # boolean equality of two known sub-expressions
            x, y = eval3(T, a[0], asg), eval3(T, a[1], asg)
            if x is not None and y is not None:
                return (x == y) if op == '==' else (x != y)
            ck = _cmp_key(v)
            if ck is not None and ck in asg:
                return asg[ck] if op == '==' else (not asg[ck])
            return None
    if kk == 'cond':
        c = eval3(T, v['c'], asg)
        if c is True:
            return eval3(T, v['t'], asg)
        if c is False:
            return eval3(T, v['e'], asg)
        x, y = eval3(T, v['t'], asg), eval3(T, v['e'], asg)
        return x if x == y else None
    if kk == 'call' and v.get('f') == 'is_empty' and isinstance(v.get('recv'), dict):
        r = _built_list(v['recv'])
        if r is not None:
            states = [frames_hold(T, it.get('guard', []), asg) for it in r.get('items', [])]
            if any(x is True for x in states):
                return False
            if all(x is False for x in states):
                return True
            return None
    if kk == 'call' and v.get('f') in ('is_some', 'is_none') and isinstance(v.get('recv'), dict) and not v.get('args'):
        pr_ = _option_presence(v['recv'])
        if pr_ is not None:
            x = eval3(T, pr_[0], asg)
            if x is None:
                return None
            present = (not x) if pr_[1] else x
            return present if v['f'] == 'is_some' else (not present)
    k = key_of(T, v)
    if k is not None and k in asg:
        return asg[k]
    return None


def conds_hold(T, conds, asg):
    """Evaluate a flatten_c condition tuple: True / False / None."""
    res = True
    for c in conds:
        if c[0] == 'c':
            x = eval3(T, c[1], asg)
            if x is None:
                res = None if res is not False else False
                continue
            if x != c[2]:
                return False
        elif c[0] == 'g':
            fr = c[1]
            if fr.get('k') == 'if':
                x = eval3(T, fr['c'], asg)
                if x is None:
                    res = None
                    continue
                if x == bool(fr.get('neg')):
                    return False
            else:
                res = None
        else:
            res = None if res is not False else False
    return res


def reduce_tag_test(c):
    """`if let Kind::A = (if p { Kind::A } else { Kind::B })` (also through a helper that classifies into a local enum) is
    the test `p` itself (or its negation): returns (condition, negated) or None."""
    c = vt.unvar(c)
    if not (isinstance(c, dict) and c.get('k') in ('iflet', 'matches') and len(c.get('variants', [])) == 1 and not c.get('guard')):
        return None
    want = str(c['variants'][0]).split('::')[-1].split('(')[0]
    sc = vt.unvar(c.get('scrut'))
    if not (isinstance(sc, dict) and sc.get('k') == 'cond'):
        return None

    def tag(x):
        x = vt.unvar(x)
        if isinstance(x, dict) and x.get('k') == 'path':
            return str(x.get('text', '')).replace(' ', '').split('::')[-1]
        if isinstance(x, dict) and x.get('k') == 'call' and x.get('recv') is None and not x.get('args'):
            return str(x.get('f', '')).replace(' ', '').split('::')[-1]
        return None
    tt, te = tag(sc.get('t')), tag(sc.get('e'))
    if tt is None or te is None or tt == te:
        return None
    if tt == want:
        return sc['c'], False
    if te == want:
        return sc['c'], True
    return None


def _split_tuple_pat(pat):
    """Top-level elements of a tuple pattern `( a , Some (x) , _ )`, or None if it is not a tuple pattern."""
    pat = pat.strip()
    if not (pat.startswith('(') and pat.endswith(')')):
        return None
    inner, depth, cur, out = pat[1:-1], 0, '', []
    for ch in inner:
        if ch in '([{':
            depth += 1
        elif ch in ')]}':
            depth -= 1
        if ch == ',' and depth == 0:
            out.append(cur)
            cur = ''
        else:
            cur += ch
    if cur.strip():
        out.append(cur)
    return out


def normalize_frames(frames):
    """`match opt { Some(x) => .., None => .. }` arms are the same tests as `if let Some(x) = opt` / its else branch:
    arm frames over exactly Some / exactly None become if-frames on `opt.is_some()`."""
    out = []
    for fr in frames:
        # an arm of `match (a, b, c) { (true, Some(_), None) => .. }` is the conjunction of one test per element
        sc_t = vt.unvar(fr.get('scrut')) if fr.get('k') == 'arm' else None
        if isinstance(sc_t, dict) and sc_t.get('k') == 'tuple' and sc_t.get('items') and not fr.get('guard'):
            elems = _split_tuple_pat(str(fr.get('pat', '')))
            if elems is not None and len(elems) == len(sc_t['items']):
                ok_all = True
                new = []
                for pe, item in zip(elems, sc_t['items']):
                    pe = pe.strip()
                    if pe not in ('true', 'false') and (pe == '_' or re.fullmatch(r'[a-z_][A-Za-z0-9_]*', pe)):
                        continue
                    if pe in ('true', 'false'):
                        new.append({'k': 'if', 'c': item, 'neg': pe == 'false', 'line': fr.get('line'), 'from_arm': True})
                    elif re.fullmatch(r'Some\s*\(.*\)', pe) or pe == 'None':
                        new.append({'k': 'if', 'c': {'k': 'iflet', 'scrut': item, 'variants': ['Some'], 'pat': 'Some (_)'}, 'neg': pe == 'None', 'line': fr.get('line'), 'from_arm': True})
                    else:
                        ok_all = False
                if ok_all:
                    out.extend(new)
                    continue
        if fr.get('k') == 'arm' and not fr.get('guard') and fr.get('scrut') is not None:
            vs = [str(x).split('::')[-1] for x in fr.get('variants', [])]
            if vs == ['Some'] or vs == ['None']:
                out.append({'k': 'if', 'c': {'k': 'iflet', 'scrut': fr['scrut'], 'variants': ['Some'], 'pat': 'Some (_)'}, 'neg': vs == ['None'], 'line': fr.get('line'), 'from_arm': True})
                continue
            # `match flag { true => .., false => .. }` is `if flag { .. } else { .. }`
            bs = [v_.replace('lit:', '') for v_ in vs]
            if bs == ['true'] or bs == ['false']:
                out.append({'k': 'if', 'c': fr['scrut'], 'neg': bs == ['false'], 'line': fr.get('line'), 'from_arm': True})
                continue
        out.append(fr)
    return out


def normalize_conds(conds):
    out = []
    for c in conds:
        if c[0] == 'm' and len(c) >= 3:
            vs = [str(x).split('::')[-1] for x in c[2]]
            if vs == ['Some'] or vs == ['None']:
                out.append(('c', {'k': 'iflet', 'scrut': c[1], 'variants': ['Some'], 'pat': 'Some (_)'}, vs == ['Some']))
                continue
            bs = [v_.replace('lit:', '') for v_ in vs]
            if bs == ['true'] or bs == ['false']:
                out.append(('c', c[1], bs == ['true']))
                continue
        if c[0] == 'g' and isinstance(c[1], dict):
            out.append(('g', normalize_frames([c[1]])[0]) + tuple(c[2:]))
            continue
        out.append(c)
    return out


def frames_hold(T, frames, asg):
    """Evaluate astq guard frames (if-frames only; others unknown but non-blocking)."""
    res = True
    for fr in frames:
        if fr.get('k') == 'if':
            x = eval3(T, fr['c'], asg)
            if x is None:
                res = None
                continue
            if x == bool(fr.get('neg')):
                return False
    return res


def vocabulary(T, vs):
    """All atomic boolean keys occurring in the given condition trees."""
    out = set()

    def go(v):
        if not isinstance(v, dict):
            return
        kk = v.get('k')
        if kk == 'var':
            return go(v['v'])
        if kk == 'op' and v.get('op') in ('==', '!=') and _cmp_key(v) is not None:
            out.add(_cmp_key(v))      # a comparison of two non-boolean values is one atomic test
            return
        if kk == 'op' and v.get('op') in ('!', '&&', '||', '==', '!='):
            for a in v.get('args', []):
                go(a)
            return
        if kk == 'cond':
            go(v['c']); go(v['t']); go(v['e'])
            return
        if kk == 'call' and v.get('f') == 'is_empty' and isinstance(v.get('recv'), dict):
            r = _built_list(v['recv'])
            if r is not None:
                for it in r.get('items', []):
                    for fr in it.get('guard', []):
                        if fr.get('k') == 'if':
                            go(fr['c'])
                return
        if kk == 'call' and v.get('f') in ('is_some', 'is_none') and isinstance(v.get('recv'), dict) and not v.get('args') and _option_presence(v['recv']) is not None:
            go(_option_presence(v['recv'])[0])
            return
        k = key_of(T, v)
        if k is not None:
            out.add(k)

    for v in vs:
        go(v)
    return out


class Renderer:
    """Tabulate the text skeleton a value tree produces under an assignment of the boolean vocabulary.
    Atoms render as ⟨canon⟩, calls on the backend object as ⟨f⟩, literals as themselves.  Unknown conditions fork."""

    def __init__(self, T, asg, type_hook=None, cap=48, inline=None):
        self.T = T
        self.asg = asg
        self.type_hook = type_hook  # f(call node) -> list of strings, for format_type calls
        self.cap = cap
        self.inline = inline or {}  # name -> astq function facts (pure helper fns to inline)

    def truth(self, v):
        # emptiness of locally built vectors
        if isinstance(v, dict):
            s = v
            while isinstance(s, dict) and s.get('k') == 'var':
                s = s['v']
            if isinstance(s, dict) and s.get('k') == 'op' and s.get('op') == '!' and s.get('args'):
                x = self.truth(s['args'][0])
                return None if x is None else (not x)
            if isinstance(s, dict) and s.get('k') == 'op' and s.get('op') in ('&&', '||'):
                x, y = self.truth(s['args'][0]), self.truth(s['args'][1])
                if s['op'] == '&&':
                    if x is False or y is False:
                        return False
                    return True if (x is True and y is True) else None
                if x is True or y is True:
                    return True
                return False if (x is False and y is False) else None
            if isinstance(s, dict) and s.get('k') == 'call' and s.get('f') in ('is_empty',) and isinstance(s.get('recv'), dict):
                r = vt.strip(s['recv'])
                if isinstance(r, dict) and r.get('k') == 'vecof':
                    states = [frames_hold(self.T, it.get('guard', []), self.asg) for it in r.get('items', [])]
                    if any(x is True for x in states):
                        return False
                    if all(x is False for x in states):
                        return True
                    return None
        return eval3(self.T, v, self.asg)

    def render(self, v, depth=0):
        if depth > 40:
            return ['…']
        if v is None or not isinstance(v, dict):
            return ['']
        kk = v.get('k')
        if kk in ('var', 'try', 'some'):
            return self.render(v['v'], depth + 1)
        if kk == 'lit':
            return [str(v.get('v'))]
        if kk in ('none', 'unit'):
            return ['']
        if kk == 'payload' and v.get('variant') in ('Some', 'Ok') and isinstance(v.get('of'), dict):
            return self.render(v['of'], depth + 1)
        if kk == 'fmt':
            outs = ['']
            for p in v.get('parts', []):
                if 'lit' in p:
                    outs = [o + p['lit'] for o in outs]
                else:
                    sub = self.render(p['hole'], depth + 1)
                    if p.get('spec') == '?':
                        sub = ['"' + s + '"' for s in sub]
                    outs = [o + s for o in outs for s in sub][:self.cap]
            return outs
        if kk == 'cond':
            t = self.truth(v['c'])
            if t is True:
                return self.render(v['t'], depth + 1)
            if t is False:
                return self.render(v['e'], depth + 1)
            return (self.render(v['t'], depth + 1) + self.render(v['e'], depth + 1))[:self.cap]
        if kk == 'match':
            out = []
            # tuple of boolean tests: `match (a, b) { (false, true) => .., (true, _) => .., (false, false) => .. }` — first matching arm
            sc0 = vt.unvar(v.get('scrut'))
            if isinstance(sc0, dict) and sc0.get('k') == 'tuple' and sc0.get('items'):
                ts = [self.truth(x) for x in sc0['items']]
                if all(t_ is not None for t_ in ts):
                    for a in v.get('arms', []):
                        pat = str(a.get('pat', '')).replace(' ', '')
                        m_ = re.fullmatch(r'\((.*)\)', pat)
                        elems = m_.group(1).rstrip(',').split(',') if m_ else None
                        if pat == '_' or (elems and len(elems) == len(ts) and all(e_ in ('_', 'true', 'false') for e_ in elems) and all(e_ == '_' or (e_ == 'true') == t_ for e_, t_ in zip(elems, ts))):
                            return self.render(a['v'], depth + 1)
                        if not elems or len(elems) != len(ts) or not all(e_ in ('_', 'true', 'false') for e_ in elems):
                            break
            for a in v.get('arms', []):
                if isinstance(a.get('v'), dict) and a['v'].get('k') == 'never':
                    continue
                # boolean match (lazy_format! idiom): `match (cond) { false => .., true => .. }`
                vs = a.get('variants', [])
                t = self.truth(v['scrut'])
                if vs in (['lit:true'], ['lit:false']) and t is not None:
                    if (vs == ['lit:true']) != t:
                        continue
                out.extend(self.render(a['v'], depth + 1))
            return out[:self.cap] or ['']
        if kk == 'alt':
            out = []
            for a in v.get('alts', []):
                out.extend(self.render(a, depth + 1))
            return out[:self.cap] or ['']
        if kk == 'call':
            f = v.get('f')
            if v.get('local_closure') and v.get('result') is not None:
                return self.render(v['result'], depth + 1)
            if f in ('join', 'join_with'):
                src = v.get('recv')
                while isinstance(src, dict) and (src.get('k') == 'var' or (src.get('k') == 'call' and src.get('f') in ('take', 'iter', 'into_iter', 'cloned', 'map') and src.get('recv') is not None)):
                    src = src['v'] if src.get('k') == 'var' else src['recv']
                if isinstance(src, dict) and src.get('k') == 'call' and src.get('f', '').endswith('repeat') and src.get('args'):
                    return [x + '…' for x in self.render(src['args'][0], depth + 1)]
                sep = ''
                if v.get('args'):
                    sp = self.render(v['args'][0], depth + 1)
                    sep = sp[0] if sp else ''
                r = vt.strip(v.get('recv')) if isinstance(v.get('recv'), dict) else None
                if isinstance(r, dict) and r.get('k') == 'vecof':
                    lists = [[]]
                    for it in r.get('items', []):
                        st = frames_hold(self.T, it.get('guard', []), self.asg)
                        texts = self.render(it['v'], depth + 1)
                        nxt = []
                        for l in lists:
                            if st is not True:
                                nxt.append(l)
                            if st is not False:
                                for tx in texts[:4]:
                                    nxt.append(l + [tx])
                        lists = nxt[:self.cap]
                    return [sep.join(l) for l in lists]
                # `coll.iter().map(|x| <element>).collect::<..>()` (possibly through `?`): one symbolic element
                src2 = vt.unvar(v.get('recv'))
                while isinstance(src2, dict) and (src2.get('k') in ('try', 'some', 'paren', 'ref') or (src2.get('k') == 'call' and src2.get('f') in ('collect', 'collect_vec', 'iter', 'into_iter', 'cloned', 'copied', 'to_vec', 'as_slice', 'sorted', 'peekable') and src2.get('recv') is not None)):
                    src2 = vt.unvar(src2.get('v') if src2.get('k') != 'call' else src2.get('recv'))
                if isinstance(src2, dict) and src2.get('k') == 'call' and src2.get('f') in ('map', 'filter_map') and src2.get('args'):
                    clo = vt.strip(src2['args'][0])
                    if isinstance(clo, dict) and clo.get('k') == 'closure' and isinstance(clo.get('body'), dict):
                        return self.render(clo['body'], depth + 1)[:self.cap]
                return ['⟨join⟩']
            rc = self.T.canon(v['recv']) if isinstance(v.get('recv'), dict) else None
            from .emit import OWNERS, IDENT_TRANSPARENT
            if rc is not None and rc[1] == [] and rc[0] in OWNERS:
                if f == 'format_type' and self.type_hook:
                    return self.type_hook(v)
                if f in ('format_type', 'format_simple_type', 'format_generic_type', 'format_special_type', 'generic_constraints', 'type_override') or not v.get('args'):
                    return ['⟨' + f + '⟩']
                return ['⟨' + f + ':' + s_.strip('⟨⟩') + '⟩' if s_.count('⟨') <= 1 else '⟨' + f + ':' + s_ + '⟩' for s_ in self.render(v['args'][0], depth + 1)]
            if f in ('String::new', 'String::default', 'String::with_capacity', 'std::string::String::new') and v.get('recv') is None:
                return ['']
            if f in ('Ok', 'Some') and v.get('recv') is None and len(v.get('args', [])) == 1:
                return self.render(v['args'][0], depth + 1)
            pm = getattr(self.T, 'pure_methods', {}).get(f)
            if pm and v.get('recv') is not None and depth < 30:
                from . import inline as _inl
                from .emit import subst
                r0 = vt.unvar(v['recv'])
                cands = [m for m in pm if isinstance(r0, dict) and r0.get('k') == 'atom' and not r0.get('path') and (r0.get('root_ty') or '').split('<')[0] == (m.get('self_ty') or '').split('<')[0]]
                if len(cands) == 1 and f not in _inl.ANCHORS and not cands[0].get('loops') and cands[0].get('tail') is not None:
                    params = [p['name'] for p in cands[0]['params'] if p['name'] != 'self']
                    if len(params) == len(v.get('args', [])):
                        return self.render(subst(cands[0]['tail'], dict(zip(params, v['args']))), depth + 1)
            if f in self.inline and v.get('recv') is None:
                fn = self.inline[f]
                from .emit import subst
                params = [p['name'] for p in fn['params'] if p['name'] != 'self']
                env = dict(zip(params, v.get('args', [])))
                return self.render(subst(fn['tail'], env), depth + 1)
            c = self.T.canon_s(v)
            if c is not None and vt.strip(v) is not v:
                return self.render(vt.strip(v), depth + 1)
            if f in IDENT_TRANSPARENT:
                inner = v.get('recv') if v.get('recv') is not None else (v['args'][0] if v.get('args') else None)
                return self.render(inner, depth + 1)
            subject = v.get('recv') if v.get('recv') is not None else (v['args'][-1] if v.get('args') else None)
            sub = self.render(subject, depth + 1) if subject is not None else ['']
            return ['⟨' + f + ':' + s + '⟩' if not (s.startswith('⟨') and s.endswith('⟩') and s.count('⟨') == 1) else '⟨' + f + ':' + s[1:-1] + '⟩' for s in sub]
        c = self.T.canon_s(v)
        if c is not None:
            return ['⟨' + c + '⟩']
        if kk == 'index':
            return ['⟨index:' + s + '⟩' for s in self.render(v['base'], depth + 1)]
        return ['⟨?⟩']
