// mirq — resolved-program fact extractor for the typeshare verification rules.
// Runs as RUSTC_WORKSPACE_WRAPPER under `cargo +nightly check`; for every
// workspace crate it writes one JSON fact file into $MIRQ_OUT (one write per
// process).  Nothing of the analysed program is executed.
#![feature(rustc_private)]
#![allow(clippy::all)]

extern crate rustc_driver;
extern crate rustc_hir;
extern crate rustc_interface;
extern crate rustc_middle;
extern crate rustc_session;
extern crate rustc_span;

use rustc_driver::{Callbacks, Compilation};
use rustc_hir::def::DefKind;
use rustc_hir::intravisit::{self, Visitor as HirVisitor};
use rustc_interface::interface::Compiler;
use rustc_middle::mir::visit::Visitor as MirVisitor;
use rustc_middle::mir::{self, AggregateKind, Rvalue, TerminatorKind};
use rustc_middle::ty::{self, Instance, InstanceKind, TyCtxt, TypingEnv};
use rustc_span::def_id::{DefId, LocalDefId};
use rustc_span::Span;
use std::fmt::Write as _;

fn esc(s: &str) -> String {
    let mut o = String::with_capacity(s.len() + 2);
    o.push('"');
    for c in s.chars() {
        match c {
            '"' => o.push_str("\\\""),
            '\\' => o.push_str("\\\\"),
            '\n' => o.push_str("\\n"),
            '\r' => o.push_str("\\r"),
            '\t' => o.push_str("\\t"),
            c if (c as u32) < 0x20 => {
                let _ = write!(o, "\\u{:04x}", c as u32);
            }
            c => o.push(c),
        }
    }
    o.push('"');
    o
}

fn opt(s: &Option<String>) -> String {
    match s {
        Some(s) => esc(s),
        None => "null".into(),
    }
}

struct Ctx<'tcx> {
    tcx: TyCtxt<'tcx>,
}

impl<'tcx> Ctx<'tcx> {
    fn path(&self, d: DefId) -> String {
        self.tcx.def_path_str(d)
    }
    /// Stable cross-crate key: crate name (+ "#bin" for the local executable) + verbose def path.
    fn key(&self, d: DefId) -> String {
        let tcx = self.tcx;
        let mut c = tcx.crate_name(d.krate).to_string();
        if d.is_local() && tcx.crate_types().iter().any(|t| matches!(t, rustc_session::config::CrateType::Executable)) {
            c.push_str("#bin");
        }
        format!("{}{}", c, tcx.def_path(d).to_string_no_crate_verbose())
    }
    fn loc(&self, sp: Span) -> (String, usize, usize, usize) {
        let sm = self.tcx.sess.source_map();
        let sp = sp.source_callsite();
        let lo = sm.lookup_char_pos(sp.lo());
        let hi = sm.lookup_char_pos(sp.hi());
        let file = match &lo.file.name {
            rustc_span::FileName::Real(r) => match r.local_path() {
                Some(p) => p.to_string_lossy().to_string(),
                None => format!("{:?}", lo.file.name),
            },
            other => format!("{:?}", other),
        };
        (file, lo.line, lo.col.0 + 1, hi.line)
    }
    fn raw_loc(&self, sp: Span) -> (String, usize, usize) {
        // location without walking out of macro expansions
        let sm = self.tcx.sess.source_map();
        let lo = sm.lookup_char_pos(sp.lo());
        let file = match &lo.file.name {
            rustc_span::FileName::Real(r) => match r.local_path() {
                Some(p) => p.to_string_lossy().to_string(),
                None => format!("{:?}", lo.file.name),
            },
            other => format!("{:?}", other),
        };
        (file, lo.line, lo.col.0 + 1)
    }
    fn snippet(&self, sp: Span) -> String {
        let sm = self.tcx.sess.source_map();
        let s = sm.span_to_snippet(sp.source_callsite()).unwrap_or_default();
        let mut t: String = s.split_whitespace().collect::<Vec<_>>().join(" ");
        if t.len() > 240 {
            let mut cut = 240;
            while !t.is_char_boundary(cut) {
                cut -= 1;
            }
            t.truncate(cut);
        }
        t
    }
    fn macros(&self, sp: Span) -> Vec<String> {
        sp.macro_backtrace()
            .map(|e| match e.kind {
                rustc_span::ExpnKind::Macro(_, name) => name.to_string(),
                other => format!("{:?}", other),
            })
            .collect()
    }
    fn span_json(&self, sp: Span) -> String {
        let (f, l, c, el) = self.loc(sp);
        let macs = self.macros(sp);
        format!(
            "\"file\":{},\"line\":{},\"col\":{},\"end_line\":{},\"exp\":{},\"macros\":[{}],\"snippet\":{}",
            esc(&f),
            l,
            c,
            el,
            sp.from_expansion(),
            macs.iter().map(|m| esc(m)).collect::<Vec<_>>().join(","),
            esc(&self.snippet(sp))
        )
    }
}

struct BodyFacts<'a, 'tcx> {
    cx: &'a Ctx<'tcx>,
    body: &'a mir::Body<'tcx>,
    owner: DefId,
    calls: Vec<String>,
    refs: Vec<String>,
    asserts: Vec<String>,
    aggregates: Vec<String>,
    consts: Vec<String>,
}

impl<'a, 'tcx> BodyFacts<'a, 'tcx> {
    fn resolve(&self, def_id: DefId, args: ty::GenericArgsRef<'tcx>) -> (String, DefId) {
        let tcx = self.cx.tcx;
        let env = TypingEnv::post_analysis(tcx, self.owner);
        match Instance::try_resolve(tcx, env, def_id, args) {
            Ok(Some(inst)) => match inst.def {
                InstanceKind::Item(d) => ("direct".into(), d),
                InstanceKind::Virtual(d, _) => ("virtual".into(), d),
                other => (format!("shim"), other.def_id()),
            },
            _ => ("unresolved".into(), def_id),
        }
    }
    fn trait_item_of(&self, d: DefId) -> Option<String> {
        let tcx = self.cx.tcx;
        match tcx.def_kind(d) {
            DefKind::AssocFn => {}
            _ => return None,
        }
        let ai = tcx.associated_item(d);
        match ai.container {
            ty::AssocContainer::Trait => Some(self.cx.key(d)),
            ty::AssocContainer::TraitImpl(Ok(t)) => Some(self.cx.key(t)),
            _ => None,
        }
    }
}

impl<'a, 'tcx> MirVisitor<'tcx> for BodyFacts<'a, 'tcx> {
    fn visit_terminator(&mut self, term: &mir::Terminator<'tcx>, location: mir::Location) {
        let cx = self.cx;
        let tcx = cx.tcx;
        let sp = term.source_info.span;
        match &term.kind {
            TerminatorKind::Call { func, .. } | TerminatorKind::TailCall { func, .. } => {
                let dest = match &term.kind {
                    TerminatorKind::Call { destination, .. } => format!("{:?}", destination),
                    _ => String::new(),
                };
                let fn_ty = func.ty(&self.body.local_decls, tcx);
                let fn_ty_s = fn_ty.to_string();
                let argv: Vec<String> = match &term.kind {
                    TerminatorKind::Call { args, .. } | TerminatorKind::TailCall { args, .. } => {
                        args.iter().map(|a| format!("{:?}", a.node)).collect()
                    }
                    _ => vec![],
                };
                let arg_tys: Vec<String> = match &term.kind {
                    TerminatorKind::Call { args, .. } | TerminatorKind::TailCall { args, .. } => args
                        .iter()
                        .map(|a| a.node.ty(&self.body.local_decls, tcx).to_string())
                        .collect(),
                    _ => vec![],
                };
                let (ckey, dkey) = if let Some((def_id, gargs)) = func.const_fn_def() {
                    let (_, d) = self.resolve(def_id, gargs);
                    (cx.key(d), cx.key(def_id))
                } else {
                    (String::new(), String::new())
                };
                let (kind, callee, declared, trait_item, local, krate) =
                    if let Some((def_id, gargs)) = func.const_fn_def() {
                        let (kind, d) = self.resolve(def_id, gargs);
                        (
                            kind,
                            cx.path(d),
                            cx.path(def_id),
                            self.trait_item_of(def_id).or_else(|| self.trait_item_of(d)),
                            d.is_local(),
                            tcx.crate_name(d.krate).to_string(),
                        )
                    } else {
                        ("indirect".to_string(), fn_ty_s.clone(), fn_ty_s.clone(), None, false, String::new())
                    };
                let mut s = String::new();
                let _ = write!(
                    s,
                    "{{\"bb\":{},\"ckey\":{},\"dkey\":{},\"kind\":{},\"callee\":{},\"declared\":{},\"trait_item\":{},\"local\":{},\"crate\":{},\"fn_ty\":{},\"dest\":{},\"args\":[{}],\"arg_tys\":[{}],{}}}",
                    location.block.index(),
                    esc(&ckey),
                    esc(&dkey),
                    esc(&kind),
                    esc(&callee),
                    esc(&declared),
                    opt(&trait_item),
                    local,
                    esc(&krate),
                    esc(&fn_ty_s),
                    esc(&dest),
                    argv.iter().map(|a| esc(a)).collect::<Vec<_>>().join(","),
                    arg_tys.iter().map(|a| esc(a)).collect::<Vec<_>>().join(","),
                    cx.span_json(sp)
                );
                self.calls.push(s);
            }
            TerminatorKind::Assert { msg, .. } => {
                let kind = match &**msg {
                    mir::AssertKind::BoundsCheck { .. } => "BoundsCheck",
                    mir::AssertKind::Overflow(..) => "Overflow",
                    mir::AssertKind::OverflowNeg(..) => "OverflowNeg",
                    mir::AssertKind::DivisionByZero(..) => "DivisionByZero",
                    mir::AssertKind::RemainderByZero(..) => "RemainderByZero",
                    mir::AssertKind::MisalignedPointerDereference { .. } => "Misaligned",
                    mir::AssertKind::NullPointerDereference => "NullDeref",
                    _ => "Other",
                };
                self.asserts.push(format!(
                    "{{\"bb\":{},\"kind\":{},{}}}",
                    location.block.index(),
                    esc(kind),
                    cx.span_json(sp)
                ));
            }
            _ => {}
        }
        self.super_terminator(term, location);
    }

    fn visit_rvalue(&mut self, rv: &Rvalue<'tcx>, location: mir::Location) {
        let cx = self.cx;
        let tcx = cx.tcx;
        if let Rvalue::Aggregate(kind, _) = rv {
            let sp = self.body.source_info(location).span;
            match &**kind {
                AggregateKind::Adt(did, vidx, _, _, _) => {
                    let adt = tcx.adt_def(*did);
                    let v = adt.variant(*vidx);
                    self.aggregates.push(format!(
                        "{{\"bb\":{},\"adt\":{},\"variant\":{},\"is_enum\":{},{}}}",
                        location.block.index(),
                        esc(&cx.path(*did)),
                        esc(v.name.as_str()),
                        adt.is_enum(),
                        cx.span_json(sp)
                    ));
                }
                AggregateKind::Closure(did, _) | AggregateKind::Coroutine(did, _) | AggregateKind::CoroutineClosure(did, _) => {
                    self.refs.push(format!(
                        "{{\"kind\":\"closure\",\"key\":{},\"path\":{},\"bb\":{}}}",
                        esc(&cx.key(*did)),
                        esc(&cx.path(*did)),
                        location.block.index()
                    ));
                }
                _ => {}
            }
        }
        self.super_rvalue(rv, location);
    }

    fn visit_const_operand(&mut self, c: &mir::ConstOperand<'tcx>, location: mir::Location) {
        let cx = self.cx;
        let t = c.const_.ty();
        if let ty::FnDef(def_id, gargs) = t.kind() {
            let (kind, d) = self.resolve(*def_id, gargs);
            self.refs.push(format!(
                "{{\"kind\":\"fnitem\",\"key\":{},\"dkey\":{},\"path\":{},\"declared\":{},\"res\":{},\"trait_item\":{},\"bb\":{}}}",
                esc(&cx.key(d)),
                esc(&cx.key(*def_id)),
                esc(&cx.path(d)),
                esc(&cx.path(*def_id)),
                esc(&kind),
                opt(&self.trait_item_of(*def_id).or_else(|| self.trait_item_of(d))),
                location.block.index()
            ));
        }
        else {
            // a use of a named constant: its initialiser is a body of its own (tables of function pointers, closures kept in a
            // const) — record the dependency so that reachability passes through it
            if let mir::Const::Unevaluated(uv, _) = c.const_ {
                if uv.def.is_local() && matches!(cx.tcx.def_kind(uv.def), DefKind::Const { .. } | DefKind::AssocConst { .. }) {
                    self.refs.push(format!(
                        "{{\"kind\":\"const\",\"key\":{},\"path\":{},\"res\":\"direct\",\"bb\":{}}}",
                        esc(&cx.key(uv.def)),
                        esc(&cx.path(uv.def)),
                        location.block.index()
                    ));
                }
            }
            // integer-valued constants (also single-field integer newtypes), evaluated by rustc
            let tcx = cx.tcx;
            let env = TypingEnv::post_analysis(tcx, self.owner);
            if let Ok(val) = c.const_.eval(tcx, env, c.span) {
                if let Some(si) = val.try_to_scalar_int() {
                    let mut leaf = t;
                    if let ty::Adt(def, gargs) = t.kind() {
                        if def.is_struct() && def.all_fields().count() == 1 {
                            if let Some(f) = def.all_fields().next() {
                                leaf = f.ty(tcx, gargs);
                            }
                        }
                    }
                    let v: Option<String> = match leaf.kind() {
                        ty::Int(_) => Some(si.to_int(si.size()).to_string()),
                        ty::Uint(_) => Some(si.to_uint(si.size()).to_string()),
                        ty::Bool => Some(si.to_uint(si.size()).to_string()),
                        _ => None,
                    };
                    if let Some(v) = v {
                        self.consts.push(format!(
                            "{{\"text\":{},\"val\":{},\"ty\":{},\"bb\":{}}}",
                            esc(&format!("{:?}", c)),
                            esc(&v),
                            esc(&t.to_string()),
                            location.block.index()
                        ));
                    }
                }
            }
        }
        self.super_const_operand(c, location);
    }
}


struct HirFacts<'a, 'tcx> {
    cx: &'a Ctx<'tcx>,
    tr: &'tcx ty::TypeckResults<'tcx>,
    fields: Vec<String>,
    methods: Vec<String>,
    owner: String,
}

impl<'a, 'tcx> HirVisitor<'tcx> for HirFacts<'a, 'tcx> {
    fn visit_expr(&mut self, e: &'tcx rustc_hir::Expr<'tcx>) {
        let cx = self.cx;
        match e.kind {
            rustc_hir::ExprKind::Field(base, ident) => {
                let t = self.tr.expr_ty_adjusted(base).peel_refs();
                if let ty::Adt(adt, _) = t.kind() {
                    let (f, l, c) = cx.raw_loc(ident.span);
                    self.fields.push(format!(
                        "{{\"fn\":{},\"file\":{},\"line\":{},\"col\":{},\"exp\":{},\"owner\":{},\"field\":{}}}",
                        esc(&self.owner),
                        esc(&f),
                        l,
                        c,
                        e.span.from_expansion(),
                        esc(&cx.path(adt.did())),
                        esc(ident.as_str())
                    ));
                }
            }
            rustc_hir::ExprKind::MethodCall(seg, recv, _, _) => {
                if let Some(d) = self.tr.type_dependent_def_id(e.hir_id) {
                    let t = self.tr.expr_ty_adjusted(recv).peel_refs();
                    let (f, l, c) = cx.raw_loc(seg.ident.span);
                    self.methods.push(format!(
                        "{{\"fn\":{},\"file\":{},\"line\":{},\"col\":{},\"exp\":{},\"callee\":{},\"recv_ty\":{},\"name\":{}}}",
                        esc(&self.owner),
                        esc(&f),
                        l,
                        c,
                        e.span.from_expansion(),
                        esc(&cx.path(d)),
                        esc(&t.to_string()),
                        esc(seg.ident.as_str())
                    ));
                }
            }
            rustc_hir::ExprKind::Closure(cl) => {
                // closure bodies are nested bodies: the default visitor does not enter them, but they share the typeck
                // results of the enclosing function, so their field accesses / method calls belong to this owner
                let body = cx.tcx.hir_body(cl.body);
                self.visit_expr(body.value);
            }
            _ => {}
        }
        intravisit::walk_expr(self, e);
    }
}

struct Cb;

impl Callbacks for Cb {
    fn after_analysis<'tcx>(&mut self, _c: &Compiler, tcx: TyCtxt<'tcx>) -> Compilation {
        let out_dir = match std::env::var("MIRQ_OUT") {
            Ok(d) => d,
            Err(_) => return Compilation::Continue,
        };
        let cx = Ctx { tcx };
        let crate_name = tcx.crate_name(rustc_span::def_id::LOCAL_CRATE).to_string();
        let mut bodies: Vec<String> = Vec::new();
        let keys: Vec<LocalDefId> = tcx.mir_keys(()).iter().copied().collect();
        for ldid in keys {
            let did = ldid.to_def_id();
            let dk = tcx.def_kind(did);
            let kind = match dk {
                DefKind::Fn => "fn",
                DefKind::AssocFn => "assoc_fn",
                DefKind::Closure => "closure",
                DefKind::Ctor(..) => continue,
                // named constants and statics: no runtime control flow, but the values they build (tables of IR variants,
                // keyword lists) are what table-driven code consults — their aggregates belong to the inventory
                DefKind::Const { .. } | DefKind::AssocConst { .. } | DefKind::Static { .. } => "const",
                _ => continue, // anon consts, inline consts
            };
            if tcx.is_constructor(did) {
                continue;
            }
            let body: &mir::Body<'tcx> = if kind == "const" { tcx.mir_for_ctfe(did) } else { tcx.optimized_mir(did) };
            let mut bf = BodyFacts {
                cx: &cx,
                body,
                owner: did,
                calls: vec![],
                refs: vec![],
                asserts: vec![],
                aggregates: vec![],
                consts: vec![],
            };
            bf.visit_body(body);
            let (file, line, _c, end_line) = cx.loc(body.span);
            let parent = if dk == DefKind::Closure {
                Some(cx.key(tcx.typeck_root_def_id(did)))
            } else {
                None
            };
            let immediate_parent = if dk == DefKind::Closure { Some(cx.key(tcx.parent(did))) } else { None };
            let (trait_item, is_default, self_ty) = if dk == DefKind::AssocFn {
                let ai = tcx.associated_item(did);
                match ai.container {
                    ty::AssocContainer::Trait => (Some(cx.key(did)), true, None),
                    ty::AssocContainer::TraitImpl(Ok(t)) => {
                        let imp = tcx.parent(did);
                        let st = tcx.type_of(imp).instantiate_identity().skip_norm_wip().to_string();
                        (Some(cx.key(t)), false, Some(st))
                    }
                    _ => {
                        let imp = tcx.parent(did);
                        let st = tcx.type_of(imp).instantiate_identity().skip_norm_wip().to_string();
                        (None, false, Some(st))
                    }
                }
            } else {
                (None, false, None)
            };
            let from_exp = body.span.from_expansion();
            let attrs_derive = tcx.is_automatically_derived(if dk == DefKind::AssocFn { tcx.parent(did) } else { did });
            // CFG
            let doms = body.basic_blocks.dominators();
            let mut succ = String::new();
            let mut idom = String::new();
            let mut blocks = String::new();
            for (bb, data) in body.basic_blocks.iter_enumerated() {
                if bb.index() > 0 {
                    succ.push(',');
                    idom.push(',');
                    blocks.push(',');
                }
                let ss: Vec<String> = data.terminator().successors().map(|s| s.index().to_string()).collect();
                let _ = write!(succ, "[{}]", ss.join(","));
                match doms.immediate_dominator(bb) {
                    Some(d) => {
                        let _ = write!(idom, "{}", d.index());
                    }
                    None => idom.push_str("-1"),
                }
                let stmts: Vec<String> = data.statements.iter().map(|s| esc(&format!("{:?}", s))).collect();
                let _ = write!(
                    blocks,
                    "{{\"stmts\":[{}],\"term\":{},\"cleanup\":{}}}",
                    stmts.join(","),
                    esc(&format!("{:?}", data.terminator().kind)),
                    data.is_cleanup
                );
            }
            let locals: Vec<String> = body
                .local_decls
                .iter_enumerated()
                .map(|(l, d)| format!("{}:{}", esc(&format!("{:?}", l)), esc(&d.ty.to_string())))
                .collect();
            let mut names: Vec<String> = Vec::new();
            for vdi in &body.var_debug_info {
                if let mir::VarDebugInfoContents::Place(p) = &vdi.value {
                    names.push(format!("{}:{}", esc(vdi.name.as_str()), esc(&format!("{:?}", p))));
                }
            }
            let mut s = String::new();
            let _ = write!(
                s,
                "{{\"key\":{},\"id\":{},\"kind\":{},\"file\":{},\"line\":{},\"end_line\":{},\"exp\":{},\"derived\":{},\"root\":{},\"parent\":{},\"trait_item\":{},\"is_default\":{},\"self_ty\":{},\"arg_count\":{},\"calls\":[{}],\"refs\":[{}],\"asserts\":[{}],\"aggregates\":[{}],\"consts\":[{}],\"succ\":[{}],\"idom\":[{}],\"blocks\":[{}],\"locals\":{{{}}},\"names\":{{{}}}}}",
                esc(&cx.key(did)),
                esc(&cx.path(did)),
                esc(kind),
                esc(&file),
                line,
                end_line,
                from_exp,
                attrs_derive,
                opt(&parent),
                opt(&immediate_parent),
                opt(&trait_item),
                is_default,
                opt(&self_ty),
                body.arg_count,
                bf.calls.join(","),
                bf.refs.join(","),
                bf.asserts.join(","),
                bf.aggregates.join(","),
                bf.consts.join(","),
                succ,
                idom,
                blocks,
                locals.join(","),
                {
                    // dedupe names (json object keys must be unique-ish; keep first)
                    let mut seen = std::collections::HashSet::new();
                    names.retain(|n| seen.insert(n.split(':').next().unwrap_or("").to_string()));
                    names.join(",")
                }
            );
            bodies.push(s);
            // promoted constants of this body (e.g. a `($min..=$max)` range literal): calls and integer constants only
            for (pi, pb) in tcx.promoted_mir(did).iter_enumerated() {
                let mut pf = BodyFacts { cx: &cx, body: pb, owner: did, calls: vec![], refs: vec![], asserts: vec![], aggregates: vec![], consts: vec![] };
                pf.visit_body(pb);
                let mut ps = String::new();
                let pstm: Vec<String> = pb.basic_blocks.iter().map(|d| format!("{{\"stmts\":[{}],\"term\":{},\"cleanup\":{}}}", d.statements.iter().map(|s| esc(&format!("{:?}", s))).collect::<Vec<_>>().join(","), esc(&format!("{:?}", d.terminator().kind)), d.is_cleanup)).collect();
                let _ = write!(
                    ps,
                    "{{\"key\":{},\"id\":{},\"kind\":\"promoted\",\"file\":{},\"line\":{},\"end_line\":{},\"exp\":{},\"derived\":{},\"root\":{},\"parent\":{},\"trait_item\":null,\"is_default\":false,\"self_ty\":null,\"arg_count\":0,\"calls\":[{}],\"refs\":[],\"asserts\":[],\"aggregates\":[{}],\"consts\":[{}],\"succ\":[],\"idom\":[],\"blocks\":[{}],\"locals\":{{}},\"names\":{{}}}}",
                    esc(&format!("{}::promoted[{}]", cx.key(did), pi.index())),
                    esc(&format!("{}::promoted[{}]", cx.path(did), pi.index())),
                    esc(&file),
                    line,
                    end_line,
                    from_exp,
                    attrs_derive,
                    esc(&cx.key(did)),
                    esc(&cx.key(did)),
                    pf.calls.join(","),
                    pf.aggregates.join(","),
                    pf.consts.join(","),
                    pstm.join(",")
                );
                bodies.push(ps);
            }
        }
        // HIR oracle
        let mut fields = Vec::new();
        let mut methods = Vec::new();
        for ldid in tcx.hir_body_owners() {
            let dk = tcx.def_kind(ldid.to_def_id());
            if !matches!(dk, DefKind::Fn | DefKind::AssocFn | DefKind::Closure) {
                continue;
            }
            if dk == DefKind::Closure {
                continue; // visited as part of the enclosing body (nested bodies are walked below)
            }
            let tr = tcx.typeck(ldid);
            let body = tcx.hir_body_owned_by(ldid);
            let mut hv = HirFacts { cx: &cx, tr, fields: vec![], methods: vec![], owner: cx.path(ldid.to_def_id()) };
            hv.visit_expr(body.value);
            fields.append(&mut hv.fields);
            methods.append(&mut hv.methods);
        }
        // ADT inventory (variants of local enums, fields of local structs)
        let mut adts = Vec::new();
        for ldid in tcx.hir_crate_items(()).definitions() {
            let did = ldid.to_def_id();
            if matches!(tcx.def_kind(did), DefKind::Struct | DefKind::Enum | DefKind::Union) {
                let adt = tcx.adt_def(did);
                let mut vs = Vec::new();
                for v in adt.variants() {
                    let fs: Vec<String> = v
                        .fields
                        .iter()
                        .map(|f| {
                            format!(
                                "{{\"name\":{},\"ty\":{},\"pub\":{}}}",
                                esc(f.name.as_str()),
                                esc(&tcx.type_of(f.did).instantiate_identity().skip_norm_wip().to_string()),
                                f.vis.is_public()
                            )
                        })
                        .collect();
                    vs.push(format!("{{\"name\":{},\"fields\":[{}]}}", esc(v.name.as_str()), fs.join(",")));
                }
                adts.push(format!(
                    "{{\"path\":{},\"is_enum\":{},\"variants\":[{}]}}",
                    esc(&cx.path(did)),
                    adt.is_enum(),
                    vs.join(",")
                ));
            }
        }
        let json = format!(
            "{{\"crate\":{},\"crate_types\":{},\"bodies\":[{}],\"hir_fields\":[{}],\"hir_methods\":[{}],\"adts\":[{}]}}\n",
            esc(&crate_name),
            esc(&format!("{:?}", tcx.crate_types())),
            bodies.join(",\n"),
            fields.join(",\n"),
            methods.join(",\n"),
            adts.join(",\n")
        );
        let path = format!("{}/{}-{}.json", out_dir, crate_name, std::process::id());
        std::fs::write(&path, json).expect("mirq: cannot write fact file");
        Compilation::Continue
    }
}

fn main() {
    let mut args: Vec<String> = std::env::args().collect();
    // wrapper mode: argv[1] is the path of the real rustc
    if args.len() > 1 && (args[1].ends_with("rustc") || args[1].contains("/rustc")) {
        args.remove(1);
    }
    let mut cb = Cb;
    rustc_driver::run_compiler(&args, &mut cb);
}
