"""C02 — enum wire encoding (variant names, tag and content keys) equals serde's.

Decided: (V1) variant ids are get_ident(variant.ident, variant.attrs, the enum's rename_all); tag/content keys are
the first `tag`/`content` name-value under serde on the enum; (V2) every attribute name typeshare looks up under
`serde` exists in the locked serde_derive's symbol table; (V3) in every backend each string-literal position fed
by a variant Id uses id.renamed through key-preserving transforms only and each variant loop has such a site;
(V4) tag_key/content_key are the only source of key text: every facet the backend carries has a hole fed by the
matching atom, named holes are bound to the same-named atom; (V5) no JSON-key position is literal text;
(V6) variant loops are unfiltered and every RustEnumVariant constructor has an arm."""
import glob
import json
import os
import re

from .. import core, emit, parser_rules as pr, transforms, vt, inline

TAG = '@RustEnum::Algebraic.tag_key'
CONTENT = '@RustEnum::Algebraic.content_key'
FACETS = {  # which key facets each backend's output carries (from the property text)
    'typescript': {'tag': 1, 'content': 1},
    'swift': {'tag': 4, 'content': 4},
    'go': {'tag': 3, 'content': 2},
    'python': {'tag': 1, 'content': 1},
    'kotlin': {'tag': 0, 'content': 1},
    'scala': {'tag': 0, 'content': 1},
}
LITERAL_KEY_PATTERNS = {  # target-syntax positions that must be followed by a hole, never by literal key text
    'swift': [r'forKey: \.[A-Za-z_]', r'case [a-z_]+, [a-z_]+\n\t\}'],
    'go': [r'json:"[A-Za-z_]'],
    'typescript': [r'\| \{ [A-Za-z_]+:'],
    'python': [r'^    [a-z_]+: Literal\['],
    'kotlin': [], 'scala': [],
}


def serde_symbols(ctx):
    lock = open(os.path.join(ctx.repo, 'Cargo.lock')).read()
    m = re.search(r'name = "serde_derive"\nversion = "([^"]+)"', lock)
    if not m:
        raise core.Incomplete('serde_derive not found in Cargo.lock')
    ver = m.group(1)
    cands = glob.glob(os.path.expanduser(f'~/.cargo/registry/src/*/serde_derive-{ver}/src/internals/symbol.rs'))
    if not cands:
        raise core.Incomplete(f'serde_derive-{ver} source not in the cargo registry (reference table unavailable)')
    txt = open(cands[0]).read()
    return ver, set(re.findall(r'Symbol\("([^"]+)"\)', txt))


def run(ctx, rep):
    rep.explanation = ('Enum wire encoding decided as provenance: parser construction sites for variant ids and tag/content keys; serde attribute names checked '
                       'against the locked serde_derive symbol table; per backend, every template hole fed by a variant Id or a tag/content key is '
                       'classified by position (string literal / identifier / key) and source atom; literal key text in key positions and filtered '
                       'variant loops are rejected. Holds for all enums since only the code is inspected.')
    rep.not_decided = "that rename_all case conversion of variant identifiers equals serde's (C16)."
    rep.trusted = ['syn', 'astq evaluator', 'serde_derive source named by Cargo.lock (symbol table)', 'facet table from the property text']
    T = emit.Types(ctx.astq)
    rep.section(pr.all_attrs_rule, ctx, rep, 'VA', ('get_ident', 'serde_rename_all', 'get_tag_key', 'get_content_key'), 6, keys=('rename', 'rename_all', 'tag', 'content'))
    rep.section(v1, ctx, rep, T)
    rep.section(v2, ctx, rep)
    rep.section(printers, ctx, rep, T)


def v1(ctx, rep, T):
    pev = ctx.fn('parse_enum_variant', file='parser.rs')
    sh = [s for s in pev['structs'] if s['path'].split('::')[-1] == 'RustEnumVariantShared']
    rep.floor('V1', 'RustEnumVariantShared construction', len(sh), 1)
    idv = vt.strip(sh[0]['v']['fields'].get('id'))
    site = {'file': pev['file'], 'line': sh[0]['line']}
    ok = isinstance(idv, dict) and idv.get('f') == 'get_ident' and len(idv.get('args', [])) == 3
    vparam = pev['params'][0]['name']
    if ok:
        a0, a1, a2 = [vt.show(vt.strip(x)) for x in idv['args']]
        ok = a0 == f'{vparam}.ident' and a1 == f'{vparam}.attrs'
        r = vt.strip(idv['args'][2])
        rule_param = r.get('root') if isinstance(r, dict) and r.get('k') == 'atom' and r.get('param') else None
        rep.check(ok, 'V1', 'variant-id:own-ident-and-attrs', f'get_ident({a0}, {a1}, ..)', f'parse_enum_variant: variant id built from {a0}/{a1}, not the variant\'s own ident and attrs', site)
        # what does parse_enum pass for that parameter?
        pe = ctx.fn('parse_enum', file='parser.rs')
        passed = None
        for c in pe['calls']:
            if c.get('f') == 'parse_enum_variant':
                names = [p['name'] for p in pev['params']]
                if rule_param in names:
                    passed = c['args'][names.index(rule_param)]
        eparam = pe['params'][0]['name']
        ok2, why2 = lookup_of(ctx, passed, eparam, 'rename_all')
        rep.check(rule_param is not None and ok2, 'V1', 'variant-id:enum-rule', "variant names use the enum's rename_all", f"variant id uses rename rule `{vt.show(idv['args'][2])[:60]}` ← parse_enum passes `{vt.show(passed)[:80]}` ({why2}); serde renames variants with the enum-level rename_all", site)
    else:
        rep.fail('V1', 'variant-id', f'variant id is not get_ident(..): {vt.show(idv)[:100]}', site)
    # tag / content
    # asked of the function as written (a multi-key look-up helper is judged by its summary) and, failing that, of the inlined
    # view (the keys may travel through a private helper type): either view is the same program
    pe0 = ctx.fn('parse_enum', file='parser.rs')
    pe = ctx.fnx('parse_enum', file='parser.rs')
    alg0 = [c for c in pe0['structs'] if c['path'] == 'RustEnum::Algebraic']
    alg = [c for c in pe['structs'] if c['path'] == 'RustEnum::Algebraic']
    rep.floor('V1', 'RustEnum::Algebraic construction', len(alg), 1)
    eparam = pe['params'][0]['name']
    for fld, want, other in (('tag_key', 'tag', 'content'), ('content_key', 'content', 'tag')):
        v = alg[0]['v']['fields'].get(fld)
        ok, why, pending = False, '', None
        for view_v in ([alg0[0]['v']['fields'].get(fld)] if alg0 else []) + [v]:
            try:
                ok, why = lookup_of(ctx, view_v, eparam, want, exclude=other)
            except core.Incomplete as e_:
                pending = e_
                continue
            if ok:
                break
        if not ok and pending is not None:
            raise pending
        rep.check(ok, 'V1', f'algebraic:{fld}', f'{fld} = the `{want}` argument of #[serde(..)] on the enum', f'parse_enum: RustEnum::Algebraic.{fld} is `{vt.show(v)[:100]}` — expected the name-value argument `{want}` of the enum\'s own #[serde(..)] attributes ({why})', {'file': pe['file'], 'line': alg[0]['line']})
    cs = [c for c in ctx.fn('const_items_dummy', file='x') if False] if False else None
    const = [i for i in ctx.items('const', 'SERDE', 'parser.rs')]
    rep.check(bool(const) and const[0].get('strings') == ['serde'], 'V1', 'const:SERDE', 'SERDE = "serde"', f"const SERDE is {const[0].get('strings') if const else 'missing'}", {'file': 'core/src/parser.rs', 'line': const[0]['line'] if const else 0})


def lookup_of(ctx, v, owner_param, want, exclude=None):
    """Does value tree `v` derive from an attribute look-up of the serde name-value argument `want` on `<owner_param>.attrs`?
    The look-up is any parser.rs function (identified by its look-up summary, not by its name) called with the owner's
    attribute list: a single-key look-up must be exactly (SERDE, want, NameValue); a look-up that reads several keys at once
    and returns them as a struct is accepted when the projected field carries the key's name.  `exclude`: a look-up of that
    other key must not be what feeds the value (swapped tag/content)."""
    found, seen = False, []
    for x in vt.walk(v):
        base = x
        fieldname = None
        if x.get('k') == 'field' and isinstance(vt.unvar(x.get('base')), dict):
            base, fieldname = vt.unvar(x['base']), x.get('name')
        if base.get('k') != 'call' or base.get('recv') is not None:
            continue
        args = [vt.strip(a) for a in base.get('args', [])]
        if not any(isinstance(a, dict) and a.get('k') == 'atom' and a.get('root') == owner_param and a.get('path') == ['attrs'] for a in args):
            continue
        closed, open_ = pr.lookup_closed(ctx, base.get('f'))
        if not closed:
            continue
        seen.append((base.get('f'), sorted(closed)))
        keys = {nm for ns, nm, kd in closed if ns == 'SERDE' and kd == 'NameValue'}
        if open_ or any(ns != 'SERDE' or kd != 'NameValue' for ns, nm, kd in closed):
            continue
        if keys == {want} and x is base:
            found = True
        elif want in keys and len(keys) > 1 and fieldname is not None:
            # multi-key helper: the projected field must be the one named after the key
            norm = lambda t: re.sub(r'[^a-z]', '', str(t).lower())
            if norm(want) in norm(fieldname) and not (exclude and norm(exclude) in norm(fieldname)):
                found = True
    if found:
        return True, ''
    # the value may come out of a method of a private type of parser.rs that keeps the looked-up keys (`SerdeEnumKeys::of(attrs)`
    # … `keys.require_for_algebraic_enum(..)?.0`): look-ups hidden behind such state are not followed — no verdict, not a finding
    local_methods = {g['name'].split('::')[-1] for g in ctx.fns(file='parser.rs') if any(p_['name'] == 'self' for p_ in g['params'])}
    opaque = sorted({str(x.get('f')) for x in vt.walk(v) if x.get('k') == 'call' and x.get('recv') is not None and x.get('f') in local_methods})
    if opaque and not seen:
        raise core.Incomplete(f"V1: the `{want}` value passes through the method(s) {opaque} of a private type of parser.rs; the attribute look-up behind them is not followed")
    return False, 'look-ups seen on the way: ' + (str(seen)[:160] if seen else 'none on the owner\'s attrs')


def v2(ctx, rep):
    ver, syms = serde_symbols(ctx)
    # every (namespace, name) pair an attribute look-up of parser.rs depends on, from the look-up summaries (helpers and
    # parameters resolved per call site): names looked up under #[serde(..)] must be attribute names serde_derive knows
    names = []
    seen_pairs = set()
    for f in ctx.fns(file='parser.rs'):
        closed, _open = pr.lookup_closed(ctx, f['name'])
        for ns, nm, kind in sorted(closed):
            if ns == 'SERDE' and (f['name'], nm) not in seen_pairs:
                seen_pairs.add((f['name'], nm))
                names.append((nm, f, {'line': f['line']}))
    rep.floor('V2', 'serde attribute names looked up', len(names), 7)
    for n, f, c in names:
        rep.check(n in syms, 'V2', f"{f['name']}:{n}", f'`{n}` is a serde_derive {ver} attribute symbol', f"{f['name']} looks for `{n}` under #[serde(..)], which is not an attribute name of serde_derive {ver} — the attribute the user writes for serde can never match", {'file': f['file'], 'line': c.get('line')})


def string_position(seq, ix):
    left = seq[ix - 1] if ix > 0 else None
    right = seq[ix + 1] if ix + 1 < len(seq) else None
    return bool(left and right and left[0] in ('lit', 'lit*') and left[1].endswith('"') and right[0] in ('lit', 'lit*') and right[1].startswith('"'))


def printers(ctx, rep, T):
    cache = {}
    n_occ = 0
    for be, (struct, file) in emit.BACKENDS.items():
        fns = inline.file_views(ctx, file)
        var_str, var_str_bad = [], []
        key_sites = {'tag': [], 'content': []}
        for g in fns:
            env = emit.caller_env_deep(fns, g)
            for s in g['sites']:
                alts = emit.site_alternatives_c(T, s, env)
                # named holes must be bound to the same-named atom (identity binding)
                for p in vt.walk(s['fmt']):
                    if p.get('k') == 'fmt':
                        for nm, bv in (p.get('named_bindings') or {}).items():
                            if nm in ('tag_key', 'content_key'):
                                cs = T.canon_s(emit.subst(bv, env) if env else bv)
                                want = TAG if nm == 'tag_key' else CONTENT
                                rep.check(cs == want, 'V4', f"{be}:{g['name']}:named-hole:{nm}", f'{{{nm}}} bound to {want}', f"{be}: in {g['qual']} the named hole {{{nm}}} is bound to `{vt.show(bv)[:60]}` ({cs}) — tag and content keys swapped or replaced", {'file': g['file'], 'line': s['line']})
                for conds, seq in alts:
                    # V5 literal key positions
                    for c in seq:
                        if c[0] == 'lit':
                            for pat in LITERAL_KEY_PATTERNS[be]:
                                m = re.search(pat, c[1], re.M)
                                if m:
                                    rep.fail('V5', f"{be}:{g['name']}:literal-key:{m.group(0).strip()[:24]}", f"{be}: {g['qual']} writes literal key text `{m.group(0).strip()}` where the serde tag/content key must be interpolated", {'file': g['file'], 'line': s['line']})
                    for ix, c in enumerate(seq):
                        if c[0] != 'atom':
                            continue
                        if c[1].startswith('RustEnumVariantShared.id.'):
                            n_occ += 1
                            if string_position(seq, ix):
                                part = c[1].split('.')[-1]
                                bad_via = []
                                for v in c[2]:
                                    if v.startswith('replace'):
                                        continue  # quote escaping inside a string literal
                                    if v not in cache:
                                        cache[v] = transforms.summarize(ctx, v)
                                    if cache[v]['kind'] not in ('identity', 'quote-select'):
                                        bad_via.append(f"{v}[{cache[v]['kind']}]")
                                if part != 'renamed' or bad_via:
                                    var_str_bad.append((g, s, c, bad_via, seq))
                                else:
                                    var_str.append((g, s, conds, seq, ix))
                        elif c[1] in (TAG, CONTENT):
                            n_occ += 1
                            key_sites['tag' if c[1] == TAG else 'content'].append((g, s, c, seq, ix))
        for g, s, c, bad_via, seq in var_str_bad:
            why = f"through {bad_via}" if bad_via else "from id.original"
            rep.fail('V3', f"{be}:{g['name']}:variant-string:{c[1].split('.')[-1]}{':' + ','.join(bad_via) if bad_via else ''}", f"{be}: {g['qual']} writes the variant's wire string {why}: {emit.seq_str(seq)[:150]} — serde's name is id.renamed, unmodified", {'file': g['file'], 'line': s['line']})
        rep.check(len(var_str) >= 2, 'V3', f'{be}:variant-string-sites', f'{len(var_str)} string-literal sites fed by RustEnumVariantShared.id.renamed', f'{be}: only {len(var_str)} template(s) carry the variant wire string (unit and algebraic printers each need one)', {'file': file, 'line': 0})
        # conditional string sites (Swift raw-value elision) must be guarded by `case identifier == renamed`
        all_alts = {}
        for g in fns:
            env = emit.caller_env_deep(fns, g)
            for s in g['sites']:
                all_alts[(g['qual'], s['line'])] = emit.site_alternatives_c(T, s, env)

        def has_string_occ(seq):
            return any(c[0] == 'atom' and c[1].startswith('RustEnumVariantShared.id.') and string_position(seq, i) for i, c in enumerate(seq))

        for g, s, conds, seq, ix in var_str:
            tests = [c for c in conds if c[0] == 'c']
            every = all_alts[(g['qual'], s['line'])]
            for t in tests:
                cv, pol = t[1], t[2]
                tsig = emit.sig(cv)
                same_pol = {has_string_occ(sq) for cs, sq in every if any(c2[0] == 'c' and emit.sig(c2[1]) == tsig and c2[2] == pol for c2 in cs)}
                other_pol = {has_string_occ(sq) for cs, sq in every if any(c2[0] == 'c' and emit.sig(c2[1]) == tsig and c2[2] != pol for c2 in cs)}
                controlling = same_pol == {True} and other_pol == {False}
                if not controlling:
                    continue
                cv0 = cv
                while isinstance(cv, dict) and cv.get('k') == 'var':
                    cv = cv['v']
                if isinstance(cv, dict) and cv.get('k') == 'loop_ran':
                    continue  # "the loop body ran" (a string built inside a loop): per element, not a condition on the variant
                ok = isinstance(cv, dict) and cv.get('k') == 'op' and cv.get('op') in ('==', '!=')
                if ok:
                    def nv(comp):
                        return (comp[0], comp[1], tuple(x for x in comp[2] if x not in ('swift_keyword_aware_rename', 'as_ref', 'into_owned'))) if comp[0] == 'atom' else comp
                    sides = [[[nv(x) for x in alt] for alt in emit.flatten(T, a)] for a in cv['args']]
                    ren = [[('atom', 'RustEnumVariantShared.id.renamed', ())]]
                    other = sides[1] if sides[0] == ren else (sides[0] if sides[1] == ren else None)
                    ok = other is not None and any(tuple(o) and all(x in [nv(y) for y in seq] for x in o) for o in other)
                    want_pol = (cv['op'] == '!=')
                    ok = ok and (pol == want_pol)
                rep.check(ok, 'V3', f"{be}:{g['name']}:conditional-variant-string", 'raw value omitted only when the case identifier equals the wire name', f"{be}: {g['qual']} writes the variant wire string only under `{vt.show(cv0)[:90]}` — it may be dropped exactly when the emitted case identifier equals id.renamed", {'file': g['file'], 'line': s['line']})
            for fr in s['guard']:
                if fr.get('k') == 'if' and any(x.startswith('RustEnumVariantShared.id') for x in emit.canons_in(T, fr['c'])):
                    cv = fr['c']
                    while isinstance(cv, dict) and cv.get('k') == 'var':
                        cv = cv['v']
                    ok = isinstance(cv, dict) and cv.get('k') == 'op' and cv.get('op') in ('==', '!=') and (bool(fr.get('neg')) == (cv['op'] == '=='))
                    if ok:
                        sides = [emit.flatten(T, a) for a in cv['args']]
                        ren = [[('atom', 'RustEnumVariantShared.id.renamed', ())]]
                        ok = ren in sides
                    rep.check(ok, 'V3', f"{be}:{g['name']}:conditional-variant-string-stmt", 'raw value omitted only when the case identifier equals the wire name', f"{be}: {g['qual']} writes the variant wire string only under `{vt.show(fr['c'])[:90]}`", {'file': g['file'], 'line': s['line']})
        for facet, need in FACETS[be].items():
            have = key_sites[facet]
            rep.check(len(have) >= need, 'V4', f'{be}:{facet}-key-sites', f'{len(have)} site(s) fed by the serde {facet} key', f"{be}: {len(have)} template position(s) are fed by the serde {facet} key, the {be} encoding needs at least {need} (declaration, decoder, encoder …)", {'file': file, 'line': 0})
            from .. import transforms as _tr

            def key_changing(vias):
                # identity / quote-if-needed helpers keep the key's text (derived from the helper bodies on every run)
                return [v for v in vias if v not in ('to_string', 'clone', 'as_str', 'to_owned') and _tr.summarize(ctx, v)['kind'] not in ('identity', 'quote-select')]
            raw_in_fn = {g2['qual'] for g2, s2, c2, seq2, ix2 in have if not key_changing(c2[2])}
            for g, s, c, seq, ix in have:
                lossy = key_changing(c[2])
                if lossy and not string_position(seq, ix) and g['qual'] not in raw_in_fn:
                    # a transformed key (identifier position) is only harmless next to the raw key that carries the wire name
                    rep.fail('V4', f"{be}:{g['name']}:{facet}-key-only-transformed", f"{be}: {g['qual']} writes the serde {facet} key only through {lossy} and nowhere as it is: whenever the transform changes the text (camelCase / capitalised / keyword / digit keys) the generated type reads and writes a different JSON key than serde", {'file': g['file'], 'line': s['line']})
                if string_position(seq, ix) and lossy:
                    rep.fail('V4', f"{be}:{g['name']}:{facet}-key-transformed", f"{be}: {g['qual']} writes the {facet} key into a string position through {lossy}", {'file': g['file'], 'line': s['line']})
        v6(ctx, rep, T, be, fns)
    rep.extra['evaluations'] = n_occ


def v6(ctx, rep, T, be, fns):
    ev = ctx.item('enum', 'RustEnumVariant')
    ctors = [f"RustEnumVariant::{v['name']}" for v in ev['variants']]
    loops = 0
    for g in fns:
        if g['name'] in ('unsigned_integer_used',):
            continue
        # loops over `.variants`
        for l in g['loops']:
            if l.get('kind') == 'for' and vt.show(l['over']).rstrip(')').endswith(('variants', 'variants.iter(')):
                loops += 1
                chain = [c.get('f') for c in vt.calls_in(l['over'])]
                bad = [c for c in chain if c in ('filter', 'skip', 'take', 'step_by', 'skip_while', 'take_while', 'filter_map', 'rev')]
                rep.check(not bad, 'V6', f"{be}:{g['name']}:variant-loop", 'unfiltered', f"{be}: {g['qual']} iterates the variants through {bad} — not every variant gets a case", {'file': g['file'], 'line': l['line']})
        for c in g['calls']:
            if c.get('f') in ('try_for_each', 'for_each', 'map') and isinstance(c.get('recv'), dict) and vt.show(c['recv']).endswith(('variants.iter()', 'variants.iter().zip(all_enum_variants_name.iter())')):
                loops += 1
        for l in g['loops']:
            if l.get('ctl') and any(fr.get('k') == 'for' and 'variants' in vt.show(fr.get('over')) for fr in l.get('guard', [])):
                rep.fail('V6', f"{be}:{g['name']}:variant-loop-ctl", f"{be}: {g['qual']} has `{l['ctl']}` inside the variant loop — a variant can be skipped", {'file': g['file'], 'line': l['line']})
        for m_i, m in enumerate(g['matches']):
            vs = [v for a in m['arms'] for v in a['variants']]
            if any(v.startswith('RustEnumVariant::') for v in vs) and g['name'].startswith(('write_', 'generate')):
                in_unit = any(fr.get('k') == 'arm' and 'RustEnum::Unit' in fr.get('variants', []) for fr in m['guard'])
                missing = [c for c in ctors if c not in vs]
                if in_unit:
                    continue
                if '_' in vs and missing:
                    wild = [a for a in m['arms'] if '_' in a['variants']]
                    if all(a.get('diverges') or 'None' in a['body'] for a in wild) and be != 'x' and any('None' in a['body'] or 'unreachable' in a['body'] for a in wild):
                        # filter_map helper (anonymous-struct extraction) or unreachable arm
                        continue
                rep.check(not missing, 'V6', f"{be}:{g['name']}:variant-arms:#{m_i}", 'one arm per RustEnumVariant constructor', f"{be}: {g['qual']} has no arm for {missing} — those variants get no case on the foreign side", {'file': g['file'], 'line': m['line']})
    rep.check(loops >= 2, 'V6', f'{be}:variant-loops-found', f'{loops} variant loops', f'{be}: expected a unit and an algebraic variant loop, found {loops}', {'file': emit.BACKENDS[be][1], 'line': 0})
