"""C18 — I54/U53 hold exactly the JavaScript-safe integers.

A value-range property whose enforcement is entirely in the shape of lib/src/integer.rs:
(J1) the limit constants, const-folded from source, equal 2^53-1 / -(2^53-1) computed independently;
(J2) the two truncated_type! invocations wire (type, wide type, serde try_from string, min, max) consistently and
the macro's range test is the inclusive range of exactly those bounds; (J3) construction typestate on the resolved
program: every aggregate construction of U53/I54 sits on the in-range branch of TryFrom<wide>, or widens from a
≤32-bit integer of the same signedness, or is derived Default (0); the field is private and no other code in the
crate builds or mutates the newtype; serde deserialisation calls TryFrom<wide>; (J4) narrowing conversions test
both bounds before the `as` cast.  Compile-fail witnesses (thorough tier) show client code cannot bypass it."""
import json
import os
import re
import subprocess

from .. import cg, core, vt

MAX_SAFE = 2 ** 53 - 1


EVALUATED = {}   # constant name -> value computed by rustc (filled per run from the compiled uses)


def fold(expr, consts, depth=0):
    """Const-fold a token string: integer literals, unary minus, `as` casts, named constants, + and -."""
    if expr.strip() in EVALUATED:
        return EVALUATED[expr.strip()]
    e = expr.replace(' ', '').replace('_', '') if re.fullmatch(r'[\s\d_]+', expr) else expr
    e = e.strip()
    if depth > 8:
        return None
    m = re.fullmatch(r'\(?\s*(.+?)\s*\)?', e)
    e = e.strip()
    if re.fullmatch(r'-?\s*[\d_]+(u64|i64|u32|i32)?', e):
        return int(re.sub(r'(u64|i64|u32|i32)$', '', e.replace('_', '').replace(' ', '')))
    m = re.fullmatch(r'(.+?)\s+as\s+\w+', e)
    if m:
        return fold(m.group(1), consts, depth + 1)
    # binary +/- at top level (right-most)
    depth_p = 0
    for i in range(len(e) - 1, 0, -1):
        ch = e[i]
        if ch == ')':
            depth_p += 1
        elif ch == '(':
            depth_p -= 1
        elif ch in '+-' and depth_p == 0 and e[:i].strip() and e[:i].strip()[-1] not in '+-*/(':
            l = fold(e[:i], consts, depth + 1)
            r = fold(e[i + 1:], consts, depth + 1)
            if l is None or r is None:
                return None
            return l + r if ch == '+' else l - r
    if e.startswith('-'):
        v = fold(e[1:], consts, depth + 1)
        return None if v is None else -v
    if e.startswith('(') and e.endswith(')'):
        return fold(e[1:-1], consts, depth + 1)
    if re.fullmatch(r'[A-Z][A-Z0-9_]*', e) and e in consts:
        return fold(consts[e], consts, depth + 1)
    return None


def checked_constructor(lib, ty, try_from_body):
    """The body that performs the range test for `ty`: TryFrom<wide>::try_from itself when it calls RangeInclusive::contains,
    otherwise the one function of the lib crate that does, constructs `ty`, and is called from try_from.  None if not found."""
    def has_contains(b):
        return any(re.search(r'RangeInclusive::<[^>]*>::contains', c['callee']) for c in b['calls'])
    if has_contains(try_from_body):
        return try_from_body
    called = {c['callee'] for c in try_from_body['calls']}
    cands = [b for b in lib['bodies'] if b['kind'] in ('assoc_fn', 'fn') and has_contains(b) and any(a['adt'] == f'integer::{ty}' for a in b['aggregates'])
             and any(cal == b['id'] or cal.split('::')[-1] == b['id'].split('::')[-1] and ty in cal for cal in called)]
    return cands[0] if len(cands) == 1 else None


def range_bounds(b, byid):
    """(lo, hi) of the RangeInclusive the body tests its argument against, from rustc-evaluated constants; None if not found."""
    cont = [c for c in b['calls'] if re.search(r'RangeInclusive::<[^>]*>::contains', c['callee'])]
    if len(cont) != 1:
        return None
    defs = {}
    for blk in b['blocks']:
        for st in blk['stmts']:
            m = re.match(r'^(_\d+) = (.*)$', st)
            if m:
                defs.setdefault(m.group(1), m.group(2))
    for c in b['calls']:
        d = str(c.get('dest') or '').split(' ')[0]
        if d.startswith('_'):
            defs.setdefault(d, ('call', c))

    def consts_of(body):
        return {x['text']: int(x['val']) for x in body.get('consts', [])}

    def value_of(opnd, body, depth=0):
        """integer value of an operand text (`const X`, `move _n`, `copy (_n.0: u64)`)"""
        opnd = opnd.strip()
        cv = consts_of(body)
        if opnd in cv:
            return cv[opnd]
        m = re.match(r'^(?:move |copy )?\(?(_\d+)(?:\.0: [^)]*\))?$', opnd)
        if m and depth < 10:
            rhs = defs.get(m.group(1)) if body is b else None
            if isinstance(rhs, str):
                return value_of(rhs, body, depth + 1)
        return None

    def range_of(opnd, depth=0):
        opnd = opnd.strip()
        m = re.search(r'promoted\[(\d+)\]', opnd)
        if m:
            pb = byid.get(f"{b['id']}::promoted[{m.group(1)}]")
            if pb:
                nw = [c for c in pb['calls'] if re.search(r'RangeInclusive::<[^>]*>::new$', c['callee'])]
                if len(nw) == 1 and len(nw[0]['args']) == 2:
                    cv = consts_of(pb)
                    pdefs = {}
                    for blk in pb['blocks']:
                        for st in blk['stmts']:
                            mm = re.match(r'^(_\d+) = (.*)$', st)
                            if mm:
                                pdefs.setdefault(mm.group(1), mm.group(2))

                    def pval(opnd, d=0):
                        # `const X`, or a local defined as a constant / as the single field of a constant newtype (`copy (_3.0: u64)`)
                        opnd = opnd.strip()
                        if opnd in cv:
                            return cv[opnd]
                        mm = re.match(r'^(?:move |copy )?\(?(_\d+)(?:\.0: [^)]*\))?$', opnd)
                        if mm and d < 8 and mm.group(1) in pdefs:
                            return pval(pdefs[mm.group(1)], d + 1)
                        return None
                    lo, hi = (pval(a) for a in nw[0]['args'])
                    return (lo, hi) if lo is not None and hi is not None else None
            return None
        m = re.match(r'^(?:move |copy |&|&mut |\(\*|\*)*(_\d+)\)?$', opnd)
        if m and depth < 12:
            rhs = defs.get(m.group(1))
            if isinstance(rhs, tuple):
                c = rhs[1]
                if re.search(r'RangeInclusive::<[^>]*>::new$', c['callee']) and len(c['args']) == 2:
                    lo, hi = (value_of(a, b) for a in c['args'])
                    return (lo, hi) if lo is not None and hi is not None else None
                return None
            if isinstance(rhs, str):
                return range_of(rhs, depth + 1)
        return None
    return range_of(cont[0]['args'][0])


def run(ctx, rep):
    rep.explanation = ('Range enforcement decided structurally: const-folded limits against an independently computed 2^53-1; macro wiring of the two invocations; '
                       'construction typestate over the resolved MIR of the lib crate (who may build U53/I54 and on which branch); both-bounds test before narrowing casts; '
                       'private field / impl inventory; serde path through TryFrom. Given these, "accepted ⇔ in range" follows for every u64/i64 without enumerating values.')
    rep.not_decided = 'IEEE-754 and JSON round-trip are consequences of the range (every integer of magnitude < 2^53 is exactly representable in a double; Serialize is derived on the wide field) — cited, not computed. Trusted: RangeInclusive::contains, serde\'s try_from attribute.'
    rep.trusted = ['rustc MIR', 'ECMAScript Number.MAX_SAFE_INTEGER = 2^53 - 1 (computed in the checker)', 'std RangeInclusive::contains', 'serde(try_from)']
    consts = {i['name']: i['expr'] for i in ctx.items('const', file='lib/src/integer.rs')}
    site = {'file': 'lib/src/integer.rs', 'line': 0}
    want = {'U53_MAX': MAX_SAFE, 'I54_MAX': MAX_SAFE, 'I54_MIN': -MAX_SAFE}
    # the value rustc itself computed for the constant (any spelling: literals, shifts, casts, other constants), read from
    # the compiled uses of the constant; the token-level fold is only the fall-back for a constant that is never used
    evaluated = {}
    for b_ in ctx.mirq('all')['crates']['typeshare']['bodies']:
        for k_ in b_.get('consts', []):
            m_ = re.fullmatch(r'const (?:\w+::)*integer::(\w+)', k_.get('text', ''))
            if m_ and re.fullmatch(r'-?\d+', str(k_.get('val', ''))):
                evaluated.setdefault(m_.group(1), set()).add(int(k_['val']))
    EVALUATED.clear()
    EVALUATED.update({n_: next(iter(v_)) for n_, v_ in evaluated.items() if len(v_) == 1})
    for name, val in want.items():
        got = fold(consts.get(name, ''), consts) if name in consts else None
        if len(evaluated.get(name, ())) == 1:
            got = next(iter(evaluated[name]))
        elif got is None and name in consts:
            raise core.Incomplete(f'J1: the value of {name} (`{consts[name]}`) could be neither read from compiled code nor folded')
        rep.check(got == val, 'J1', f'const:{name}', f'{name} = {got}', f"{name} const-folds to {got} (from `{consts.get(name)}`), but the JavaScript-safe limit is {val}: values outside [−(2^53−1), 2^53−1] would be accepted / in-range values rejected", {'file': 'lib/src/integer.rs', 'line': next((i['line'] for i in ctx.items('const', name, 'integer.rs')), 0)})
    # J2 macro invocations
    inv = [i for i in ctx.items('macro', file='lib/src/integer.rs') if i.get('path') == 'truncated_type']
    rep.floor('J2', 'truncated_type! invocations', len(inv), 2)
    expect = {'U53': ('u64', '"u64"', 0, MAX_SAFE), 'I54': ('i64', '"i64"', -MAX_SAFE, MAX_SAFE)}
    for i in inv:
        args = [a.strip() for a in split_args(i['tokens'])]
        # doc comments / attributes may be passed in front of the type name (`truncated_type!(#[doc = ".."] U53, u64, ..)`)
        args[0] = re.sub(r'^(?:#\s*!?\s*\[(?:[^\[\]]|\[[^\]]*\])*\]\s*)+', '', args[0]).strip()
        name = args[0]
        isite = {'file': i['file'], 'line': i['line']}
        if name not in expect:
            rep.fail('J2', f'invocation:{name}', f'unexpected truncated_type!({name}, ..)', isite)
            continue
        wide, s, mn, mx = expect[name]
        rep.check(args[1] == wide, 'J2', f'{name}:wide-type', wide, f'{name} wraps `{args[1]}`, expected {wide}', isite)
        rep.check(args[2].replace(' ', '') == s, 'J2', f'{name}:serde-try_from', f'serde(try_from = {s})', f"{name}: serde deserialises through `{args[2]}` instead of the wide integer {s} — values are converted (cast/saturated) before the range test, so out-of-range or fractional JSON numbers are accepted", isite)
        gmn, gmx = fold(args[3], consts), fold(args[4], consts)
        rep.check(gmn == mn and gmx == mx, 'J2', f'{name}:bounds', f'[{gmn}, {gmx}]', f'{name} is bounded by [{gmn}, {gmx}], expected [{mn}, {mx}]', isite)
    mdef = [i for i in ctx.items('macro', file='lib/src/integer.rs') if i.get('ident') == 'truncated_type']
    if not mdef:
        raise core.Incomplete('macro_rules! truncated_type not found')
    body = re.sub(r'\s+', '', mdef[0]['tokens'])
    # the range test, read from the compiled code of every instantiation (values evaluated by rustc): TryFrom<wide> tests
    # the value with RangeInclusive::contains on a range whose two bounds are exactly the expected limits — however the
    # range is spelled in the macro (`($min..=$max)`, `Self::MIN.0..=Self::MAX.0`, named constants …).  That the newtype is
    # only built on the true branch of that test is J3.
    libc = ctx.mirq('all')['crates']['typeshare']
    byid = {b['id']: b for b in libc['bodies']}
    for tname, (wide, _s, mn, mx) in expect.items():
        tb = [b for b in libc['bodies'] if b['kind'] == 'assoc_fn' and re.search(rf'<integer::{tname} as std::convert::TryFrom<{wide}>>::try_from$', b['id'])]
        key = f'{tname}:inclusive-range-test'
        if len(tb) != 1:
            rep.fail('J2', key, f'TryFrom<{wide}> for {tname} not found in the compiled lib crate', site)
            continue
        cc = checked_constructor(libc, tname, tb[0])
        if cc is not None and cc is not tb[0]:
            # TryFrom delegates to a private range-checked constructor: it must hand over its own argument and build nothing itself
            deleg = [c for c in tb[0]['calls'] if c['callee'] == cc['id'] or c['callee'].endswith('::' + cc['id'].split('::')[-1]) and cc['id'].split('::')[-1] in c['callee']]
            own = [a for a in tb[0]['aggregates'] if a['adt'] == f'integer::{tname}']
            def from_arg1(opnd, depth=0):
                # the operand is the function's own first argument, possibly through plain copies (`_3 = copy _1; f(move _3)`)
                m_ = re.fullmatch(r'(?:move|copy) (_\d+)', opnd.strip())
                if not m_ or depth > 6:
                    return False
                if m_.group(1) == '_1':
                    return True
                for blk_ in tb[0]['blocks']:
                    for st_ in blk_['stmts']:
                        d_ = re.fullmatch(rf'{m_.group(1)} = ((?:move|copy) _\d+)', st_.strip())
                        if d_:
                            return from_arg1(d_.group(1), depth + 1)
                return False
            okd = len(deleg) == 1 and any(from_arg1(a_) for a_ in deleg[0]['args']) and not own
            rep.check(okd, 'J2', f'{tname}:try_from-delegates', f"TryFrom<{wide}> hands its argument to {cc['id'].split('::')[-1]} and builds nothing itself", f"TryFrom<{wide}> for {tname} neither tests the range itself nor hands its argument (only) to the range-checked constructor {cc['id']}", {'file': tb[0]['file'], 'line': tb[0]['line']})
        got = range_bounds(cc if cc is not None else tb[0], byid)
        rep.check(got == (mn, mx), 'J2', key, f'value tested against the inclusive range [{mn}, {mx}] (bounds evaluated by rustc)', f"TryFrom<{wide}> for {tname}: the range test covers {got if got else 'no recognisable inclusive range'} instead of [{mn}, {mx}] (exclusive range / different bounds / no RangeInclusive::contains test)", {'file': tb[0]['file'], 'line': tb[0]['line']})
    rep.check('#[serde(try_from=$untruncated_str)]' in body and 'Deserialize' in body, 'J2', 'macro:serde-try_from', 'Deserialize derived with serde(try_from)', 'truncated_type!: Deserialize is no longer routed through serde(try_from = ..)', {'file': mdef[0]['file'], 'line': mdef[0]['line']})
    for bad in ('transparent', 'serde(from', 'remote', 'DerefMut', 'AsMut', '&mutself'):
        rep.check(bad not in body, 'J2', f'macro:no-{bad}', 'absent', f'truncated_type! now contains `{bad}`: a route around the range test', {'file': mdef[0]['file'], 'line': mdef[0]['line']})
    rep.check('pubstruct$truncated($untruncated);' in body, 'J2', 'macro:private-field', 'tuple field is private', 'truncated_type!: the wrapped integer is no longer a private tuple field', {'file': mdef[0]['file'], 'line': mdef[0]['line']})
    # J3 typestate on MIR
    lib = ctx.mirq('all')['crates']['typeshare']
    prog = cg.Program({'crates': {'typeshare': lib}})
    for a in lib['adts']:
        if a['path'] in ('integer::U53', 'integer::I54'):
            pub = [f for v in a['variants'] for f in v['fields'] if f['pub']]
            rep.check(not pub, 'J3', f"{a['path']}:field-private", 'private', f"{a['path']}: field is public — any value can be constructed directly", site)
    n = 0
    for b in lib['bodies']:
        ags = [a for a in b['aggregates'] if a['adt'] in ('integer::U53', 'integer::I54')]
        for a in ags:
            n += 1
            ty = a['adt'].split('::')[-1]
            wide = 'u64' if ty == 'U53' else 'i64'
            key = f"construct:{b['id']}"
            asite = {'file': a['file'], 'line': a['line']}
            if b.get('derived'):
                rep.ok('J3', key, 'derived impl (Default = 0, in range)', asite)
                continue
            if b['kind'] == 'const':
                # a named constant of the type (`U53::MAX`): its payload is a constant rustc evaluated — it must lie in the range
                mn, mx = expect[ty][2], expect[ty][3]
                blkst = ' '.join(b['blocks'][a['bb']]['stmts'])
                am = re.search(rf'integer::{ty}\((const [^)]*)\)', blkst)
                vals = [int(k_['val']) for k_ in b.get('consts', []) if am and k_.get('text') == am.group(1) and re.fullmatch(r'-?\d+', str(k_.get('val', '')))]
                ok = bool(vals) and all(mn <= v_ <= mx for v_ in vals)
                rep.check(ok, 'J3', key, f'constant payload {vals[0] if vals else None} within [{mn}, {mx}] (evaluated by rustc)', f"{b['id']}: a constant of type {ty} is built from `{am.group(1) if am else blkst[:60]}` = {vals[0] if vals else 'an unevaluated operand'}, outside [{mn}, {mx}] — an out-of-range {ty} exists without passing the range test", asite)
                continue
            m = re.fullmatch(rf'<integer::{ty} as std::convert::TryFrom<{wide}>>::try_from', b['id'])
            if not m:
                # the private range-checked constructor TryFrom delegates to (found by what it does: it tests its argument with
                # RangeInclusive::contains and is what TryFrom<wide> calls)
                tbs = [x for x in lib['bodies'] if x['kind'] == 'assoc_fn' and re.search(rf'<integer::{ty} as std::convert::TryFrom<{wide}>>::try_from$', x['id'])]
                cc_ = checked_constructor(lib, ty, tbs[0]) if len(tbs) == 1 else None
                m = cc_ is b
            if m:
                cont = [c for c in b['calls'] if c['callee'].endswith('RangeInclusive::<Idx>::contains')]
                ok = False
                if cont:
                    res = cont[0]['dest'].split(' ')[0]
                    for i, blk in enumerate(b['blocks']):
                        sm = re.match(r'switchInt\((?:move|copy) (_\d+)\) -> \[0: bb(\d+), otherwise: bb(\d+)\]', blk['term'])
                        if sm and sm.group(1) == res:
                            in_range = int(sm.group(3))
                            ok = prog.dominates(b, in_range, a['bb']) and a['bb'] not in prog.reachable_blocks(b, int(sm.group(2)))
                    # payload is the tested argument
                    blkst = ' '.join(b['blocks'][a['bb']]['stmts'])
                    if not ok:
                        # selection form: the value is built eagerly but only handed on through `bool::then_some(test, value)`
                        # (Some(value) iff the test is true — std contract); it reaches the result nowhere else
                        from . import c08
                        am = re.search(rf'(_\d+) = integer::{ty}\(move (_\d+)\)', blkst)
                        if am:
                            flow = c08.moved_set(b, am.group(1))
                            uses = [c for c in b['calls'] if any(re.search(rf'\b(move|copy) {x}\b', a2) for a2 in c['args'] for x in flow)]
                            tests = c08.moved_set(b, res)
                            sel = [c for c in uses if re.search(r'bool::<impl bool>::then(_some)?$', c['callee']) and len(c['args']) == 2
                                   and any(re.search(rf'\b(move|copy) {x}\b', c['args'][0]) for x in tests) and any(re.search(rf'\b(move|copy) {x}\b', c['args'][1]) for x in flow)]
                            ok = len(uses) == 1 and len(sel) == 1 and '_0' not in flow
                    ok = ok and re.search(rf'integer::{ty}\(move (_\d+)\)', blkst) is not None and re.search(r'= copy _1\b', blkst) is not None
                    ok = ok and any('&_1' in st for blk in b['blocks'] for st in blk['stmts'])
                rep.check(ok, 'J3', key, 'built only on the in-range branch of the inclusive-range test, from the tested value', f"{b['id']}: {ty} is constructed off the in-range branch of `contains` (or from a different value than the one tested)", asite)
                continue
            m = re.fullmatch(rf'<integer::{ty} as std::convert::From<(\w+)>>::from', b['id'])
            if m:
                narrow = m.group(1)
                allowed = {'U53': ('u8', 'u16', 'u32'), 'I54': ('i8', 'i16', 'i32')}[ty]
                into = [c for c in b['calls'] if c['callee'].endswith('Into<U>>::into') and f'<{narrow} as std::convert::Into<{wide}>>' in c['fn_ty'].replace('fn(', '')]
                into = into or [c for c in b['calls'] if c['callee'].endswith('Into<U>>::into') and narrow in c['fn_ty'] and wide in c['fn_ty']]
                rep.check(narrow in allowed and bool(into), 'J3', key, f'lossless widening from {narrow}', f"{b['id']}: {ty} is built from `{narrow}` without a range test — only same-signed integers of at most 32 bits may be widened unchecked", asite)
                continue
            rep.fail('J3', key, f"{b['id']} constructs {ty} directly: the only sanctioned constructors are TryFrom<{wide}> (range-checked), From<narrow> and the derived Default", asite)
    rep.floor('J3', 'U53/I54 construction sites in MIR', n, 10)
    # serde goes through TryFrom<wide>
    for ty, wide in (('U53', 'u64'), ('I54', 'i64')):
        des = [b for b in lib['bodies'] if 'Deserialize' in b['id'] and f'integer::{ty}' in b['id']] + [b for b in lib['bodies'] if b.get('root') and 'Deserialize' in prog.bodies.get(b['root'], {}).get('id', '') and f'integer::{ty}' in prog.bodies.get(b['root'], {}).get('id', '')]
        calls = [c['callee'] for b in des for c in b['calls']] + [r.get('path', '') for b in des for r in b['refs']]
        ok = any(f'<integer::{ty} as std::convert::TryFrom<{wide}>>::try_from' in c or (c.endswith('TryFrom<T>>::try_from') or 'try_from' in c) for c in calls)
        rep.check(bool(des) and ok, 'J3', f'{ty}:deserialize-through-try_from', f'Deserialize → TryFrom<{wide}>', f'{ty}: the derived Deserialize impl does not go through TryFrom<{wide}>', site)
    # J4 narrowing
    n4 = 0
    for b in lib['bodies']:
        m = re.fullmatch(r'integer::<impl std::convert::TryFrom<integer::(U53|I54)> for (\w+)>::try_from', b['id'])
        if not m:
            continue
        n4 += 1
        stm = ' '.join(st for blk in b['blocks'] for st in blk['stmts'])
        has_lt = re.search(r'= Lt\(', stm) is not None
        has_gt = re.search(r'= Gt\(', stm) is not None
        cast = re.search(r'as \w+ \(IntToInt\)', stm) is not None
        signed = m.group(1) == 'I54'
        ok = has_gt and cast and (has_lt or not signed)
        if not cast:
            # no `as` cast at all: the narrowing is delegated to std's checked conversion of the wrapped integer
            wide = 'u64' if m.group(1) == 'U53' else 'i64'
            chk = [c for c in b['calls'] if re.search(rf'convert::num::<impl std::convert::TryFrom<{wide}> for {m.group(2)}>::try_from$', c['callee'])]
            other = re.search(r'\(IntToInt\)|transmute|as_ptr', stm)
            if len(chk) == 1 and not other and any(re.search(r'_1\.0', st) for blk in b['blocks'] for st in blk['stmts']):
                rep.ok('J4', f'narrow:{m.group(1)}->{m.group(2)}', f"std checked conversion <{m.group(2)} as TryFrom<{wide}>>::try_from of the wrapped value", {'file': b['file'], 'line': b['line']})
                continue
        rep.check(ok, 'J4', f'narrow:{m.group(1)}->{m.group(2)}', 'both bounds tested before the cast', f"{b['id']}: the narrowing cast is guarded by {'an upper' if has_gt else 'no'}{' and a lower' if has_lt else ''} bound test only — " + ('values below the target minimum wrap around instead of being rejected' if not has_lt else 'values above the target maximum wrap'), {'file': b['file'], 'line': b['line']})
    rep.floor('J4', 'narrowing conversions', n4, 6)
    if ctx.tier == 'thorough':
        witnesses(ctx, rep)


def split_args(tokens):
    out, depth, cur, in_str = [], 0, '', False
    for ch in tokens:
        if ch == '"':
            in_str = not in_str
        if not in_str:
            if ch in '([{':
                depth += 1
            elif ch in ')]}':
                depth -= 1
            elif ch == ',' and depth == 0:
                out.append(cur)
                cur = ''
                continue
        cur += ch
    if cur.strip():
        out.append(cur)
    return out


def witnesses(ctx, rep):
    wdir = os.path.join(core.VERIF, 'witness')
    env = dict(os.environ, CARGO_NET_OFFLINE='true', VERIF_REPO_LIB=os.path.join(ctx.repo, 'lib'))
    try:
        import shutil
        import tempfile
        tdir = tempfile.mkdtemp(prefix='witness-target-')
        env['CARGO_TARGET_DIR'] = tdir
        # path dependency on the working tree's lib crate
        cargo = open(os.path.join(wdir, 'Cargo.toml.in')).read().replace('@REPO@', ctx.repo)
        open(os.path.join(wdir, 'Cargo.toml'), 'w').write(cargo)
        shutil.copy(os.path.join(ctx.repo, 'Cargo.lock'), os.path.join(wdir, 'Cargo.lock'))
        r = subprocess.run(['cargo', '+nightly', 'test', '--doc', '--offline'], cwd=wdir, env=env, capture_output=True, text=True, timeout=900)
        out = r.stdout + r.stderr
        m = re.search(r'test result: (\w+)\. (\d+) passed; (\d+) failed', out)
        ok = r.returncode == 0 and m is not None and int(m.group(3)) == 0 and int(m.group(2)) >= 6
        rep.check(ok, 'J5', 'compile-fail-witnesses', f'{m.group(2) if m else 0} doc-test witnesses (compile_fail with error codes + compiling twins)', 'type-level witnesses failed: ' + out[-600:], {'file': 'witness/src/lib.rs', 'line': 0})
    finally:
        shutil.rmtree(tdir, ignore_errors=True)
