// (included into eval.rs) macro invocations and format templates

#[derive(Debug)]
enum Piece {
    Lit(String),
    Hole { arg: String, spec: String }, // arg: "" = next positional, digits = index, ident = named/captured
}

fn parse_template(s: &str) -> Vec<Piece> {
    let mut out = Vec::new();
    let mut cur = String::new();
    let cs: Vec<char> = s.chars().collect();
    let mut i = 0;
    while i < cs.len() {
        let c = cs[i];
        if c == '{' {
            if i + 1 < cs.len() && cs[i + 1] == '{' {
                cur.push('{');
                i += 2;
                continue;
            }
            // hole
            let mut j = i + 1;
            let mut inner = String::new();
            while j < cs.len() && cs[j] != '}' {
                inner.push(cs[j]);
                j += 1;
            }
            if !cur.is_empty() {
                out.push(Piece::Lit(std::mem::take(&mut cur)));
            }
            let (arg, spec) = match inner.split_once(':') {
                Some((a, s)) => (a.trim().to_string(), s.trim().to_string()),
                None => (inner.trim().to_string(), String::new()),
            };
            out.push(Piece::Hole { arg, spec });
            i = j + 1;
            continue;
        }
        if c == '}' {
            if i + 1 < cs.len() && cs[i + 1] == '}' {
                cur.push('}');
                i += 2;
                continue;
            }
            cur.push('}');
            i += 1;
            continue;
        }
        cur.push(c);
        i += 1;
    }
    if !cur.is_empty() {
        out.push(Piece::Lit(cur));
    }
    out
}

impl<'a> Ev<'a> {
    /// Build a `fmt` value from the expressions after the writer (format string first).
    fn fmt_from(&mut self, exprs: &[Expr], line: usize) -> Value {
        if exprs.is_empty() {
            return json!({"k":"fmt","parts":[],"line":line});
        }
        let tmpl = match &exprs[0] {
            Expr::Lit(l) => match &l.lit {
                syn::Lit::Str(s) => Some(s.value()),
                _ => None,
            },
            Expr::Macro(m) if m.mac.path.is_ident("concat") => None,
            _ => None,
        };
        let tmpl = match tmpl {
            Some(t) => t,
            None => {
                let v = self.expr(&exprs[0], "fmt_template");
                return json!({"k":"fmt","parts":[{"hole":v,"spec":"","dynamic_template":true}],"line":line});
            }
        };
        let mut positional: Vec<Value> = Vec::new();
        let mut named: HashMap<String, Value> = HashMap::new();
        for e in &exprs[1..] {
            if let Expr::Assign(a) = e {
                if let Expr::Path(p) = &*a.left {
                    if p.path.segments.len() == 1 {
                        let n = p.path.segments[0].ident.to_string();
                        let v = self.expr(&a.right, "fmt_arg");
                        named.insert(n, v);
                        continue;
                    }
                }
            }
            positional.push(self.expr(e, "fmt_arg"));
        }
        let mut parts = Vec::new();
        let mut next = 0usize;
        let mut used_named: Vec<String> = Vec::new();
        for p in parse_template(&tmpl) {
            match p {
                Piece::Lit(s) => parts.push(json!({"lit":s})),
                Piece::Hole { arg, spec } => {
                    let (v, name) = if arg.is_empty() {
                        let v = positional.get(next).cloned().unwrap_or(json!({"k":"unknown","text":"missing-positional"}));
                        next += 1;
                        (v, Value::Null)
                    } else if let Ok(ix) = arg.parse::<usize>() {
                        (positional.get(ix).cloned().unwrap_or(json!({"k":"unknown","text":"bad-index"})), Value::Null)
                    } else if let Some(v) = named.get(&arg) {
                        used_named.push(arg.clone());
                        (v.clone(), json!({"name":arg,"explicit":true}))
                    } else {
                        // implicit capture of a local
                        let v = self.lookup(&arg).unwrap_or_else(|| {
                            if arg == "self" {
                                json!({"k":"atom","root":"self","path":[]})
                            } else {
                                json!({"k":"path","text":arg})
                            }
                        });
                        (v, json!({"name":arg,"explicit":false}))
                    };
                    let v = if size(&v) > 6000 { json!({"k":"big"}) } else { v };
                    parts.push(json!({"hole":v,"spec":spec,"named":name}));
                }
            }
        }
        let named_bindings: Map<String, Value> = named.iter().map(|(k, v)| (k.clone(), if size(v) > 3000 { json!({"k":"big"}) } else { v.clone() })).collect();
        json!({"k":"fmt","parts":parts,"line":line,"ty":"String","named_bindings":named_bindings})
    }

    pub fn mac(&mut self, m: &syn::Macro, parent: &str, line: usize) -> Value {
        let name = m.path.segments.last().map(|s| s.ident.to_string()).unwrap_or_default();
        let parse_args = || m.parse_body_with(Punctuated::<Expr, Token![,]>::parse_terminated).map(|p| p.into_iter().collect::<Vec<Expr>>());
        match name.as_str() {
            "format" | "print" | "println" | "eprint" | "eprintln" | "format_args" => {
                let args = match parse_args() {
                    Ok(a) => a,
                    Err(_) => return json!({"k":"unknown","text":format!("{}!", name)}),
                };
                let f = self.fmt_from(&args, line);
                if name != "format" && name != "format_args" && self.silent == 0 {
                    self.sites.push(json!({"macro":name,"sink":{"k":"path","text":if name.starts_with('e') {"stderr"} else {"stdout"}},"fmt":f,"nl":name.ends_with("ln"),"line":line,"guard":self.guard_json(),"parent":parent}));
                }
                if name == "format" || name == "format_args" {
                    f
                } else {
                    json!({"k":"unit"})
                }
            }
            "write" | "writeln" => {
                let args = match parse_args() {
                    Ok(a) => a,
                    Err(_) => return json!({"k":"unknown","text":format!("{}!", name)}),
                };
                if args.is_empty() {
                    return json!({"k":"unknown","text":"write!()"});
                }
                self.silent += 1;
                let sink = self.expr(&args[0], "sink");
                self.silent -= 1;
                let f = self.fmt_from(&args[1..], line);
                if self.silent == 0 {
                    self.sites.push(json!({"macro":name,"sink":sink,"sink_text":tok(&args[0]),"fmt":f,"nl":name=="writeln","line":line,"guard":self.guard_json(),"parent":parent}));
                }
                json!({"k":"io_result","ty":"Result<(),Error>","line":line})
            }
            "lazy_format" => {
                // either plain format args or `match (cond) { pat => ("tmpl", args..), .. }`
                if let Ok(e) = m.parse_body::<Expr>() {
                    if let Expr::Match(mm) = &e {
                        let scrut = self.expr(&mm.expr, "match_scrut");
                        let mut arms = Vec::new();
                        for arm in &mm.arms {
                            let elems: Vec<Expr> = match &*arm.body {
                                Expr::Tuple(t) => t.elems.iter().cloned().collect(),
                                Expr::Paren(p) => vec![(*p.expr).clone()],
                                other => vec![other.clone()],
                            };
                            let f = self.fmt_from(&elems, line);
                            let mut vs = Vec::new();
                            pat_variants(&arm.pat, &mut vs);
                            arms.push(json!({"pat":tok(&arm.pat),"variants":vs,"v":f}));
                        }
                        return json!({"k":"match","scrut":scrut,"arms":arms,"ty":"String","lazy_format":true});
                    }
                }
                match parse_args() {
                    Ok(a) => self.fmt_from(&a, line),
                    Err(_) => json!({"k":"unknown","text":"lazy_format!"}),
                }
            }
            "vec" => {
                let items: Vec<Value> = match parse_args() {
                    Ok(a) => a.iter().map(|e| {
                        let v = self.expr(e, "vec_elem");
                        json!({"guard":[],"v":v,"how":"literal","line":line})
                    }).collect(),
                    Err(_) => vec![json!({"guard":[],"v":{"k":"unknown","text":tok(&m.tokens.to_string())},"how":"repeat","line":line})],
                };
                let et = items.first().and_then(|i| ty_of(&i["v"]));
                with_ty(json!({"k":"vecof","items":items}), et.map(|t| format!("Vec<{}>", t)))
            }
            "matches" => {
                // matches!(expr, pattern [if guard])
                let parsed = m.parse_body_with(|input: syn::parse::ParseStream| {
                    let e: Expr = input.parse()?;
                    let _: Token![,] = input.parse()?;
                    let p = Pat::parse_multi_with_leading_vert(input)?;
                    let g: Option<Expr> = if input.peek(Token![if]) {
                        let _: Token![if] = input.parse()?;
                        Some(input.parse()?)
                    } else {
                        None
                    };
                    let _: Option<Token![,]> = input.parse()?;
                    Ok((e, p, g))
                });
                match parsed {
                    Ok((e, p, g)) => {
                        let scrut = self.expr(&e, "match_scrut");
                        let mut vs = Vec::new();
                        pat_variants(&p, &mut vs);
                        self.env.push(HashMap::new());
                        let sc = scrut.clone();
                        self.bind_pat(&p, &sc);
                        let gv = g.as_ref().map(|g| self.expr(g, "arm_guard"));
                        self.env.pop();
                        json!({"k":"matches","scrut":scrut,"pat":tok(&p),"variants":vs,"guard":gv,"ty":"bool"})
                    }
                    Err(_) => json!({"k":"unknown","text":"matches!"}),
                }
            }
            "panic" | "unreachable" | "todo" | "unimplemented" => {
                if self.silent == 0 {
                    self.panics.push(json!({"macro":name,"line":line,"guard":self.guard_json(),"tokens":short(&m.tokens.to_string())}));
                }
                json!({"k":"never","macro":name})
            }
            "assert" | "assert_eq" | "assert_ne" | "debug_assert" | "debug_assert_eq" | "debug_assert_ne" => {
                if self.silent == 0 {
                    self.panics.push(json!({"macro":name,"line":line,"guard":self.guard_json(),"tokens":short(&m.tokens.to_string())}));
                }
                json!({"k":"unit"})
            }
            "env" | "concat" | "stringify" | "include_str" | "file" | "line" | "module_path" => {
                json!({"k":"lit","t":"macro","v":format!("<{}!({})>", name, m.tokens.to_string()),"ty":"str"})
            }
            "debug" | "info" | "warn" | "error" | "trace" => {
                // log macros: evaluate the arguments silently (they never reach generated output)
                json!({"k":"unit","log":name})
            }
            _ => {
                // unknown macro: try to evaluate its arguments as expressions so that nested sites are seen
                let args: Vec<Value> = match parse_args() {
                    Ok(a) => a.iter().map(|e| self.expr(e, "macro_arg")).collect(),
                    Err(_) => vec![],
                };
                json!({"k":"macro","name":name,"args":args,"tokens":short(&m.tokens.to_string()),"line":line})
            }
        }
    }
}
