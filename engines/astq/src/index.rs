// Item index: struct/enum definitions, method signatures, constants.
use quote::ToTokens;
use serde_json::{json, Value};
use std::collections::HashMap;
use syn::spanned::Spanned;

pub fn tok<T: ToTokens>(t: &T) -> String {
    let s = t.to_token_stream().to_string();
    s.split_whitespace().collect::<Vec<_>>().join(" ")
}

pub fn norm_ty(t: &syn::Type) -> String {
    match t {
        syn::Type::Reference(r) => norm_ty(&r.elem),
        syn::Type::Paren(p) => norm_ty(&p.elem),
        syn::Type::Group(g) => norm_ty(&g.elem),
        syn::Type::Slice(s) => format!("[{}]", norm_ty(&s.elem)),
        syn::Type::Array(a) => format!("[{}]", norm_ty(&a.elem)),
        syn::Type::Tuple(t) => format!("({})", t.elems.iter().map(norm_ty).collect::<Vec<_>>().join(",")),
        syn::Type::Path(p) => {
            let seg = match p.path.segments.last() {
                Some(s) => s,
                None => return String::from("?"),
            };
            let name = seg.ident.to_string();
            let mut args: Vec<String> = Vec::new();
            if let syn::PathArguments::AngleBracketed(ab) = &seg.arguments {
                for a in &ab.args {
                    if let syn::GenericArgument::Type(t) = a {
                        args.push(norm_ty(t));
                    }
                }
            }
            if (name == "Box" || name == "Rc" || name == "Arc") && args.len() == 1 {
                return args.remove(0);
            }
            if name == "Cow" {
                return args.pop().unwrap_or_else(|| "str".into());
            }
            if args.is_empty() {
                name
            } else {
                format!("{}<{}>", name, args.join(","))
            }
        }
        syn::Type::TraitObject(t) => {
            let b = t.bounds.iter().map(|b| tok(b)).collect::<Vec<_>>().join("+");
            format!("dyn {}", b)
        }
        syn::Type::ImplTrait(t) => {
            let b = t.bounds.iter().map(|b| tok(b)).collect::<Vec<_>>().join("+");
            format!("impl {}", b)
        }
        other => tok(other),
    }
}

/// Split "Name<A,B<C>>" into ("Name", ["A","B<C>"]).
pub fn split_generic(t: &str) -> (String, Vec<String>) {
    let t = t.trim();
    if let Some(i) = t.find('<') {
        if t.ends_with('>') {
            let base = t[..i].to_string();
            let inner = &t[i + 1..t.len() - 1];
            return (base, split_top(inner));
        }
    }
    (t.to_string(), vec![])
}

pub fn split_top(inner: &str) -> Vec<String> {
    let mut out = Vec::new();
    let mut depth = 0i32;
    let mut cur = String::new();
    for c in inner.chars() {
        match c {
            '<' | '(' | '[' => {
                depth += 1;
                cur.push(c)
            }
            '>' | ')' | ']' => {
                depth -= 1;
                cur.push(c)
            }
            ',' if depth == 0 => {
                out.push(cur.trim().to_string());
                cur.clear();
            }
            _ => cur.push(c),
        }
    }
    if !cur.trim().is_empty() {
        out.push(cur.trim().to_string());
    }
    out
}

/// Element type of a collection / iterator / option-like type.
pub fn elem_of(t: &str) -> Option<String> {
    let t = t.trim();
    if t.starts_with('[') && t.ends_with(']') {
        return Some(t[1..t.len() - 1].to_string());
    }
    let (base, args) = split_generic(t);
    match base.as_str() {
        "Vec" | "Iter" | "Option" | "HashSet" | "BTreeSet" | "VecDeque" | "Punctuated" | "IntoIter" => args.first().cloned(),
        "HashMap" | "BTreeMap" => {
            if args.len() == 2 {
                Some(format!("({},{})", args[0], args[1]))
            } else {
                None
            }
        }
        "Result" => args.first().cloned(),
        _ => None,
    }
}

#[derive(Clone, Debug)]
pub enum Payload {
    Unit,
    Tuple(Vec<String>),
    Struct(Vec<(String, String)>),
}

pub struct Index {
    pub structs: HashMap<String, Vec<(String, String)>>,
    pub enums: HashMap<String, Vec<(String, Payload)>>,
    pub methods: HashMap<(String, String), String>,
    pub fns: HashMap<String, String>,
    pub consts: HashMap<String, String>,
    /// initialisers of small module-level const/static arrays (resolved when iterated or indexed)
    pub const_exprs: HashMap<String, syn::Expr>,
    pub aliases: HashMap<String, String>,
    items: Vec<Value>,
}

/// An array literal (possibly behind `&`) of at most 16 elements: a data table a loop may be unrolled over.
pub fn small_table(e: &syn::Expr) -> bool {
    match e {
        syn::Expr::Reference(r) => small_table(&r.expr),
        syn::Expr::Array(a) => a.elems.len() <= 64,
        // a literal constant (`const RAW_PREFIX: &str = "r#"`): the name stands for the literal wherever it is used
        syn::Expr::Lit(l) => matches!(l.lit, syn::Lit::Str(_) | syn::Lit::Char(_) | syn::Lit::Bool(_) | syn::Lit::Int(_)),
        _ => false,
    }
}

pub fn attrs_json(attrs: &[syn::Attribute]) -> Vec<String> {
    attrs
        .iter()
        .filter(|a| !a.path().is_ident("doc"))
        .map(|a| tok(&a.meta))
        .collect()
}

pub fn is_test_item(attrs: &[syn::Attribute]) -> bool {
    attrs.iter().any(|a| {
        if a.path().is_ident("test") {
            return true;
        }
        if a.path().is_ident("cfg") {
            let t = tok(&a.meta);
            return t.replace(' ', "") == "cfg(test)";
        }
        false
    })
}

fn vis_str(v: &syn::Visibility) -> String {
    match v {
        syn::Visibility::Public(_) => "pub".into(),
        syn::Visibility::Restricted(r) => format!("pub({})", tok(&r.path)),
        syn::Visibility::Inherited => "".into(),
    }
}

fn fields_of(f: &syn::Fields) -> Vec<(String, String, String, Vec<String>)> {
    match f {
        syn::Fields::Named(n) => n
            .named
            .iter()
            .map(|f| (f.ident.as_ref().unwrap().to_string(), norm_ty(&f.ty), vis_str(&f.vis), attrs_json(&f.attrs)))
            .collect(),
        syn::Fields::Unnamed(u) => u
            .unnamed
            .iter()
            .enumerate()
            .map(|(i, f)| (i.to_string(), norm_ty(&f.ty), vis_str(&f.vis), attrs_json(&f.attrs)))
            .collect(),
        syn::Fields::Unit => vec![],
    }
}

impl Index {
    pub fn build(files: &[(String, syn::File)]) -> Index {
        let mut idx = Index {
            structs: HashMap::new(),
            enums: HashMap::new(),
            methods: HashMap::new(),
            fns: HashMap::new(),
            consts: HashMap::new(),
            const_exprs: HashMap::new(),
            aliases: HashMap::new(),
            items: Vec::new(),
        };
        for (rel, f) in files {
            idx.items(rel, &f.items, "");
        }
        idx
    }

    fn items(&mut self, rel: &str, items: &[syn::Item], modpath: &str) {
        for it in items {
            match it {
                syn::Item::Struct(s) => {
                    if is_test_item(&s.attrs) {
                        continue;
                    }
                    let fs = fields_of(&s.fields);
                    self.structs.insert(s.ident.to_string(), fs.iter().map(|(n, t, _, _)| (n.clone(), t.clone())).collect());
                    self.items.push(json!({
                        "kind":"struct","name":s.ident.to_string(),"file":rel,"mod":modpath,"line":s.span().start().line,
                        "vis":vis_str(&s.vis),"attrs":attrs_json(&s.attrs),
                        "tuple": matches!(s.fields, syn::Fields::Unnamed(_)),
                        "generics": tok(&s.generics),
                        "fields": fs.iter().map(|(n,t,v,a)| json!({"name":n,"ty":t,"vis":v,"attrs":a})).collect::<Vec<_>>(),
                    }));
                }
                syn::Item::Enum(e) => {
                    if is_test_item(&e.attrs) {
                        continue;
                    }
                    let mut vs = Vec::new();
                    let mut vj = Vec::new();
                    for v in &e.variants {
                        let fs = fields_of(&v.fields);
                        let payload = match &v.fields {
                            syn::Fields::Unit => Payload::Unit,
                            syn::Fields::Unnamed(_) => Payload::Tuple(fs.iter().map(|f| f.1.clone()).collect()),
                            syn::Fields::Named(_) => Payload::Struct(fs.iter().map(|f| (f.0.clone(), f.1.clone())).collect()),
                        };
                        vs.push((v.ident.to_string(), payload));
                        vj.push(json!({
                            "name": v.ident.to_string(),
                            "kind": match &v.fields { syn::Fields::Unit=>"unit", syn::Fields::Unnamed(_)=>"tuple", syn::Fields::Named(_)=>"struct"},
                            "fields": fs.iter().map(|(n,t,_,a)| json!({"name":n,"ty":t,"attrs":a})).collect::<Vec<_>>(),
                            "attrs": attrs_json(&v.attrs),
                        }));
                    }
                    self.enums.insert(e.ident.to_string(), vs);
                    self.items.push(json!({
                        "kind":"enum","name":e.ident.to_string(),"file":rel,"mod":modpath,"line":e.span().start().line,
                        "vis":vis_str(&e.vis),"attrs":attrs_json(&e.attrs),"variants":vj,
                    }));
                }
                syn::Item::Type(t) => {
                    self.aliases.insert(t.ident.to_string(), norm_ty(&t.ty));
                    self.items.push(json!({"kind":"type","name":t.ident.to_string(),"file":rel,"mod":modpath,"line":t.span().start().line,"ty":norm_ty(&t.ty),"text":tok(&t.ty)}));
                }
                syn::Item::Const(c) => {
                    if is_test_item(&c.attrs) {
                        continue;
                    }
                    self.consts.insert(c.ident.to_string(), norm_ty(&c.ty));
                    if small_table(&c.expr) {
                        self.const_exprs.insert(c.ident.to_string(), (*c.expr).clone());
                    }
                    self.items.push(json!({"kind":"const","name":c.ident.to_string(),"file":rel,"mod":modpath,"line":c.span().start().line,"ty":norm_ty(&c.ty),"vis":vis_str(&c.vis),"expr":tok(&c.expr),"strings":string_lits(&c.expr)}));
                }
                syn::Item::Static(c) => {
                    self.consts.insert(c.ident.to_string(), norm_ty(&c.ty));
                    self.items.push(json!({"kind":"static","name":c.ident.to_string(),"file":rel,"mod":modpath,"line":c.span().start().line,"ty":norm_ty(&c.ty),"expr":tok(&c.expr),"strings":string_lits(&c.expr)}));
                }
                syn::Item::Fn(f) => {
                    if is_test_item(&f.attrs) {
                        continue;
                    }
                    if let syn::ReturnType::Type(_, t) = &f.sig.output {
                        self.fns.insert(f.sig.ident.to_string(), norm_ty(t));
                    }
                }
                syn::Item::Impl(i) => {
                    if is_test_item(&i.attrs) {
                        continue;
                    }
                    let self_ty = norm_ty(&i.self_ty);
                    let (self_base, _) = split_generic(&self_ty);
                    let trait_name = i.trait_.as_ref().map(|(_, p, _)| tok(p));
                    let mut ms = Vec::new();
                    for ii in &i.items {
                        if let syn::ImplItem::Fn(m) = ii {
                            if let syn::ReturnType::Type(_, t) = &m.sig.output {
                                let mut r = norm_ty(t);
                                if r == "Self" {
                                    r = self_ty.clone();
                                }
                                self.methods.insert((self_base.clone(), m.sig.ident.to_string()), r);
                            }
                            ms.push(m.sig.ident.to_string());
                        }
                    }
                    self.items.push(json!({"kind":"impl","self_ty":self_ty,"trait":trait_name,"file":rel,"mod":modpath,"line":i.span().start().line,"methods":ms,"attrs":attrs_json(&i.attrs),"generics":tok(&i.generics)}));
                }
                syn::Item::Trait(t) => {
                    let mut ms = Vec::new();
                    for ti in &t.items {
                        if let syn::TraitItem::Fn(m) = ti {
                            if let syn::ReturnType::Type(_, ty) = &m.sig.output {
                                self.methods.insert((t.ident.to_string(), m.sig.ident.to_string()), norm_ty(ty));
                            }
                            ms.push(json!({"name":m.sig.ident.to_string(),"has_default":m.default.is_some()}));
                        }
                    }
                    self.items.push(json!({"kind":"trait","name":t.ident.to_string(),"file":rel,"mod":modpath,"line":t.span().start().line,"methods":ms}));
                }
                syn::Item::Mod(m) => {
                    if is_test_item(&m.attrs) {
                        continue;
                    }
                    if let Some((_, items)) = &m.content {
                        let mp = if modpath.is_empty() { m.ident.to_string() } else { format!("{}::{}", modpath, m.ident) };
                        self.items(rel, items, &mp);
                    }
                }
                syn::Item::Macro(m) => {
                    self.items.push(json!({"kind":"macro","path":tok(&m.mac.path),"ident":m.ident.as_ref().map(|i| i.to_string()),"file":rel,"mod":modpath,"line":m.span().start().line,"tokens":m.mac.tokens.to_string()}));
                }
                syn::Item::Use(u) => {
                    self.items.push(json!({"kind":"use","file":rel,"mod":modpath,"line":u.span().start().line,"text":tok(&u.tree)}));
                }
                _ => {}
            }
        }
    }

    pub fn items_json(&self) -> Vec<Value> {
        self.items.clone()
    }

    pub fn field_ty(&self, owner: &str, field: &str) -> Option<String> {
        let (base, _) = split_generic(owner);
        let base = self.resolve_alias(&base);
        if let Some(fs) = self.structs.get(&base) {
            for (n, t) in fs {
                if n == field {
                    return Some(t.clone());
                }
            }
        }
        // tuple types
        if owner.starts_with('(') && owner.ends_with(')') {
            let parts = split_top(&owner[1..owner.len() - 1]);
            if let Ok(i) = field.parse::<usize>() {
                return parts.get(i).cloned();
            }
        }
        None
    }

    pub fn resolve_alias(&self, t: &str) -> String {
        let mut cur = t.to_string();
        for _ in 0..4 {
            match self.aliases.get(&cur) {
                Some(n) if !self.structs.contains_key(&cur) && !self.enums.contains_key(&cur) => cur = n.clone(),
                _ => break,
            }
        }
        cur
    }

    pub fn method_ret(&self, owner: &str, method: &str) -> Option<String> {
        let (base, _) = split_generic(owner);
        let base = base.trim_start_matches("dyn ").to_string();
        self.methods.get(&(base, method.to_string())).cloned()
    }
}

fn string_lits(e: &syn::Expr) -> Vec<String> {
    struct V(Vec<String>);
    impl<'ast> syn::visit::Visit<'ast> for V {
        fn visit_lit_str(&mut self, l: &'ast syn::LitStr) {
            self.0.push(l.value());
        }
        fn visit_macro(&mut self, m: &'ast syn::Macro) {
            // vec!["a", "b"] and friends
            if let Ok(es) = m.parse_body_with(syn::punctuated::Punctuated::<syn::Expr, syn::Token![,]>::parse_terminated) {
                for e in es.iter() {
                    syn::visit::visit_expr(self, e);
                }
            }
        }
    }
    let mut v = V(vec![]);
    syn::visit::visit_expr(&mut v, e);
    v.0
}
