"""C09 — every reference to a generated type uses the name it is defined under.

Decided exactly as a relation between name expressions: (N2) in every backend each type-level name site is built
from `id.renamed` (the component references carry after reconcile) with the backend prefix exactly where
format_simple_type applies it; (N2c) helper-struct references equal the helper-struct definition expression;
(N3) the reference rewriter visits every id position of RustType for every type-bearing field of every item kind;
(N4) generic parameters are never prefixed; (N5) type-level ids are built without a container rename rule."""
import json
import os
import re

from .. import core, emit, inline, vt

TYPE_OWNERS = ('RustStruct', 'RustTypeAlias', 'RustEnumShared')
DEF_KEYWORDS = {
    'kotlin': ['value class ', 'typealias ', 'object ', 'data class ', 'enum class ', 'sealed class '],
    'swift': ['public typealias ', 'public struct ', 'enum '],
    'scala': ['type ', 'case class ', 'class ', 'sealed trait ', 'object '],
    'go': ['type '],
    'python': ['class ', ''],
    'typescript': ['export type ', 'export interface ', 'export enum '],
}
NAME_PRESERVING = {'swift_keyword_aware_rename', 'acronyms_to_uppercase', 'convert_acronyms_to_uppercase', 'as_ref', 'clone', 'to_string'}


def role_of(seq, ix):
    prev = ''
    for c in reversed(seq[:ix]):
        if c[0] == 'lit':
            prev = c[1]
            break
        if c[0] == 'atom' and (c[1].endswith('.prefix')):
            continue
        break
    nxt = ''
    for c in seq[ix + 1:]:
        if c[0] == 'lit':
            nxt = c[1]
            break
        break
    p = re.sub(r'\s+', ' ', prev)[-18:].strip()
    n = re.sub(r'\s+', ' ', nxt)[:8].strip()
    return f"{p}_{n}"


def backend_fns(ctx, be):
    # inlined views: a local helper that builds a type name (prefix + id ...) is seen through
    _, file = emit.BACKENDS[be]
    views = [inline.view(ctx, f) for f in ctx.astq['functions'] if f['file'].endswith(file)]
    # a private helper that is expanded into its callers is judged there, under the caller's name (rule keys stay with the
    # trait method a reader knows — `write_enum` — when part of its body moves into `write_unit_enum`)
    expanded = {q for v in views for q in v.get('inlined', [])}
    return [v for v in views if not (v['qual'] in expanded and not v.get('trait'))]


def run(ctx, rep):
    rep.explanation = ('Name agreement decided as a relation between the name expressions of all type-name sites: every output template hole of every '
                       'backend is resolved (syn abstract evaluation) to a sequence of components (IR atoms such as RustEnumShared.id.renamed, backend '
                       'prefix, literals, transforms); definition sites, variant-parent / helper-struct reference sites and the reference rewriter '
                       '(reconcile) are compared structurally. Holds for every program, rename subset and prefix, since no input is involved.')
    rep.not_decided = 'value-level string transforms (Go acronym upper-casing boundary rules) and the import heuristics of multi-file mode (C14).'
    rep.trusted = ['syn parser', 'astq abstract evaluator (value-tree flattening)', 'per-language definition-keyword table (target syntax)']
    T = emit.Types(ctx.astq)
    n_sites = 0
    for be, (struct, file) in emit.BACKENDS.items():
        fns = backend_fns(ctx, be)
        if not fns:
            raise core.Incomplete(f'no functions found for backend {be}')
        # does this backend prefix user types?  (format_simple_type override mentioning self.prefix)
        prefixed = False
        for f in fns:
            if f['name'] == 'format_simple_type':
                if any(emit.seq_str(a).find(f'{struct}.prefix') >= 0 for a in emit.flatten(T, f['tail'])):
                    prefixed = True
        defs = 0
        for f in fns:
            for s in f['sites']:
                sink = s.get('sink_text', '')
                for alt in emit.site_alternatives(T, s):
                    for ix, c in enumerate(alt):
                        if c[0] != 'atom':
                            continue
                        m = re.match(r'(RustStruct|RustTypeAlias|RustEnumShared)\.id\.(original|renamed)$', c[1])
                        if not m:
                            continue
                        owner, comp = m.group(1), m.group(2)
                        via = [v for v in c[2] if v not in NAME_PRESERVING]
                        role = role_of(alt, ix)
                        key = f"{be}:{f['name']}:{owner}.{comp}:{role}"
                        site = {'file': f['file'], 'line': s['line']}
                        n_sites += 1
                        if 'index' in via:
                            rep.ok('N2', key, 'not a type name: sliced/lower-cased local identifier', site)
                            continue
                        if via:
                            rep.ok('N2', key, f'derived identifier through {via} (not a reference to the type name)', site)
                            continue
                        prev = alt[ix - 1] if ix > 0 else None
                        has_prefix = bool(prev and prev[0] == 'atom' and prev[1] == f'{struct}.prefix')
                        before = next((x[1] for x in reversed(alt[:ix]) if x[0] == 'lit'), '')
                        is_def = any(before.endswith(k) and k for k in DEF_KEYWORDS[be]) or (be == 'python' and ix == 0)
                        if is_def:
                            defs += 1
                        if comp == 'original':
                            rep.fail('N2', key, f"{be}: type name spelled with {owner}.id.original at `{role}` in {f['qual']} — references to this type arrive as id.renamed after reconcile, so a serde(rename)d type is defined/parented under a different name: {emit.seq_str(alt)[:160]}", site)
                            continue
                        if is_def:
                            if prefixed and not has_prefix:
                                rep.fail('N2', key, f"{be}: definition `{role}` lacks the {struct}.prefix that format_simple_type puts on every reference", site)
                                continue
                            if not prefixed and has_prefix:
                                rep.fail('N2', key, f"{be}: definition `{role}` carries a prefix that references do not", site)
                                continue
                        rep.ok('N2', key, ('definition ' if is_def else 'use ') + emit.seq_str(alt[max(0, ix - 1):ix + 1]), site)
        rep.floor('N2', f'{be}: type definition sites', defs, 3)
        helper_struct(ctx, rep, T, be, struct, fns, prefixed)
        n4(ctx, rep, T, be, struct, fns, prefixed)
    rep.section(n3, ctx, rep)
    rep.section(n6, ctx, rep)
    rep.section(n7, ctx, rep)
    rep.section(n8, ctx, rep)
    rep.section(n9, ctx, rep)
    rep.section(n5, ctx, rep, T)
    rep.extra['evaluations'] = n_sites


def closure_of(v):
    v = vt.strip(v)
    if isinstance(v, dict) and v.get('k') == 'closure':
        return v
    return None


def helper_struct(ctx, rep, T, be, struct, fns, prefixed):
    """N2c: references to the helper struct of a struct variant == its definition expression."""
    default = ctx.fn('Language::write_types_for_anonymous_structs')
    # what the default passes to the naming closure and how the struct is named
    arg_canon = None
    for c in default['calls']:
        if c.get('f') == 'make_struct_name':
            arg_canon = T.canon_s(c['args'][0]) if c.get('args') else None
    if arg_canon != 'RustEnumVariantShared.id.original':
        rep.fail('N2c', 'default:closure-argument', f'write_types_for_anonymous_structs passes {arg_canon} to the naming closure (expected the variant identifier RustEnumVariantShared.id.original)', {'file': default['file'], 'line': default['line']})
    callers = []
    for f in fns:
        for c in f['calls']:
            if c.get('f') == 'write_types_for_anonymous_structs' and len(c.get('args', [])) >= 3:
                callers.append((f, c))
    if be == 'typescript':
        rep.ok('N2c', f'{be}:no-helper-structs', 'TypeScript inlines struct variants')
        return
    if not callers:
        raise core.Incomplete(f'{be}: call of write_types_for_anonymous_structs not found')
    f, c = callers[0]
    clo = closure_of(c['args'][2])
    if clo is None:
        raise core.Incomplete(f'{be}: naming closure not resolved')
    pname = clo['params'][0]['names'][0]
    param_atom = {'k': 'atom', 'root': 'variant', 'root_ty': 'RustEnumVariantShared', 'path': ['id', 'original']}
    body = emit.subst(clo['body'], {pname: param_atom})
    def_alts = [emit.merge_lits(a) for a in emit.flatten(T, body)]
    if len(def_alts) != 1:
        raise core.Incomplete(f'{be}: helper-struct naming closure has {len(def_alts)} alternatives')
    D = norm_seq(def_alts[0])
    if prefixed:
        D = [('atom', f'{struct}.prefix')] + D
    tail_lit = next((x[1] for x in reversed(D) if x[0] == 'lit'), None)
    refs = 0
    for g in fns:
        if g['name'] == 'write_struct':
            continue
        env = emit.caller_env(fns, g)
        items = [(s['line'], emit.merge_lits(alt)) for s in g['sites'] for alt in emit.flatten(T, emit.subst(s['fmt'], env) if env else s['fmt'])]
        # helper names also travel as call arguments (Python: write_variant_class(.., Some(&inner_name), ..))
        for cc in g['calls']:
            for a in cc.get('args', []):
                if isinstance(a, dict) and cc.get('f') != 'write_types_for_anonymous_structs':
                    for alt in emit.flatten(T, emit.subst(a, env) if env else a):
                        items.append((cc.get('line'), emit.merge_lits(alt)))
        for line, alt in items:
            alt_n = norm_seq(alt)
            for ix, comp in enumerate(alt_n):
                # a reference = any variant-derived name component directly followed by the helper suffix literal
                if comp[0] == 'atom' and comp[1].startswith('RustEnumVariantShared.id.') and ix + 1 < len(alt_n) and alt_n[ix + 1][0] == 'lit' and tail_lit and alt_n[ix + 1][1].startswith(tail_lit):
                    # candidate reference window ending at the tail literal
                    start = ix + 1 - (len(D) - 1)
                    win = alt_n[max(0, start):ix + 1] + [('lit', tail_lit)]
                    refs += 1
                    key = f"{be}:{g['name']}:helper-struct-ref"
                    site = {'file': g['file'], 'line': line}
                    if win == D:
                        rep.ok('N2c', key, 'reference == definition: ' + emit.seq_str([(x[0], x[1], ()) if x[0] == 'atom' else x for x in D]), site)
                    else:
                        rep.fail('N2c', key, f"{be}: helper struct of a struct variant is defined as {show(D)} but referenced as {show(win)} in {g['qual']}", site)
    rep.floor('N2c', f'{be}: helper-struct reference sites', refs, 1)


def show(seq):
    return ' '.join(('{' + x[1] + '}') if x[0] == 'atom' else repr(x[1]) if x[0] == 'lit' else '<' + str(x[1]) + '>' for x in seq)


def norm_seq(seq):
    """Drop name-preserving vias; keep (kind, value)."""
    out = []
    for c in seq:
        if c[0] == 'atom':
            via = tuple(v for v in c[2] if v not in NAME_PRESERVING)
            out.append(('atom', c[1] + ('|' + '>'.join(via) if via else '')))
        elif c[0] in ('lit', 'lit*'):
            if out and out[-1][0] == 'lit':
                out[-1] = ('lit', out[-1][1] + c[1])
            else:
                out.append(('lit', c[1]))
        elif c[0] == 'joined':
            continue
        else:
            out.append((c[0], c[1]))
    return out


def n4(ctx, rep, T, be, struct, fns, prefixed):
    """Generic parameters are never prefixed: prefix guarded by the generic-parameter test; callers pass the item's generics."""
    if not prefixed:
        return
    f = next(f for f in fns if f['name'] == 'format_simple_type')
    txt = vt.show(f['tail'])
    ok = re.search(r'generic_types\.contains\(base\)', txt) is not None
    # the prefix alternative must sit in the else-branch of both tests
    rep.check(ok, 'N4', f'{be}:prefix-guard', 'prefix applied only when the name is neither mapped nor a generic parameter', f'{be}: format_simple_type applies the prefix without testing generic_types.contains(base): {txt[:200]}', {'file': f['file'], 'line': f['line']})
    for g in fns:
        owner_generics = {'write_struct': 'RustStruct.generic_types', 'write_type_alias': 'RustTypeAlias.generic_types'}
        for c in g['calls']:
            if c.get('f') in ('format_type', 'write_element', 'write_field') and c.get('recv') is not None:
                for a in c.get('args', []):
                    a0 = vt.strip(a)
                    if isinstance(a0, dict) and a0.get('k') == 'array' and not a0.get('items') and g['name'] in owner_generics:
                        rep.fail('N4', f"{be}:{g['name']}:{c['f']}:empty-generics", f"{be}: {g['qual']} passes `&[]` as generic context to {c['f']} although the item has generic_types — a generic parameter would be prefixed like a user type", {'file': g['file'], 'line': c.get('line')})


def same_owner(generics_v, types_v):
    """Is `generics_v` the `generic_types` of a value X and does `types_v` derive from that same X (a field, an element of a
    field, a variant payload ...)?  Compared on canonical keys, so local names and or-pattern bindings do not matter."""
    g = vt.unvar(generics_v)
    while isinstance(g, dict) and g.get('k') in ('ref', 'deref', 'paren'):
        g = vt.unvar(g.get('v'))
    bases = []
    if isinstance(g, dict) and g.get('k') == 'atom' and g.get('path') and g['path'][-1] == 'generic_types':
        bases.append(('atom', g.get('root'), tuple(g['path'][:-1])))
    if isinstance(g, dict) and g.get('k') == 'field' and g.get('name') == 'generic_types':
        bases.append(('key', vt.ckey(g.get('base'))))
    if not bases:
        return False
    for x in vt.walk(types_v):
        if x.get('k') == 'atom':
            for b in bases:
                if b[0] == 'atom' and x.get('root') == b[1] and tuple(x.get('path', [])[:len(b[2])]) == b[2]:
                    return True
        for b in bases:
            if b[0] == 'key' and vt.ckey(x) == b[1]:
                return True
    # an or-pattern binding (`let (A(shared) | B { shared, .. }) = e`) is recorded as the payload of the first alternative:
    # compare modulo the variant the payload was taken from
    def loose(v):
        import re as _re
        return _re.sub(r'"variant": "[^"]*"', '"variant": "*"', _re.sub(r'"(field|pos)": "?[A-Za-z0-9_]*"?', '"pos": "*"', vt.ckey(v)))
    for b in bases:
        if b[0] == 'key':
            lb = _loose_base(g.get('base'))
            if lb and any(_loose_base(x) == lb for x in vt.walk(types_v)):
                return True
    return False


def _loose_base(v):
    """Canonical key of `payload-of(X)` ignoring which variant / position the payload was taken from."""
    import re as _re
    v = vt.unvar(v)
    if not isinstance(v, dict):
        return None
    if v.get('k') == 'payload':
        return 'payload-of:' + vt.ckey(v.get('of'))
    return None


def variant_walker(ctx):
    """The function of reconcile.rs that walks the variants of an enum and hands their payload types to check_type — found by
    what it does (a match over RustEnumVariant with check_type calls), whatever it is called.  Second form: a *provider* — a
    function with a match over RustEnumVariant that yields the payload types (`fn variant_types_mut(v) -> impl Iterator`),
    named in reconcile_aliases as the mapper of an adaptor over the variants whose elements go to check_type; it is returned
    with `provider: True` and judged by payload coverage instead of by its check_type calls."""
    from .. import coverage
    inrec = [g for g in ctx.astq['functions'] if g['file'].endswith('reconcile.rs') and coverage.find_matches(g, 'RustEnumVariant')]
    cands = [g for g in inrec if any(c.get('f') == 'check_type' for c in g['calls'])]
    if len(cands) == 1:
        return cands[0]
    if not cands:
        ra = ctx.fn('reconcile_aliases', file='reconcile.rs')
        used = set()
        for c in ra['calls']:
            if c.get('f') != 'check_type':
                continue
            for x in (y for a in c.get('args', []) for y in vt.walk(a)):
                if x.get('k') == 'call' and x.get('f') in ('flat_map', 'map', 'flat_map_mut') and x.get('args'):
                    a0 = vt.unvar(x['args'][0])
                    if isinstance(a0, dict) and a0.get('k') == 'path':
                        used.add(str(a0.get('text', '')).replace(' ', '').split('::')[-1])
                    elif isinstance(a0, dict) and a0.get('k') == 'closure':
                        used |= {str(y.get('f')).split('::')[-1] for y in vt.walk(a0.get('body') or {}) if y.get('k') == 'call' and y.get('recv') is None}
        prov = [g for g in inrec if g['name'].split('::')[-1] in used]
        if len(prov) == 1:
            return dict(prov[0], provider=True)
    raise core.Incomplete(f'reconcile.rs: the function that walks enum variants (match over RustEnumVariant + check_type) expected once, found {len(cands)}')


def id_assigned(fx, full):
    """Some assignment in (the inlined view of) check_type targets the `id` payload of RustType::<full> — bound by a
    match arm, or by an `if let A { id, .. } | B { id } = ty` whose alternatives include the variant."""
    for asg in fx['assigns']:
        t = vt.strip(asg.get('target'))
        while isinstance(t, dict) and t.get('k') in ('deref', 'ref', 'paren'):
            t = vt.strip(t.get('v'))
        if not (isinstance(t, dict) and t.get('k') == 'payload' and t.get('field') == 'id'):
            continue
        if str(t.get('variant', '')).endswith(full) or any(str(d.get('variant', '')).replace(' ', '').endswith(full) and d.get('field') == 'id' for d in t.get('also', []) or []):
            return True
        for fr in asg.get('guard', []):
            c = fr.get('c') if fr.get('k') == 'if' and not fr.get('neg') else None
            if isinstance(c, dict) and c.get('k') == 'iflet' and full in (c.get('variants') or []) and str(t.get('variant', '')) in (c.get('variants') or []):
                return True
            # `A { id, .. } | B { id } => ..` as a match arm: the binding stands for the payload of every alternative
            if fr.get('k') == 'arm' and full in (fr.get('variants') or []) and str(t.get('variant', '')) in (fr.get('variants') or []):
                return True
    return False


def delegated_children(f):
    """Name of the children-iterator method when check_type recurses as `for p in ty.<H>() { check_type(.., p) }` (or the
    adaptor form), unconditionally, on its own RustType parameter."""
    for c in f['calls']:
        if c.get('f') != 'check_type':
            continue
        for a in c.get('args', []):
            v = vt.unvar(a)
            if isinstance(v, dict) and v.get('k') == 'elem':
                of = vt.unvar(v.get('of'))
                while isinstance(of, dict) and of.get('k') == 'call' and of.get('f') in ('iter', 'iter_mut', 'into_iter', 'by_ref') and of.get('recv') is not None:
                    of = vt.unvar(of['recv'])
                if isinstance(of, dict) and of.get('k') == 'call' and isinstance(vt.unvar(of.get('recv')), dict) and vt.unvar(of['recv']).get('root_ty') == 'RustType' and not vt.unvar(of['recv']).get('path'):
                    if not [fr for fr in c.get('guard', []) if fr.get('k') in ('if', 'arm')]:
                        return of.get('f')
    return None


def n3_delegated(ctx, rep, f, fx, helper, rt, site):
    """check_type rewrites the id of the node itself and recurses over `ty.<helper>()`: coverage of every payload is then a
    property of that children iterator (RustType::<helper> and SpecialRustType::<helper>)."""
    from .. import coverage
    for var in rt['variants']:
        if any(fl['name'] == 'id' for fl in var['fields']):
            key = f"check_type:RustType::{var['name']}"
            rep.check(id_assigned(fx, f"RustType::{var['name']}"), 'N3', key + ':id-rewritten', 'id position rewritten', f"reconcile::check_type never rewrites RustType::{var['name']}.id — a reference `{var['name']}` to a serde(rename)d generic type keeps the original name while its definition is renamed", site)
    hs = [g for g in ctx.astq['functions'] if g['name'] == helper and g['file'].endswith('rust_types.rs') and (g.get('self_ty') or '').split('<')[0] == 'SpecialRustType']
    hr = [g for g in ctx.astq['functions'] if g['name'] == helper and g['file'].endswith('rust_types.rs') and (g.get('self_ty') or '').split('<')[0] == 'RustType']
    if len(hs) != 1 or len(hr) != 1:
        raise core.Incomplete(f'check_type delegates to `{helper}` but RustType::{helper} / SpecialRustType::{helper} were not found in rust_types.rs')
    coverage.check_recursion(rep, 'N3', ctx, hs[0], 'SpecialRustType', [], 'check_type', uses_ok=True)
    # RustType::<helper>: Generic yields its parameters, Special delegates to the special type's iterator
    ms = coverage.find_matches(hr[0], 'RustType')
    if not ms:
        raise core.Incomplete(f'RustType::{helper}: match over RustType not found')
    hsite = {'file': hr[0]['file'], 'line': hr[0]['line']}
    for var, need in (('Generic', 'parameters'), ('Special', helper)):
        arms = [a for m in ms for a in m['arms'] if any(v.endswith('::' + var) or f'RustType::{var}' in v for v in a['variants'])]
        ok = bool(arms) and re.search(rf'\b{need}\b', arms[0]['body']) is not None and not arms[0].get('empty')
        rep.check(ok, 'N3', f'check_type:RustType::{var}:children', f'RustType::{helper} yields the children of {var}', f"RustType::{helper} (the children iterator reconcile::check_type recurses over) yields nothing for RustType::{var}: references inside it are never renamed", hsite)


def n3_match(ctx, rep, f, fx, m_rt, rt, sp, site):
    m = m_rt[0]
    for var in rt['variants']:
        id_field = any(fl['name'] == 'id' for fl in var['fields'])
        arms = [a for a in m['arms'] if f"RustType::{var['name']}" in a['variants'] or any(v.startswith(f"RustType::{var['name']}(") for v in a['variants'])]
        key = f"check_type:RustType::{var['name']}"
        if not arms:
            rep.fail('N3', key, f"reconcile::check_type has no arm for RustType::{var['name']}", site)
            continue
        if id_field:
            # an assignment (here or in an expanded local helper) whose target is the `id` payload of this variant
            assigned = id_assigned(fx, f"RustType::{var['name']}")
            bound = assigned
            rep.check(bound and assigned, 'N3', key + ':id-rewritten', 'id position rewritten', f"reconcile::check_type never rewrites RustType::{var['name']}.id — a reference `{var['name']}` to a serde(rename)d generic type keeps the original name while its definition is renamed", site)
    # special payloads: by dataflow — for every type-carrying payload position of every SpecialRustType variant some recursive
    # call, made under an arm that names the variant (nested or-patterns and `RustType::Special(SpecialRustType::X(..))` alike),
    # receives a value derived from that payload
    from .. import coverage
    for var in sp['variants']:
        payload = [fl for fl in var['fields'] if 'RustType' in fl['ty']]
        if not payload:
            continue
        key = f"check_type:SpecialRustType::{var['name']}"
        named = any(re.search(rf"SpecialRustType::{var['name']}\b", v) for mm in f['matches'] for a in mm['arms'] for v in a['variants'])
        if not named:
            rep.fail('N3', key, f"reconcile::check_type does not descend into SpecialRustType::{var['name']} (falls into the catch-all) — references inside it are never renamed", site)
            continue
        got = sum(1 for fl in payload if coverage.flows(ctx, f, 'SpecialRustType', var['name'], fl['name'], ['check_type']))
        rep.check(got >= len(payload), 'N3', key, f'{got} of {len(payload)} payload type(s) handed to the recursion', f"reconcile::check_type recurses into {got} of the {len(payload)} type payload(s) of SpecialRustType::{var['name']}", site)


def n6(ctx, rep):
    """N6 (generic parameters are never renamed): the reference rewriter knows the generic parameters of the item it is
    working on.  (a) check_type has a generic-context parameter and rewrites a `RustType::Simple` id only on a path on which
    the id was tested *not* to be one of them (an earlier guarded arm, or a negated test around the rewrite); (b) every caller
    hands down the generic_types of the very item whose types it passes (consts have none)."""
    f = ctx.fn('check_type', file='reconcile.rs')
    fx = ctx.x(f)
    site = {'file': f['file'], 'line': f['line']}
    gps = [p_['name'] for p_ in f['params'] if (p_.get('ty') or '').replace(' ', '').replace('&', '') in ('[String]', 'Vec<String>')]
    rep.check(bool(gps), 'N6', 'check_type:generic-context', f'generic context parameter {gps}', "reconcile::check_type has no parameter carrying the generic parameters of the enclosing item: a generic parameter that happens to be spelled like a serde(rename)d type (`struct T` renamed, `Wrapper<T>`) is rewritten to that type's name", site)
    if not gps:
        return

    def is_member_test(v):
        v = vt.unvar(v)
        return isinstance(v, dict) and v.get('k') == 'call' and v.get('f') == 'contains' and isinstance(vt.unvar(v.get('recv')), dict) and vt.unvar(v['recv']).get('root') in gps
    guarded_all = True
    n_rewrites = 0
    for asg in fx['assigns']:
        t = vt.strip(asg.get('target'))
        while isinstance(t, dict) and t.get('k') in ('deref', 'ref', 'paren'):
            t = vt.strip(t.get('v'))
        # the `id` of RustType::Simple — also when bound by an or-pattern (`Generic { id, .. } | Simple { id } => *id = …`)
        from .. import coverage
        if not coverage.is_payload_of(t, 'RustType', 'Simple', 'id'):
            continue
        n_rewrites += 1
        ok = False
        for fr in asg.get('guard', []):
            if fr.get('k') == 'if' and fr.get('neg') and is_member_test(fr.get('c')):
                ok = True
            if fr.get('k') == 'if' and not fr.get('neg'):
                c = vt.unvar(fr.get('c'))
                if isinstance(c, dict) and c.get('k') == 'op' and c.get('op') == '!' and c.get('args') and is_member_test(c['args'][0]):
                    ok = True
            if fr.get('k') == 'arm':
                # an earlier arm of the same match takes `Simple { id } if generics.contains(id)` away
                for m in f['matches']:
                    for ix, a in enumerate(m['arms']):
                        if ix < (fr.get('idx') if fr.get('idx') is not None else -1) and any(v.endswith('RustType::Simple') for v in a['variants']) and a.get('guard') is not None and is_member_test(a['guard']) \
                                and not re.search(r'\*\s*id\s*=', a['body']) and vt.ckey(m.get('scrut')) == vt.ckey(fr.get('scrut')):
                            ok = True
                if fr.get('guard') is not None:
                    g = vt.unvar(fr['guard'])
                    if isinstance(g, dict) and g.get('k') == 'op' and g.get('op') == '!' and g.get('args') and is_member_test(g['args'][0]):
                        ok = True
        guarded_all = guarded_all and ok
    rep.check(n_rewrites > 0 and guarded_all, 'N6', 'check_type:generic-parameters-skipped', 'a Simple id is rewritten only when it is not a generic parameter', "reconcile::check_type rewrites a simple type name without first excluding the generic parameters of the enclosing item: `value: T` in `Wrapper<T>` becomes `value: Token` when some type T carries serde(rename = \"Token\")", site)
    # (b) callers
    gix = [p_['name'] for p_ in f['params'] if p_['name'] != 'self'].index(gps[0])
    ra = ctx.fnx('reconcile_aliases', file='reconcile.rs')
    cv = variant_walker(ctx)
    cvname = cv['name'].split('::')[-1]
    cvp = [p_['name'] for p_ in cv['params'] if p_['name'] != 'self']
    cv_g = next((i for i, p_ in enumerate([q for q in cv['params'] if q['name'] != 'self']) if (p_.get('ty') or '').replace(' ', '').replace('&', '') in ('[String]', 'Vec<String>')), None)
    for g, fn_ in ((ra, 'reconcile_aliases'), (cv, 'check_variant')):
        for c in g['calls']:
            if c.get('f') not in ('check_type', cvname):
                continue
            ix = gix if c['f'] == 'check_type' else cv_g
            csite = {'file': g['file'], 'line': c.get('line')}
            if ix is None or ix >= len(c.get('args', [])):
                rep.fail('N6', f"{fn_}:{c['f']}:generic-context-passed", f"{fn_} calls {c['f']} without a generic context", csite)
                continue
            ga = vt.show(vt.strip(c['args'][ix])).replace(' ', '')
            ta = vt.show(vt.strip(c['args'][-1])).replace(' ', '')
            key = f"{fn_}:{c['f']}:{ta[-28:]}"
            if fn_ == 'check_variant':
                okc = ga == cvp[cv_g] if cv_g is not None else False
            elif ga.endswith('.generic_types'):
                okc = same_owner(c['args'][ix], c['args'][-1])
            else:
                okc = ga in ('[]', '&[]') and '.consts)' in ta
            rep.check(okc, 'N6', key + ':generic-context', f'generic context {ga[-50:]}', f"{fn_} passes `{ga[-60:]}` as generic context for the types `{ta[-60:]}` — expected the generic_types of the same item (an empty list only for constants): generic parameters of that item are rewritten like type references", csite)


def n7(ctx, rep):
    """N7: the rename table (original name → {crate → serde name}) accumulates per original name: two crates may each define a
    renamed type under the same Rust identifier, and references in both must be rewritten.  On the resolved program: every entry of
    the outer map is made through the `entry` API; nothing builds or overwrites the outer map wholesale (`collect` / `from_iter` /
    `insert` / `extend` into a map of maps replace the inner map of an existing key)."""
    from .. import cg
    prog = cg.Program(ctx.mirq('all'))
    roots = [k for k in prog.find('collect_serde_renames', crate='typeshare_core') if prog.bodies[k]['kind'] == 'fn']
    if len(roots) != 1:
        raise core.Incomplete('N7: collect_serde_renames not found in MIR')
    reg = [k for k in prog.region([roots[0]], stop=()) if prog.bodies[k]['file'].endswith('reconcile.rs')]
    outer = re.compile(r'HashMap<std::string::String, std::collections::HashMap<')
    entries, wholesale = [], []
    for k in reg:
        b = prog.bodies[k]
        for c in b['calls']:
            self_ty = (c.get('arg_tys') or [''])[0]
            dest_ty = b['locals'].get(str(c.get('dest') or '').split(' ')[0], '')
            name = c['callee'].split('::')[-1]
            if name == 'entry' and outer.search(self_ty):
                entries.append(c)
            elif name in ('insert', 'extend', 'extend_one') and outer.search(self_ty):
                wholesale.append((b, c))
            elif name in ('collect', 'from_iter', 'from') and outer.search(dest_ty) and not outer.search(self_ty):
                wholesale.append((b, c))
    site = {'file': prog.bodies[roots[0]]['file'], 'line': prog.bodies[roots[0]]['line']}
    ok = bool(entries) and not wholesale
    w0 = wholesale[0] if wholesale else None
    rep.check(ok, 'N7', 'rename-table:accumulates-per-name', f'{len(entries)} entry() site(s), no wholesale construction of the outer map', ("collect_serde_renames builds the rename table with `" + (re.sub(r'\s+', '', w0[1]['snippet'])[:60] if w0 else '?') + "` — a map of maps made this way keeps ONE inner map per original name, so when two crates each rename a type with the same Rust identifier only one crate's rename survives: the other crate's references keep the original name while its definition is emitted under the serde name") if wholesale else 'collect_serde_renames never goes through the entry API of the rename table: entries of the same original name from different crates are not merged', {'file': w0[1]['file'], 'line': w0[1]['line']} if w0 else site)


def n8(ctx, rep):
    """N8 (the new name comes from the crate the reference names): the per-name rename table maps *crate* → serde name.  The
    resolver may only address it by key, and only with a crate the reference can mean: the crate of an import of that type name
    (`import.base_crate`) or the referencing crate itself.  Enumerating the inner map (`values()`, `iter()`, a `for` over it) picks
    the rename of some other crate: a same-named, un-renamed local or third-crate type is then rewritten to a foreign serde name —
    the definition keeps its name, the reference (and its missing import) does not."""
    # the table: a parameter of type RenamedTypes, or a field of that type of the struct the resolver is a method of
    tfields = {fl['name'] for it in ctx.astq['items'] if it['kind'] == 'struct' and it['file'].endswith('reconcile.rs') for fl in it.get('fields', []) if 'RenamedTypes' in str(fl.get('ty') or '') or 'HashMap<String,HashMap<' in str(fl.get('ty') or '').replace(' ', '')}

    def is_table_ty(t):
        t = str(t or '').replace(' ', '')
        return 'RenamedTypes' in t or 'HashMap<String,HashMap<' in t

    def is_table(r, g):
        r = vt.strip(r)
        if not (isinstance(r, dict) and r.get('k') == 'atom'):
            return False
        if not r.get('path'):
            return any(p_['name'] == r.get('root') and is_table_ty(p_.get('ty')) for p_ in g['params'])
        return r.get('root') == 'self' and len(r['path']) == 1 and r['path'][0] in tfields
    cands = []
    for g in ctx.fns(file='reconcile.rs'):
        rt = str(g.get('ret') or '').replace(' ', '')
        if not (rt.startswith('Option<') and ('String' in rt or 'str' in rt)):
            continue
        if any(c.get('f') in ('get', 'get_mut') and c.get('recv') is not None and is_table(c['recv'], g) for c in g['calls']):
            cands.append(g)
    if len(cands) != 1:
        raise core.Incomplete(f"N8: the rename resolver (looks a name up in the rename table, returns Option<String>) expected once in reconcile.rs, found {[g['name'] for g in cands]}")
    f = ctx.x(cands[0])
    site = {'file': f['file'], 'line': f['line']}
    cparams = {p_['name'] for p_ in f['params'] if str(p_.get('ty') or '').replace('&', '').strip() == 'CrateName'}

    def is_inner(v):
        """the inner map: a value obtained from the table by key (`table.get(id)?`, `table[id]`, `if let Some(m) = table.get(id)`)"""
        v = vt.unvar(v)
        d = 0
        while isinstance(v, dict) and d < 12:
            d += 1
            if v.get('k') in ('try', 'ref', 'deref', 'paren'):
                v = vt.unvar(v.get('v'))
            elif v.get('k') == 'payload':
                v = vt.unvar(v.get('of'))
            elif v.get('k') == 'call' and v.get('f') in ('unwrap', 'expect', 'unwrap_or_default', 'cloned', 'copied', 'as_ref') and v.get('recv') is not None:
                v = vt.unvar(v['recv'])
            else:
                break
        if isinstance(v, dict) and v.get('k') == 'call' and v.get('f') in ('get', 'get_mut') and v.get('recv') is not None:
            r = vt.strip(v['recv'])
            return is_table(v['recv'], f)
        if isinstance(v, dict) and v.get('k') == 'index':
            return is_table(v.get('base'), f)
        return False
    ENUM = ('values', 'values_mut', 'iter', 'iter_mut', 'into_iter', 'into_values', 'keys', 'into_keys', 'drain')
    n = 0
    for c in f['calls']:
        if c.get('recv') is None or not is_inner(c['recv']):
            continue
        n += 1
        nm = c.get('f')
        if nm in ENUM:
            rep.fail('N8', f'resolver:{nm}-over-crates', f"{f['qual']} enumerates the per-name rename map (`{vt.show(c['recv'])[:40]}.{nm}()`): the serde name of whichever crate happens to rename a type of this name is used, although the reference names neither that crate nor imports from it — a same-named un-renamed type of the referencing (or a third) crate is rewritten to a foreign name", {'file': f['file'], 'line': c.get('line')})
        elif nm in ('get', 'get_key_value', 'contains_key'):
            key = c['args'][0] if c.get('args') else None
            ks = [x for x in vt.walk(key)] if key is not None else []
            ok = any(isinstance(x, dict) and x.get('k') == 'atom' and ((x.get('root') in cparams and not x.get('path')) or (x.get('root') == 'self' and (x.get('path') or [None])[-1] == 'crate_name')) for x in ks) or any(isinstance(x, dict) and x.get('k') == 'field' and x.get('name') == 'base_crate' for x in ks) \
                or any(isinstance(x, dict) and x.get('k') == 'atom' and (x.get('path') or [None])[-1] == 'base_crate' for x in ks)
            if not ok:
                # the key is an element of a local collection that is filled, in this function, with nothing but `<import>.base_crate`
                names = {str(x.get('name')) for x in ks if isinstance(x, dict) and x.get('k') == 'var' and x.get('name')}
                fills = [c2 for c2 in f['calls'] if c2.get('f') in ('insert', 'push') and c2.get('recv') is not None and isinstance(vt.unvar(c2['recv']), dict)
                         and (str((c2['recv'] if isinstance(c2['recv'], dict) else {}).get('name')) in names or str(c2.get('recv_text') or '').replace(' ', '').lstrip('&').replace('mut', '') in names)]
                ok = bool(fills) and all(any(isinstance(y, dict) and ((y.get('k') == 'field' and y.get('name') == 'base_crate') or (y.get('k') == 'atom' and (y.get('path') or [None])[-1] == 'base_crate')) for a_ in c2.get('args', []) for y in vt.walk(a_)) for c2 in fills)
            rep.check(ok, 'N8', f"resolver:key:{vt.show(key)[-40:].replace(' ', '')}", 'addressed by the importing crate or the current crate', f"{f['qual']} looks the new name up under `{vt.show(key)[:60]}` — neither the crate of an import of this type name nor the referencing crate", {'file': f['file'], 'line': c.get('line')})
    for lp in f.get('loops', []):
        pass
    for c in f['calls']:
        for fr in c.get('guard', []):
            if fr.get('k') == 'for' and fr.get('over') is not None and is_inner(fr['over']):
                rep.fail('N8', 'resolver:for-over-crates', f"{f['qual']} loops over the per-name rename map: the rename of a crate the reference does not name can be chosen", {'file': f['file'], 'line': fr.get('line')})
                break
    rep.floor('N8', 'uses of the per-name rename map in the resolver', n, 2)


def n9(ctx, rep):
    """N9 (siblings agree on glob imports): the visitor records `use other::*` as an import whose type name is the marker "*".
    Every function that picks imports by comparing `type_name` with the name of a referenced type is a consumer of that set; a
    consumer that never looks at the marker treats a crate imported by glob as not imported at all.  The consumers are
    enumerated from the code; each must also test `type_name == "*"` (in its inlined body).  For the rename resolver the
    consequence is a reference left under its Rust name while the definition (and the import line) use the serde name."""
    def sides(x):
        a = [vt.unvar(y) for y in x.get('args', [])]
        if len(a) != 2:
            return None, None
        def is_tn(y):
            y = vt.strip(y)
            return isinstance(y, dict) and ((y.get('k') == 'field' and y.get('name') == 'type_name') or (y.get('k') == 'atom' and (y.get('path') or [None])[-1] == 'type_name'))
        if is_tn(a[0]):
            return a[0], a[1]
        if is_tn(a[1]):
            return a[1], a[0]
        return None, None
    def every(n, d=0):
        if d > 80:
            return
        if isinstance(n, list):
            for y in n:
                yield from every(y, d + 1)
        elif isinstance(n, dict):
            yield n
            for k_, y in n.items():
                if k_ not in ('guard', 'ty') and isinstance(y, (dict, list)):
                    yield from every(y, d + 1)

    def is_star_const(o, file):
        # an associated constant (`Self::WILDCARD`) is not evaluated by astq: its declaration is read from the file
        o = vt.unvar(o)
        if not (isinstance(o, dict) and o.get('k') == 'path' and file):
            return False
        nm = str(o.get('text', '')).replace(' ', '').split('::')[-1]
        if not re.fullmatch(r'[A-Z][A-Z0-9_]*', nm):
            return False
        try:
            src = open(os.path.join(ctx.repo, file)).read()
        except OSError:
            return False
        return re.search(r'\bconst\s+' + nm + r'\s*:\s*[^=;]+=\s*"\*"\s*;', src) is not None

    def clauses(G):
        """(comparisons of type_name with a name, comparisons with the glob marker) written in the facts G"""
        blobs = [c for c in G['calls']] + [l.get('v') for l in G.get('lets', [])] + [G.get('tail')] + [r.get('v') for r in G.get('returns', [])] \
            + [fr.get('c') for c in G['calls'] for fr in c.get('guard', []) if fr.get('k') == 'if'] + [fr.get('guard') for c in G['calls'] for fr in c.get('guard', []) if fr.get('k') == 'arm' and fr.get('guard') is not None] \
            + [a.get('guard') for m in G.get('matches', []) for a in m.get('arms', []) if a.get('guard') is not None] + [l.get('over') for l in G.get('loops', [])]
        names, globs = [], []
        for x in every(blobs):
            if isinstance(x, dict) and x.get('k') == 'op' and x.get('op') in ('==', '!='):
                tn, other = sides(x)
                if tn is None:
                    continue
                if any(y.get('k') == 'lit' and y.get('v') == '*' for y in every(other)) or is_star_const(other, G.get('file')):
                    globs.append(x)           # the marker itself, or a constant holding it
                elif not (isinstance(vt.strip(other), dict) and vt.strip(other).get('k') == 'lit'):
                    names.append(x)
        return names, globs
    cands = [g for g in ctx.astq['functions'] if g['file'].startswith('core/src/') and '#[test]' not in ' '.join(g.get('attrs', [])) and 'test' not in str(g.get('mod') or '') and not g.get('nested_in')]
    views = {g['qual'] + '@' + g['file']: ctx.x(g) for g in cands}
    consumers = []
    for g in cands:
        names, _ = clauses(g)
        if not names:
            continue
        nm = g['name'].split('::')[-1]
        # the glob clause may sit in the consumer itself, in a helper it calls, or in the caller that hands it the import set
        aware = bool(clauses(views[g['qual'] + '@' + g['file']])[1]) or any(bool(clauses(V)[1]) for k_, V in views.items() if any(str(q).split('::')[-1] == nm for q in V.get('inlined', [])))
        consumers.append((g, aware))
    rep.floor('N9', 'consumers of the import set that select by type name', len(consumers), 2)
    for g, aware in consumers:
        rep.check(aware, 'N9', f"{g['file'].split('/')[-1]}:glob-imports-consulted", 'also tests the glob marker "*"',
                  f"{g['qual']} selects imports with `type_name == <name>` only and never looks at the glob marker \"*\" the visitor records for `use other::*` (its siblings do): a type reached through a glob import counts as not imported — "
                  'for the rename resolver: the reference keeps its Rust name while the definition and the import line carry the serde name', {'file': g['file'], 'line': g['line']})


def n3(ctx, rep):
    """Reference rewriter coverage."""
    f = ctx.fn('check_type', file='reconcile.rs')
    fx = ctx.x(f)
    site = {'file': f['file'], 'line': f['line']}
    rt = ctx.item('enum', 'RustType')
    sp = ctx.item('enum', 'SpecialRustType')
    m_rt = [m for m in f['matches'] if any(v.startswith('RustType::') for a in m['arms'] for v in a['variants'])]
    deleg = delegated_children(f)
    if not m_rt and not deleg:
        raise core.Incomplete('check_type: neither a match over RustType nor a loop over a children iterator of the type found')
    if deleg:
        # an unconditional `for p in ty.<children>() { check_type(.., p) }`: payload coverage is the iterator's business, whether
        # or not a match (for the id rewriting) stands next to the loop
        n3_delegated(ctx, rep, f, fx, deleg, rt, site)
    else:
        n3_match(ctx, rep, f, fx, m_rt, rt, sp, site)
    # every type-bearing field of every item kind is passed to check_type
    ra = ctx.fnx('reconcile_aliases', file='reconcile.rs')
    cv = variant_walker(ctx)
    cvname = cv['name'].split('::')[-1]
    # the rewriter runs for every crate and every item: only loops may enclose it, never a condition
    for c in ra['calls']:
        if c.get('f') in ('check_type', cvname):
            conds = [fr for fr in c['guard'] if fr.get('k') == 'if']   # arms over RustEnum are the dispatch, not a condition
            rep.check(not conds, 'N3', f"reconcile_aliases:{c['f']}:unconditional:{vt.show(c['args'][-1])[-24:] if c.get('args') else ''}", 'applied to every crate/item', f"reconcile_aliases applies {c['f']} only under `{('!' if conds and conds[0].get('neg') else '') + (vt.show(conds[0].get('c'))[:80] if conds else '')}`: references in the crates/items excluded by that test keep the original name of a serde(rename)d type while its definition is renamed (e.g. a crate that imports a renamed type but renames nothing itself)", {'file': ra['file'], 'line': c.get('line')})
    texts = [json.dumps(c.get('args', [])) for c in ra['calls'] + cv['calls'] if c.get('f') == 'check_type']
    needed = {'struct fields': '"structs"', 'alias targets': '"aliases"', 'const types': '"consts"'}
    for what, needle in needed.items():
        ok = any(needle in t for t in texts)
        rep.check(ok, 'N3', f'reconcile_aliases:{what}', 'passed to check_type', f'reconcile_aliases never applies check_type to {what}: references from there to a serde(rename)d type keep the original name', {'file': ra['file'], 'line': ra['line']})
    ok = any(c.get('f') == cvname for c in ra['calls'])
    if cv.get('provider'):
        # the variants' types come out of the provider and every one of them is handed to check_type in reconcile_aliases
        ok = any(c.get('f') == 'check_type' and any(str(vt.unvar(x.get('args', [{}])[0] if x.get('args') else {}).get('text', '')).replace(' ', '').split('::')[-1] == cvname or any((y.get('k') == 'call' and str(y.get('f')).split('::')[-1] == cvname) or (y.get('k') == 'var' and y.get('inlined') == cvname) for y in vt.walk(x)) for a in c.get('args', []) for x in vt.walk(a) if x.get('k') == 'call' and x.get('f') in ('flat_map', 'map')) for c in ra['calls'])
    rep.check(ok, 'N3', 'reconcile_aliases:enum variants', 'check_variant called', 'reconcile_aliases does not visit enum variants', {'file': ra['file'], 'line': ra['line']})
    if cv.get('provider'):
        from .. import coverage
        coverage.check_recursion(rep, 'N3', ctx, ctx.fn(cv['name'], file='reconcile.rs'), 'RustEnumVariant', [], 'check_variant', needle='RustType|RustField', uses_ok=True)
        return
    ev = ctx.item('enum', 'RustEnumVariant')
    mv = [mm for mm in cv['matches'] if any(v.startswith('RustEnumVariant::') for a in mm['arms'] for v in a['variants'])]
    if not mv:
        raise core.Incomplete('check_variant: match not found')
    for var in ev['variants']:
        tyf = [fl for fl in var['fields'] if 'RustType' in fl['ty'] or 'RustField' in fl['ty']]
        if not tyf:
            continue
        arms = [a for a in mv[0]['arms'] if f"RustEnumVariant::{var['name']}" in a['variants']]
        rec = [c for a in arms for c in a['calls'] if c.get('f') == 'check_type']
        rep.check(bool(rec), 'N3', f"check_variant:RustEnumVariant::{var['name']}", 'payload types rewritten', f"check_variant does not rewrite the types of RustEnumVariant::{var['name']}", {'file': cv['file'], 'line': cv['line']})


def n5(ctx, rep, T):
    """Type-level ids are built from the item's own ident/attrs with no container rename rule."""
    n = 0
    # inlined views; a private builder (`type_alias_item(ident, attrs, ..)`) is judged where it is expanded, with the caller's
    # arguments in place of its parameters
    views = [inline.view(ctx, g) for g in ctx.fns(file='parser.rs')]
    expanded = {q for v_ in views for q in v_.get('inlined', [])}
    for f in [v_ for v_ in views if v_['qual'] not in expanded]:
        for st in f['structs']:
            if st['path'].split('::')[-1] in ('RustStruct', 'RustTypeAlias', 'RustEnumShared', 'RustConst'):
                idv = vt.strip(st['v']['fields'].get('id'))
                n += 1
                key = f"{f['name']}:{st['path'].split('::')[-1]}:id"
                site = {'file': f['file'], 'line': st['line']}
                if not (isinstance(idv, dict) and idv.get('k') == 'call' and idv.get('f') == 'get_ident' and len(idv.get('args', [])) == 3):
                    rep.fail('N5', key, f"type-level id is not produced by get_ident(ident, attrs, rule): {vt.show(idv)[:120]}", site)
                    continue
                a0, a1, a2 = idv['args']
                r = vt.strip(a2)
                rule_none = isinstance(r, dict) and r.get('k') == 'none'
                item_param = f['params'][0]['name'] if f['params'] else '?'
                own = all(any(a.get('root') == item_param for a in vt.atoms(x)) for x in (a0, a1))
                if not rule_none:
                    rep.fail('N5', key, f"{f['name']}: the type's own name is computed with a rename_all rule ({vt.show(a2)[:80]}); serde never applies a container's rename_all to the container name, and references are not rewritten for it", site)
                elif not own:
                    rep.fail('N5', key, f"{f['name']}: type-level id not derived from the item's own ident/attrs: {vt.show(idv)[:120]}", site)
                else:
                    rep.ok('N5', key, 'get_ident(item.ident, item.attrs, None)', site)
    # counted in (parser function, IR type) pairs — struct, struct-as-alias, alias, enum, const; how many literals a parser writes
    # for one of them (one per arm, or one after a shape helper) is not the rule's business
    kinds = {o['key'] for o in rep.obligations if o.get('rule') == 'N5'}
    rep.floor('N5', 'type-level id construction sites (parser function × IR type)', len(kinds), 5)
