"""C08 — unsupported constructs are rejected with an error, never silently mis-generated.

Decided: (R1) no error of the recursive type parser is dropped: the result of every RustType producer call
(try_from / parse::<RustType> / from_str) reaches a `?` (directly, or as the tail of a closure whose iterator is
collected into a Result that reaches a `?`), and no Result-discarding adaptor consumes such results;
(R2) the four 64-bit/pointer-width names and non-empty tuples return Err; (R3) every documented rejection is
constructed and its test dominates the construction of the accepted IR value; the unit/algebraic decision is taken
on the filtered, parsed variants; (R4) both RustField construction sites run the same per-field checks;
(W1) only three functions create or write files; (W2) check_parse_errors dominates write_generated, its result
reaches a `?`, it inspects every crate's error list and its failure flag is monotone; (W3) the error lists are
never cleared or filtered on the way."""
import json
import os
import re

from .. import cg, core, parser_rules as pr, vt

PRODUCER = re.compile(r'RustType as std::convert::TryFrom<&syn::Type>>::try_from$|RustType as std::str::FromStr>::from_str$')
WRITE_API = re.compile(r'std::fs::write$|fs::File::create$|File::create_new$|OpenOptions::open$|fs::create_dir_all$|fs::create_dir$|fs::remove_file$|fs::remove_dir|fs::rename$|fs::copy$|File::set_len$|fs::hard_link$|OpenOptions::(append|truncate|create|create_new|write)$')
ALLOWED_WRITERS = {'writer::check_write_file', 'language::swift::Swift::write_codable_file', 'config::store_config'}   # the first one is replaced at run time by the writer found by role (wiring.output_writer)


def nows(x):
    return re.sub(r'\s+', '', x or '')


def is_producer(c):
    if PRODUCER.search(c['callee']):
        return True
    return c['callee'].endswith('str::<impl str>::parse') and 'RustType' in c['fn_ty'].split('parse::<')[-1][:60]


def moved_set(body, start):
    """Locals that (transitively) receive the value of `start` through plain moves/copies/Option::Some wraps."""
    s = {start}
    changed = True
    pat = re.compile(r'^(_\d+) = (?:move |copy )?(_\d+)$')
    some = re.compile(r'^(_\d+) = (?:std::option::)?Option::<[^=]*>::Some\((?:move |copy )?(_\d+)\)$')
    while changed:
        changed = False
        for blk in body['blocks']:
            for st in blk['stmts']:
                m = pat.match(st) or some.match(st)
                if m and m.group(2) in s and m.group(1) not in s:
                    s.add(m.group(1))
                    changed = True
    return s


def reaches_try(body, dest):
    s = moved_set(body, dest)
    for c in body['calls']:
        if c['callee'].endswith('Try>::branch') or c['callee'].endswith('ops::Try::branch'):
            if any(re.search(rf'\b(move|copy) {x}\b', a) for a in c['args'] for x in s):
                return 'try'
    if '_0' in s:
        return 'returned'
    return None


def run(ctx, rep):
    rep.explanation = ('Rejection discipline decided on the resolved program: def-use of every type-parser Result up to a `?` (MIR moves), dominance of each documented '
                       'rejection\'s test over the construction of the accepted IR value (MIR dominators over aggregate statements), sibling agreement of the two field '
                       'builders, and — in the CLI — a who-may-write whitelist plus dominance of check_parse_errors (whose result must reach a `?`) over write_generated.')
    rep.not_decided = 'that the set of constructs typeshare documents as unsupported is itself complete.'
    rep.trusted = ['rustc MIR (moves, dominators, resolved callees)', 'syn / astq for guard shapes']
    prog = cg.Program(ctx.mirq('all'))
    # R0: the look-ups the rejections (and the skip that lifts them) read must see every attribute of the node
    rep.section(pr.all_attrs_rule, ctx, rep, 'R0', ('serde_flatten', 'get_tag_key', 'get_content_key', 'get_serialized_as_type', 'is_skipped'), 7, keys=('flatten', 'tag', 'content', 'serialized_as', 'skip'))
    rep.section(r1, ctx, rep, prog)
    rep.section(r2, ctx, rep)
    rep.section(r2_never_constructed, ctx, rep, prog)
    rep.section(r6_const_value, ctx, rep, prog)
    rep.section(r3, ctx, rep, prog)
    rep.section(r4, ctx, rep)
    rep.section(w_merge, ctx, rep)
    rep.section(w, ctx, rep, prog)


def r1(ctx, rep, prog):
    n = 0
    for k, b in sorted(prog.bodies.items()):
        if prog.crate_of[k] != 'typeshare_core' or b.get('derived'):
            continue
        for c in b['calls']:
            if not is_producer(c):
                continue
            n += 1
            root = prog.bodies.get(b.get('root')) if b.get('root') else b
            key = f"{root['id']}:{nows(c['snippet'])[:60]}"
            site = {'file': c['file'], 'line': c['line']}
            how = reaches_try(b, c['dest'].split(' ')[0] if c.get('dest') else '')
            if how == 'try':
                rep.ok('R1', key, 'result consumed by `?`', site)
                continue
            if how == 'returned':
                if b['kind'] != 'closure':
                    rep.ok('R1', key, 'result returned to the caller unchanged', site)
                    continue
                # closure tail: the enclosing chain must be collected into a Result that reaches `?`
                parent = prog.bodies.get(b.get('parent'))
                ok = False
                if parent is not None:
                    tag = f":{b['line']}:"
                    for pc in parent['calls']:
                        if pc['callee'].split('::')[-1] in ('collect', 'try_collect', 'from_iter') and any(tag in t for t in pc.get('arg_tys', [])):
                            dty = parent['locals'].get(pc.get('dest', ''), '')
                            if 'Result<' in dty and reaches_try(parent, pc['dest']):
                                ok = True
                rep.check(ok, 'R1', key, 'closure result collected into a Result that reaches `?`', f"the Result of `{nows(c['snippet'])[:60]}` is produced in a closure of {root['id']} whose iterator is not collected into a Result consumed by `?` — a rejection (u64, tuple, …) nested in a generic argument is dropped and the type is emitted anyway", site)
                continue
            rep.fail('R1', key, f"the Result of `{nows(c['snippet'])[:60]}` in {root['id']} neither reaches a `?` nor is returned: a type-parser rejection can be ignored", site)
    rep.floor('R1', 'type-parser producer calls', n, 8)
    # discarding adaptors over producer results (astq view)
    DISCARD = {'flatten', 'ok', 'unwrap_or', 'unwrap_or_default', 'unwrap_or_else', 'is_ok', 'is_err', 'filter_map', 'flat_map', 'find_map', 'map_while'}
    for f in ctx.astq['functions']:
        if not f['file'].endswith(('rust_types.rs', 'parser.rs')):
            continue
        for c in f['calls']:
            if c.get('f') in DISCARD and isinstance(c.get('recv'), dict):
                inner = [x for x in vt.walk(c['recv']) if x.get('k') == 'call' and ((str(x.get('f', '')).endswith('try_from') and f['file'].endswith('rust_types.rs')) or str(x.get('f', '')) == 'RustType::try_from' or (x.get('f') == 'parse' and not x.get('args') and isinstance(x.get('recv'), dict) and (x['recv'].get('ty') in ('str', 'String'))))]
                direct = [x for x in inner]
                if c['f'] in ('filter_map', 'flat_map', 'find_map', 'map_while'):
                    # only a problem when the closure passes Results through `.ok()`-like conversion: the element type of the receiver must be a Result of the parser
                    continue
                if direct:
                    wrapped = any(x.get('k') == 'try' and any(y is d for y in vt.walk(x) for d in direct) for x in vt.walk(c['recv']))
                    if not wrapped:
                        rep.fail('R1', f"{f['name']}:{c['f']}:discards-rejections", f"{f['qual']}: `{c['f']}` consumes the Results of the type parser (`{vt.show(direct[0])[:50]}`) and silently drops the Err items — an unsupported type in that position is accepted and emitted without its arguments", {'file': f['file'], 'line': c.get('line')})


def r2(ctx, rep):
    f = [x for x in ctx.fns(file='rust_types.rs', name='try_from')][0]
    # asked of the inlined, specialised parser (vlib/typeparser.py): every outcome for a path named u64/i64/usize/isize is an
    # error — whether the dispatch is a match arm, a constant table or an early return
    from .. import typeparser as tp
    for name in ('u64', 'i64', 'usize', 'isize'):
        outs = tp.outcomes_for(ctx, name)
        if not outs:
            # the evaluator finds no outcome at all for this name: the dispatch is written in a form it cannot follow — that is a
            # limit of the evaluator, not an accepted type
            raise core.Incomplete(f"R2: no outcome of the type parser could be derived for a path named `{name}` (the dispatch of RustType::try_from is written in a form the evaluator does not follow)")
        acc = [o for o in outs if not tp.is_err(o)]
        rep.check(bool(outs) and not acc, 'R2', f'try_from:{name}', 'rejected', f"RustType::try_from no longer rejects `{name}` (documented as unsupported: not representable in every target): it yields `{vt.show(acc[0])[:70] if acc else 'nothing'}`", {'file': f['file'], 'line': f['line']})
    top = [m for m in f['matches'] if any('Type::Tuple' in v for a in m['arms'] for v in a['variants'])]
    arms = [a for a in top[0]['arms'] if any('Type::Tuple' in v for v in a['variants'])] if top else []
    # every arm over Type::Tuple either rejects, or is the empty tuple `()` (a guard testing that there are no elements)
    def empty_test(g):
        g = vt.unvar(g)
        if not isinstance(g, dict):
            return False
        if g.get('k') == 'call' and g.get('f') == 'is_empty' and 'elems' in vt.show(g.get('recv')):
            return True
        if g.get('k') == 'op' and g.get('op') == '==' and len(g.get('args', [])) == 2:
            sides = [vt.show(vt.strip(x)) for x in g['args']]
            return any('elems' in x and ('len()' in x or 'count()' in x) for x in sides) and any(x.strip("'") == '0' for x in sides)
        return False
    def rejects(a):
        # `return Err(..)` inside an `Ok(match ..)`, or the arm's value is itself `Err(..)`
        return (a.get('diverges') and 'Err' in a['body']) or tp.is_err(a.get('value'))
    accepting = [a for a in arms if not rejects(a)]
    bad = [a for a in accepting if not (a.get('guard') is not None and empty_test(a['guard']) and 'Unit' in a['body'])]
    rejecting = [a for a in arms if rejects(a) and a.get('guard') is None]
    ok = bool(rejecting) and not bad
    rep.check(ok, 'R2', 'try_from:tuple', '() accepted, other tuples rejected', 'RustType::try_from: ' + (f"a tuple type is accepted by the arm `{bad[0]['pat'][:40]}{' if ' + vt.show(bad[0]['guard'])[:50] if bad[0].get('guard') else ''}` — only the empty tuple `()` is supported, every other tuple (including `(T,)`) must be rejected" if bad else 'non-empty tuples are no longer rejected'), {'file': f['file'], 'line': (bad[0]['line'] if bad else f['line'])})


def r2_never_constructed(ctx, rep, prog):
    """R2 (who may construct): the IR variants that stand for the unsupported 64-bit / pointer-width integers exist only so that
    back ends can name them in error messages; no hand-written code of the workspace constructs one (every route from Rust
    syntax or from a `serialized_as` string to the IR therefore rejects those types).  Positive control: the rule sees the
    construction of the supported scalar variants."""
    banned = ('U64', 'I64', 'USize', 'ISize')
    seen_ok = 0
    for k, b in prog.bodies.items():
        if b.get('derived'):
            continue
        for a in b['aggregates']:
            if not a['adt'].endswith('rust_types::SpecialRustType'):
                continue
            if a['variant'] in banned:
                rep.fail('R2', f"never-constructed:{a['variant']}:{b['id'].split('::')[-1]}", f"{b['id']} constructs SpecialRustType::{a['variant']} (`{a.get('snippet', '')[:60]}`): a 64-bit / pointer-width integer type reaches the IR instead of being rejected — back ends other than TypeScript then emit it (Long, UInt64, uint64 …)", {'file': a['file'], 'line': a['line']})
            else:
                seen_ok += 1
    if seen_ok < 10:
        raise core.Incomplete(f'R2: only {seen_ok} constructions of SpecialRustType variants seen (positive control: the supported scalars are constructed in the type parser)')
    rep.ok('R2', 'never-constructed:64-bit-variants', f'no hand-written body constructs SpecialRustType::{{U64,I64,USize,ISize}} ({seen_ok} constructions of other variants seen)')


def r6_const_value(ctx, rep, prog):
    """R6 (non-integer-literal constants are rejected): the value of a constant is decided on the initialiser expression
    *itself*: parse_const_expr dispatches on its argument, accepts only literal / negation / parenthesis shapes, sends every
    other expression shape to an Err, and does not search the expression tree for a literal (no syn::visit traversal) —
    `1 + 2`, `4 * KB`, `OTHER` must not be reduced to the first literal found inside."""
    f = ctx.fn('parse_const_expr', file='parser.rs')
    site = {'file': f['file'], 'line': f['line']}
    ks = [k for k in prog.find('parse_const_expr', crate='typeshare_core') if prog.bodies[k]['kind'] == 'fn']
    if len(ks) != 1:
        raise core.Incomplete('parse_const_expr not found in MIR')
    region = prog.region(ks)
    walkers = sorted({c['callee'] for k in region for c in prog.bodies[k]['calls'] if re.search(r'syn::visit(_mut)?::|syn::gen::visit', c['callee'])} |
                     {prog.bodies[k]['id'] for k in region if 'syn::visit::Visit' in (prog.bodies[k].get('trait_item') or '') or ' as syn::visit::Visit' in prog.bodies[k]['id']})
    rep.check(not walkers, 'R6', 'const-value:no-tree-search', 'the initialiser is not searched for a literal', f"parse_const_expr walks the initialiser expression ({walkers[:2]}): a constant such as `1 + 2`, `4 * 1024` or `-5` is reduced to the first literal inside it and emitted with a wrong value instead of being rejected", site)
    param = f['params'][0]['name']
    ms = [m for m in f['matches'] if isinstance(vt.unvar(m.get('scrut')), dict) and vt.unvar(m['scrut']).get('k') == 'atom' and vt.unvar(m['scrut']).get('root') == param]
    if not ms:
        if walkers:
            return
        raise core.Incomplete('parse_const_expr: dispatch on the initialiser expression not found')
    allowed = ('Expr::Lit', 'Expr::Unary', 'Expr::Paren', 'Expr::Group')
    wild = [a for a in ms[0]['arms'] if a['variants'] == ['_']]
    rep.check(bool(wild) and all(re.match(r'\s*(return\s+)?Err\b', a['body'].strip('{} ')) for a in wild), 'R6', 'const-value:other-shapes-rejected', 'every other expression shape is an error', 'parse_const_expr: expression shapes without an arm of their own are not rejected', site)
    for a in ms[0]['arms']:
        if a['variants'] == ['_'] or re.match(r'\s*(return\s+)?Err\b', a['body'].strip('{} ')):
            continue
        bad = [v for v in a['variants'] if not v.startswith(allowed)]
        rep.check(not bad, 'R6', f"const-value:accepting-arm:{'|'.join(v.split('(')[0] for v in a['variants'])}", 'literal / negation / parenthesis', f"parse_const_expr accepts the expression shape(s) {bad}: only an integer literal (optionally negated or parenthesised) is a supported constant value", {'file': f['file'], 'line': a['line']})


def agg(body, adt_suffix, variant):
    return [a for a in body['aggregates'] if a['adt'].endswith(adt_suffix) and a['variant'] == variant]


def r3(ctx, rep, prog):
    def body_of(name, closure_ok=False):
        ks = [k for k in prog.find(name, crate='typeshare_core') if prog.bodies[k]['kind'] == 'fn']
        if len(ks) != 1:
            raise core.Incomplete(f'{name} not found in MIR')
        return ks[0]

    pairs = [
        ('parse_struct', ['ComplexTupleStruct'], ('rust_types::RustTypeAlias', 'RustTypeAlias'), 'a tuple struct with several fields'),
        ('parse_enum_variant', ['MultipleUnnamedAssociatedTypes'], ('rust_types::RustEnumVariant', 'Tuple'), 'a tuple variant with several fields'),
        ('parse_enum', ['SerdeTagNotAllowed', 'SerdeContentNotAllowed'], ('rust_types::RustEnum', 'Unit'), 'serde tag/content on a unit enum'),
        ('parse_const', ['RustConstTypeInvalid'], ('rust_types::RustConst', 'RustConst'), 'a const of container type'),
    ]
    for fn, errs, (adt, variant), what in pairs:
        k = body_of(fn)
        b = prog.bodies[k]
        acc = agg(b, adt, variant)
        if not acc:
            # the accepted value may be assembled by a private builder of the same file (`type_alias_item(ident, attrs, .., ty)`):
            # the call of the builder is then the construction site in this body
            for c in b['calls']:
                for t_ in prog.targets_of_call(c):
                    h_ = prog.bodies.get(t_)
                    if h_ is not None and h_['kind'] == 'fn' and h_['file'] == b['file'] and h_['id'].split('::')[-1] not in [p_[0] for p_ in pairs] and agg(h_, adt, variant):
                        acc.append({'bb': c['bb'], 'file': c['file'], 'line': c['line'], 'via_builder': h_['id']})
        site = {'file': b['file'], 'line': b['line']}
        rep.check(bool(acc), 'R3', f'{fn}:{variant}:constructed', 'accepted value constructed here', f'{fn}: construction of {adt}::{variant} not found', site)
        for e in errs:
            es = agg(b, 'parser::ParseError', e)
            key = f'{fn}:{e}'
            if not es:
                # the rejection may sit in a private helper that decides the shape of the item (`struct_shape(s)?`): the same
                # dominance is then required inside the helper — over its accepting `Ok(..)` — and the helper's Result must
                # reach a `?` (or be returned) in the parser
                helped = None
                for c in b['calls']:
                    for t in prog.targets_of_call(c):
                        h = prog.bodies.get(t)
                        if h is None or h['kind'] not in ('fn', 'assoc_fn') or h['file'] != b['file'] or h['id'].split('::')[-1] in [p_[0] for p_ in pairs] + ['parse_type_alias']:
                            continue
                        hes = agg(h, 'parser::ParseError', e)
                        if not hes:
                            continue
                        hacc = agg(h, 'std::result::Result', 'Ok') or agg(h, 'core::result::Result', 'Ok')
                        inside = any(h['idom'][ea['bb']] != -1 and prog.dominates(h, h['idom'][ea['bb']], aa['bb']) and aa['bb'] not in prog.reachable_blocks(h, ea['bb']) for ea in hes for aa in hacc)
                        helped = (h, hes, inside and reaches_try(b, c['dest']) in ('try', 'returned'), bool(reaches_try(b, c['dest'])))
                if helped is None:
                    rep.fail('R3', key, f"{fn} never constructs ParseError::{e}: {what} is no longer rejected", site)
                else:
                    h, hes, ok, propagated = helped
                    rep.check(ok, 'R3', key, f"test for ParseError::{e} dominates the accepting Ok(..) of helper {h['id'].split('::')[-1]}, whose Result reaches `?` in {fn}", f"{fn}: the helper {h['id']} yields ParseError::{e}, but {'its accepting result does not depend on that test' if propagated else 'its Result is not propagated with `?`'} ({what} would be mis-generated)", {'file': hes[0]['file'], 'line': hes[0]['line']})
                continue
            ok = False
            for ea in es:
                # branch point = immediate dominator chain of the error block; it must dominate some accepting aggregate,
                # and the accepting block must not be reachable from the error block
                c = b['idom'][ea['bb']]
                for aa in acc:
                    if c != -1 and prog.dominates(b, c, aa['bb']) and aa['bb'] not in prog.reachable_blocks(b, ea['bb']):
                        ok = True
            rep.check(ok, 'R3', key, f'test for ParseError::{e} dominates the construction of {variant}', f"{fn}: the accepted {variant} value can be constructed without passing the test that yields ParseError::{e} ({what} would be mis-generated)", {'file': es[0]['file'], 'line': es[0]['line']})
    # algebraic enum: tag and content required (closures passed to ok_or_else, then `?`)
    k = body_of('parse_enum')
    b = prog.bodies[k]
    alg = agg(b, 'rust_types::RustEnum', 'Algebraic')
    for e in ('SerdeTagRequired', 'SerdeContentRequired'):
        found = None
        for ck in prog.children.get(k, []):
            if agg(prog.bodies[ck], 'parser::ParseError', e):
                found = ck
        site = {'file': b['file'], 'line': b['line']}
        direct = agg(b, 'parser::ParseError', e)
        if not found and direct and alg:
            # early-return form (`let Some(x) = opt else { return Err(..) }` / match): same dominance argument as above
            ok = False
            for ea in direct:
                c = b['idom'][ea['bb']]
                if c != -1 and all(prog.dominates(b, c, aa['bb']) and aa['bb'] not in prog.reachable_blocks(b, ea['bb']) for aa in alg):
                    ok = True
            rep.check(ok, 'R3', f'parse_enum:{e}', f'the test yielding ParseError::{e} dominates the construction of RustEnum::Algebraic', f'parse_enum: RustEnum::Algebraic can be built without passing the test that yields ParseError::{e}', site)
            continue
        if not found:
            # the requirement may be enforced by a helper / a method of a private type whose Result reaches `?` before the
            # Algebraic value is built (`keys.require_for_algebraic_enum(ident)?`)
            via = None
            for c in b['calls']:
                for t_ in prog.targets_of_call(c):
                    h_ = prog.bodies.get(t_)
                    if h_ is None or h_['kind'] not in ('fn', 'assoc_fn') or h_['file'] != b['file']:
                        continue
                    region_h = [h_] + [prog.bodies[ck_] for ck_ in prog.children.get(t_, [])]
                    if any(agg(hb_, 'parser::ParseError', e) for hb_ in region_h) and reaches_try(b, c['dest']) == 'try' and alg and all(prog.dominates(b, c['bb'], a_['bb']) for a_ in alg):
                        via = h_
            if via is not None:
                rep.ok('R3', f'parse_enum:{e}', f"{via['id'].split('::')[-1]}(..)? — which yields ParseError::{e} — dominates the construction of RustEnum::Algebraic", site)
                continue
            rep.fail('R3', f'parse_enum:{e}', f'parse_enum never constructs ParseError::{e}: a data-carrying enum without both serde tag and content is no longer rejected', site)
            continue
        # the closure is handed to ok_or_else whose result reaches `?` before Algebraic is built
        ok = False
        for c in b['calls']:
            if c['callee'].endswith('ok_or_else') and any(f":{prog.bodies[found]['line']}:" in t for t in c.get('arg_tys', [])):
                if reaches_try(b, c['dest']) == 'try' and all(prog.dominates(b, c['bb'], a['bb']) for a in alg) and alg:
                    ok = True
        rep.check(ok, 'R3', f'parse_enum:{e}', f'ok_or_else(ParseError::{e})? dominates the construction of RustEnum::Algebraic', f'parse_enum: RustEnum::Algebraic can be built without the `?` on ParseError::{e}', site)
    pc = prog.bodies[body_of('parse_const')]
    # const expression: parse_const_expr(..)? precedes everything
    pce = [c for c in pc['calls'] if c['callee'].endswith('parse_const_expr')]
    ok = bool(pce) and reaches_try(pc, pce[0]['dest']) == 'try' and all(prog.dominates(pc, pce[0]['bb'], a['bb']) for a in agg(pc, 'rust_types::RustConst', 'RustConst'))
    rep.check(ok, 'R3', 'parse_const:RustConstExprInvalid', 'parse_const_expr(..)? dominates RustConst', 'parse_const builds a RustConst without checking that the expression is an integer literal', {'file': pc['file'], 'line': pc['line']})
    # unit/algebraic decision on the filtered, parsed variants
    pe = ctx.fnx('parse_enum', file='parser.rs')
    unit = [c for c in pe['calls'] if str(c.get('f', '')).replace(' ', '').endswith('RustEnum::Unit')]
    if not unit:
        raise core.Incomplete('parse_enum: RustEnum::Unit construction not found (astq)')
    from . import c07
    from .. import guards
    ok = False
    why = 'no all-variants-are-unit test found'
    for fr in guards.normalize_frames(unit[0]['guard']):
        if fr.get('k') != 'if':
            continue
        cond, neg = fr['c'], bool(fr.get('neg'))
        red = guards.reduce_tag_test(cond)
        if red is not None:
            cond, neg = red[0], neg != red[1]
        form = c07.all_unit_form(vt.strip(cond)) if not neg else None
        if form is None:
            continue
        calls = [x for x in vt.walk(vt.strip(cond)) if x.get('k') == 'call']
        has_filter = any(x.get('f') == 'filter' and 'is_skipped' in json.dumps(x.get('args')) for x in calls)
        if not has_filter:
            # loop form: the tested list is filled by pushes that all sit behind the loop's `is_skipped` continue
            vecs = [x for x in vt.walk(vt.strip(cond)) if x.get('k') == 'vecof' and x.get('items')]
            has_filter = bool(vecs) and all(pr.loop_skip_filter(it.get('guard', [])) is not None for x in vecs for it in x['items'])
        on_parsed = form == 'parsed'
        ok = has_filter and on_parsed
        why = 'the all-unit test is evaluated on the raw syn variants, before the skip filter' if not has_filter else ('the test does not inspect the parsed RustEnumVariant values' if not on_parsed else '')
    rep.check(ok, 'R3', 'parse_enum:decision-on-filtered-variants', 'unit-vs-algebraic decided on the non-skipped, parsed variants', f"parse_enum: {why} — a data-carrying variant under serde(skip)/typeshare(skip) still forces tag+content (skipping must make the run succeed), and tag/content on an effectively-unit enum is no longer rejected", {'file': pe['file'], 'line': unit[0].get('line')})


def r4(ctx, rep):
    sites = pr.field_sites(ctx)
    for f, st in sites:
        site = {'file': f['file'], 'line': st['line']}
        # flatten test in the same closure, before the construction
        cl_frames = [fr for fr in st['guard'] if fr.get('k') == 'closure']
        cid = cl_frames[-1]['id'] if cl_frames else None
        h = st.get('home') or f   # the function that physically contains the literal (a helper, or the parser itself)

        def same_scope(x):
            return cid is None or any(fr.get('k') == 'closure' and fr.get('id') == cid for fr in x['guard'])
        fl = [c for c in h['calls'] if c.get('f') == 'serde_flatten' and same_scope(c)]
        errs = [r for r in h['returns'] if 'SerdeFlattenNotAllowed' in vt.show(r.get('v')) and same_scope(r)]
        rep.check(bool(fl) and bool(errs), 'R4', f"{f['name']}:flatten-rejected", 'serde(flatten) on a field is rejected', f"{f['name']}: fields built here are not tested for serde(flatten) (the sibling builder in parse_struct is): a flattened struct-variant field is emitted as an ordinary field", site)
        tyv = st['v']['fields'].get('ty')
        txt = json.dumps(tyv)
        ok = '"get_field_type_override"' in txt and '"try"' in txt and ('try_from' in txt)
        rep.check(ok, 'R4', f"{f['name']}:type-parse", 'type override or try_from, both under `?`', f"{f['name']}: the field type is not obtained from the override/try_from under `?`", site)


def w_merge(ctx, rep):
    """W2 (merge): the per-file results of one crate / one output are folded with `ParsedData += ParsedData` before the error gate
    looks at them — the merged value must carry the errors of *both* sides, or the rejection of every file but the last merged one
    is lost and the run writes output."""
    got = pr.merge_sides(ctx, 'errors')
    if got is None:
        raise core.Incomplete('W2: `impl AddAssign for ParsedData` not found (the merge of per-file results)')
    fs = [g for g in ctx.astq['functions'] if g['name'].split('::')[-1] == 'add_assign' and (g.get('self_ty') or '').split('<')[0] == 'ParsedData']
    rep.check({'self', 'rhs'} <= got, 'W2', 'merge:errors-of-both-sides', 'ParsedData += keeps the errors of both operands', f"ParsedData::add_assign leaves `errors` with the {sorted(got) or 'neither'} side only: the parse errors of the other operand are dropped when per-file results are merged, check_parse_errors sees nothing and the output is written without the rejected item", {'file': fs[0]['file'], 'line': fs[0]['line']})


def w(ctx, rep, prog):
    cr = cg.CtxReach(prog)
    mains = prog.find('main', crate='typeshare#bin')
    reach = cr.reach(mains)
    writers = {}
    n = 0
    for node in reach:
        b = prog.bodies[node[0]]
        for c in b['calls']:
            n += 1
            if WRITE_API.search(c['callee']) and not c['local']:
                root = prog.bodies.get(b.get('root')) if b.get('root') else b
                writers.setdefault(root['id'], []).append(c)
    rep.analysed['W1:calls_scanned'] = n
    rep.floor('W1', 'functions using file-writing APIs', len(writers), 3)
    # a private helper of an allowed writer is part of that writer: every call of it (anywhere in the program) comes from the
    # region of an allowed writer — computed as a fixpoint, so helpers of helpers count too
    from .. import wiring
    ow = wiring.output_writer(ctx, prog)
    from . import c17 as _c17
    allowed = {a for a in ALLOWED_WRITERS if not a.endswith('check_write_file') and 'swift' not in a} | {ow['mir']} | set(_c17.gen_writers(ctx, prog))

    def allowed_name(fn):
        return any(fn == a or fn.endswith(a) for a in allowed)
    derived = set()
    changed = True
    while changed:
        changed = False
        for fn in writers:
            if allowed_name(fn) or fn in derived:
                continue
            ks = [k for k, bd in prog.bodies.items() if bd['id'] == fn]
            callers = [prog.bodies[prog.bodies[k2].get('root') or k2]['id'] for k2 in prog.bodies for kk in ks if kk in prog.edges.get(k2, ()) and (prog.bodies[k2].get('root') or k2) != kk]
            if callers and all(allowed_name(c) or c in derived for c in callers):
                derived.add(fn)
                changed = True
    for fn, cs in sorted(writers.items()):
        ok = allowed_name(fn) or fn in derived
        rep.check(ok, 'W1', f'writer:{fn}', f"{sorted({c['callee'].split('::')[-1] for c in cs})}", f"{fn} creates/writes files ({sorted({c['callee'] for c in cs})[:2]}): only the compare-before-write writer ({ow['name']}), Swift::write_codable_file and store_config may touch the file system — output written elsewhere bypasses the error gate and the compare-before-write discipline", {'file': cs[0]['file'], 'line': cs[0]['line']})
    # W2 — the error gate.  A *gate* is any function of the CLI crate that reads `ParsedData.errors` (rustc's field
    # resolution, not a name) and can return Err.  Required, inter-procedurally from generate_types:
    #  (a) GATED: every call that can reach a file write is dominated by a gate call whose Err is propagated, or is
    #      itself a call to a function that is GATED;
    #  (b) no gate evaluation is reachable *after* a write has happened (a gate inside the per-crate write loop lets the
    #      crates that sort before the failing one be written);
    #  (c) the gate covers every crate: it takes the whole crate map, or its call site sits in a loop / iterator closure.
    gt = [k for k in prog.find('generate_types', crate='typeshare#bin') if prog.bodies[k]['kind'] == 'fn']
    if len(gt) != 1:
        raise core.Incomplete('generate_types (cli) not found')
    site = {'file': prog.bodies[gt[0]]['file'], 'line': prog.bodies[gt[0]]['line']}
    binc = ctx.mirq('all')['crates']['typeshare#bin']
    reader_fns = sorted({re.sub(r'(::\{closure#\d+\})+$', '', h['fn']) for h in binc['hir_fields'] if h.get('field') == 'errors' and h.get('owner', '').endswith('parser::ParsedData') and not h.get('exp')})
    reader_keys = {k for k, bd in prog.bodies.items() if prog.crate_of[k] == 'typeshare#bin' and bd['kind'] != 'closure' and bd['id'] in reader_fns}

    def _writes(k):
        return any(any(WRITE_API.search(c['callee']) and not c['local'] for c in prog.bodies[k2]['calls']) for k2 in prog.reach([k]) if not prog.bodies[k2]['id'].endswith('store_config'))

    def _errs(k):
        reg = prog.region([k])
        return any(a_['variant'] == 'Err' for k2 in reg for a_ in prog.bodies[k2]['aggregates']) or any(re.search(r'anyhow::(Error|__private)', c['callee']) for k2 in reg for c in prog.bodies[k2]['calls'])
    # a gate: reads the error lists (itself or through local helpers), can fail, and writes nothing
    gate_keys = [k for k, bd in prog.bodies.items() if prog.crate_of[k] == 'typeshare#bin' and bd['kind'] != 'closure'
                 and (set(prog.region([k])) & reader_keys) and _errs(k) and not _writes(k)]
    if not gate_keys and any(_writes(k) for k in reader_keys):
        raise core.Incomplete('W2: ParsedData.errors is only inspected inside a function that also writes files (inlined gate) — shape not modelled')
    rep.check(bool(gate_keys), 'W2', 'error-gate-exists', f"gate function(s): {[prog.bodies[k]['id'] for k in gate_keys]}", 'no function of the CLI reads ParsedData.errors and returns Err: recorded parse errors never stop the run, output is written although a file failed to parse', site)
    if not gate_keys:
        return
    gen_path = prog.reach(gt)
    memo_w, memo_g = {}, {}

    def writes_files(k):
        if k not in memo_w:
            memo_w[k] = any(any(WRITE_API.search(c['callee']) and not c['local'] for c in prog.bodies[k2]['calls']) for k2 in prog.reach([k])
                            if not prog.bodies[k2]['id'].endswith('store_config'))
        return memo_w[k]

    def reaches_gate(k):
        if k not in memo_g:
            r = prog.reach([k])
            memo_g[k] = any(g in r for g in gate_keys)
        return memo_g[k]

    def call_class(bd, c):
        ts = [t for t in prog.targets_of_call(c) if t in prog.bodies]
        # closures created in this body and handed to the callee run "inside" the call
        return any(writes_files(t) for t in ts), any(reaches_gate(t) for t in ts), ts

    gated_memo = {}

    def gated(k, stack=()):
        if k in gated_memo:
            return gated_memo[k]
        if k in stack:
            return (False, 'recursion')
        bd = prog.bodies[k]
        cls = [(c,) + call_class(bd, c) for c in bd['calls']]
        pure_gates = [c for c, w_, g_, ts in cls if g_ and not w_ and reaches_try(bd, c['dest'].split(' ')[0]) in ('try', 'returned')]
        res = (True, '')
        for c, w_, g_, ts in cls:
            if not w_:
                continue
            if any(prog.dominates(bd, g['bb'], c['bb']) and (g['bb'] != c['bb'] or bd['calls'].index(g) < bd['calls'].index(c)) for g in pure_gates):
                continue
            sub = [gated(t, stack + (k,)) for t in ts if writes_files(t)]
            direct = any(WRITE_API.search(c['callee']) and not c['local'] for _ in [0])
            if direct or not sub or not all(x[0] for x in sub):
                why = next((x[1] for x in sub if not x[0]), '') or f"`{c['snippet'][:60]}` in {bd['id']} is not preceded by a propagated error gate"
                res = (False, why)
                break
        gated_memo[k] = res
        return res

    okg, whyg = gated(gt[0])
    rep.check(okg, 'W2', 'errors-gate-the-writer', 'every path from generate_types to a file write passes a propagated error gate first', f"output can be written although a file failed to parse: {whyg} (the gate — a function reading ParsedData.errors and returning Err — must run, and its result be propagated, before anything is written)", site)
    # (b) no gate evaluation after a write
    late = []
    for k in gen_path:
        bd = prog.bodies[k]
        cls = [(c,) + call_class(bd, c) for c in bd['calls']]
        ws = [c for c, w_, g_, ts in cls if w_ or (WRITE_API.search(c['callee']) and not c['local'])]
        gs = [c for c, w_, g_, ts in cls if g_]
        for wc in ws:
            after = prog.reachable_blocks(bd, wc['bb'])
            for gc in gs:
                if gc is wc:
                    cyc = any(wc['bb'] in prog.reachable_blocks(bd, sx) for sx in bd['succ'][wc['bb']])
                    # one call that both checks and writes, evaluated repeatedly: the 2nd evaluation follows the 1st write —
                    # unless the callee itself is gated for everything it writes *and* is the top of the path (not in a loop)
                    if cyc:
                        late.append((bd, wc, gc))
                    continue
                later_same_block = gc['bb'] == wc['bb'] and bd['calls'].index(gc) > bd['calls'].index(wc)
                strictly_after = gc['bb'] in after and (gc['bb'] != wc['bb'] or any(wc['bb'] in prog.reachable_blocks(bd, sx) for sx in bd['succ'][wc['bb']]))
                if later_same_block or strictly_after:
                    late.append((bd, wc, gc))
    for bd, wc, gc in late[:3]:
        rep.fail('W2', f"gate-after-write:{bd['id'].split('::')[-1]}", f"in {bd['id']} the error check `{gc['snippet'][:50]}` can run after `{wc['snippet'][:50]}` has already written a file (per-crate checking inside the write loop): crates that come before the failing one are written although the run fails", {'file': gc['file'], 'line': gc['line']})
    if not late:
        rep.ok('W2', 'no-write-before-gate', f'{len(gen_path)} bodies on the generation path: no error-gate evaluation is reachable after a file write')
    # (c) coverage + shape of each gate
    for gk in gate_keys:
        gb = prog.bodies[gk]
        fsite = {'file': gb['file'], 'line': gb['line']}
        gname = gb['id'].split('::')[-1]
        whole = any('BTreeMap<' in t or 'HashMap<' in t or 'Vec<' in t or '[' in t for n_, t in gb['locals'].items() if n_ in [f'_{i}' for i in range(1, gb['arg_count'] + 1)] and 'ParsedData' in t)
        if not whole:
            in_loop = []
            for k in gen_path:
                bd = prog.bodies[k]
                for c in bd['calls']:
                    if gk in prog.targets_of_call(c):
                        cyc = any(c['bb'] in prog.reachable_blocks(bd, sx) for sx in bd['succ'][c['bb']])
                        in_loop.append(cyc or bd['kind'] == 'closure')
            rep.check(bool(in_loop) and any(in_loop), 'W2', f'{gname}:all-crates', 'per-crate gate applied in a loop over the crates', f"{gb['id']} inspects one crate's ParsedData and is not called for every crate (no loop around the call): errors of the other crates never stop the run", fsite)
        cands = [f for f in ctx.astq['functions'] if f['file'] == gb['file'] and f['line'] == gb['line']]
        if len(cands) != 1:
            raise core.Incomplete(f"gate {gb['id']}: source not located by the syntax evaluator")
        f = cands[0]
        assigns = [a for a in f['assigns'] if isinstance(a.get('target'), dict) and a['target'].get('k') == 'local']
        bad = [a for a in assigns if any(fr.get('k') in ('for', 'while', 'loop') for fr in a['guard']) and not (isinstance(vt.strip(a['value']), dict) and vt.strip(a['value']).get('k') == 'lit' and vt.strip(a['value']).get('v') is True)]
        rep.check(not bad, 'W2', f'{gname}:flag-monotone', 'failure flag only ever raised', f"{gname} overwrites its failure flag per crate (`{bad[0]['text']} = {vt.show(bad[0]['value'])[:50]}`): only the last crate decides whether the run aborts — errors in an earlier crate are logged but the CLI exits 0 and writes every file" if bad else '', fsite)
        if whole:
            loops = [l for l in f['loops'] if l.get('kind') == 'for']
            its = [c for c in f['calls'] if c.get('f') in ('values', 'iter', 'into_values', 'into_iter') ]
            over = loops[0]['over'] if loops else None
            trunc = [c for c in (vt.calls_in(over) if over is not None else []) if c.get('f') in ('take', 'skip', 'step_by', 'rev', 'last', 'nth', 'next', 'take_while', 'skip_while')]
            trunc += [c for c in f['calls'] if c.get('f') in ('take', 'skip', 'step_by', 'last', 'nth', 'next', 'first', 'take_while', 'skip_while', 'next_back', 'first_key_value', 'last_key_value', 'pop_first', 'pop_last') and 'ParsedData' in json.dumps(c.get('recv'))[:4000]]
            rep.check((bool(loops) or bool(its)) and not trunc, 'W2', f'{gname}:all-crates', 'every crate inspected', f"{gname} does not inspect every crate's parsed data ({'truncating adaptor `' + str(trunc[0].get('f')) + '`' if trunc else 'no iteration over the crate map'})", fsite)
        rep.check('Err' in vt.show(f['tail']) or any('Err' in vt.show(r.get('v')) for r in f['returns']) or any(c.get('f') in ('bail', 'anyhow::bail') for c in f['calls']) or 'bail' in json.dumps(f.get('tail'))[:3000], 'W2', f'{gname}:returns-err', 'returns Err when errors were seen', f'{gname} never returns Err', fsite)
    # W3: errors never cleared / filtered
    bad = []
    for g in ctx.astq['functions']:
        if g['file'].endswith(('parse.rs', 'main.rs', 'reconcile.rs', 'parser.rs')):
            for c in g['calls']:
                if c.get('f') in ('clear', 'truncate', 'retain', 'drain', 'pop', 'take') and 'errors' in vt.show(c.get('recv')):
                    bad.append((g, c))
            for a in g['assigns']:
                if a.get('text', '').replace(' ', '').endswith('.errors'):
                    bad.append((g, a))
    for g, c in bad:
        rep.fail('W3', f"{g['name']}:errors-mutated", f"{g['qual']} clears/filters/overwrites a per-file error list: a recorded parse error can disappear before check_parse_errors sees it", {'file': g['file'], 'line': c.get('line')})
    if not bad:
        rep.ok('W3', 'errors-never-cleared', 'no clear/retain/drain/assignment on ParsedData.errors between the collector and the gate')
