"""C03 — exactly the annotated, non-skipped items, fields and variants are generated.

Decided: (S1) every item-kind visitor collects under exactly `annotated ∧ target-accepted`, keeps descending on every
path, and the annotation test looks at every segment of every attribute path; (S2) the collector keeps Ok and Err
outcomes and `push` files every RustItem constructor into its own vector; (S3) each of the three member lists is
filtered exactly once, before parsing, by `!is_skipped(member.attrs, ..)`, and is_skipped is `skip ∨ ¬accepted`
with `skip` looked up under serde *or* typeshare, without early exits; (S4) the accumulator merges every item
vector and `is_empty` mentions them all; (S5) every driver consumes all four item vectors and dispatches every
RustItem constructor; (S6) printers iterate fields/variants unfiltered and the helper-struct generator visits every
struct variant unconditionally, passing its fields unchanged."""
import json
import re

from .. import core, emit, parser_rules as pr, vt

ITEM_VISITORS = {'visit_item_struct': 'parse_struct', 'visit_item_enum': 'parse_enum', 'visit_item_type': 'parse_type_alias', 'visit_item_const': 'parse_const'}
LEAF_VISITORS = {'visit_path', 'visit_item_use'}  # import collectors; nothing annotated lives below a path / use tree
FILTERS = ('filter', 'skip', 'take', 'step_by', 'skip_while', 'take_while', 'filter_map', 'rev')


def run(ctx, rep):
    rep.explanation = ('Completeness/selectivity decided on the shape of the collection pipeline: visitor guards and default-visit calls, the collector\'s two outcomes, '
                       'the single skip filter in front of each member parser and the truth table of is_skipped, field coverage of the ParsedData accumulator, '
                       'consumption of all item vectors by every driver, unfiltered member loops in printers.')
    rep.not_decided = 'the textual `#[typeshare` pre-filter against exotic attribute spellings such as `# [typeshare]` (an input-language question).'
    rep.trusted = ['syn', 'astq evaluator']
    T = emit.Types(ctx.astq)
    rep.section(pr.all_attrs_rule, ctx, rep, 'SA', ('has_typeshare_annotation', 'is_skipped'), 2, keys=('skip',))
    rep.section(s1, ctx, rep)
    rep.section(s2, ctx, rep)
    rep.section(s3, ctx, rep)
    rep.section(s4, ctx, rep)
    rep.section(s5, ctx, rep)
    rep.section(s6, ctx, rep, T)
    rep.section(s7, ctx, rep, T)


def s1(ctx, rep):
    vis = [f for f in ctx.fns(file='visitors.rs') if (f.get('trait') or '').startswith('Visit') and f.get('self_ty', '').startswith('TypeShareVisitor')]
    names = {f['name'] for f in vis}
    rep.floor('S1', 'Visit overrides on TypeShareVisitor', len(vis), 5)
    for f in vis:
        site = {'file': f['file'], 'line': f['line']}
        if f['name'] in ITEM_VISITORS:
            parser = ITEM_VISITORS[f['name']]
            # inlined view with every inherent helper of the visitor expanded (collect_result, a `collect_item(attrs, |os| parse(..))`
            # wrapper, a combined test …): the rule looks at what happens to the parser's result, wherever that is written
            helpers = tuple(g['name'].split('::')[-1] for g in ctx.fns(file='visitors.rs') if ((g.get('self_ty') or '').startswith('TypeShareVisitor') or not g.get('self_ty')) and not g.get('trait'))
            from .. import inline as _inl
            fv = _inl.view(ctx, f, depth=4, force=helpers)
            cr = [c for c in fv['calls'] if str(c.get('f')) == parser]
            pushes = [c for c in fv['calls'] if c.get('f') == 'push' and vt.show(c.get('recv')).replace(' ', '').endswith('parsed_data')]
            errs = [c for c in fv['calls'] if c.get('f') == 'push' and vt.show(c.get('recv')).replace(' ', '').endswith('parsed_data.errors')]
            kept = bool(pushes) and bool(errs)
            rep.check(len(cr) == 1 and kept, 'S1', f"{f['name']}:collects", f'{parser}(item) parsed once; Ok pushed into parsed_data, Err into parsed_data.errors', f"{f['name']} does not hand the result of {parser}(item) to the collector (parsed item pushed into parsed_data, error recorded in parsed_data.errors)", site)
            if cr:
                frames = [fr for fr in cr[0]['guard'] if fr.get('k') == 'if']
                item = f['params'][1]['name']

                def conj(v):
                    v = vt.unvar(v)
                    if isinstance(v, dict) and v.get('k') == 'op' and v.get('op') == '&&':
                        return [t for a in v['args'] for t in conj(a)]
                    if isinstance(v, dict) and v.get('k') == 'paren':
                        return conj(v.get('v'))
                    return [v]

                def on_item_attrs(t):
                    return any(x.get('k') == 'atom' and x.get('root') == item and x.get('path') == ['attrs'] for x in vt.walk(t))

                def classify(t):
                    """'T' target test, 'A' annotation test (any path segment == typeshare), 'A-weak' annotation test that only
                    accepts the bare path, '?' anything else."""
                    txt = json.dumps(t)
                    calls = [x.get('f') for x in vt.walk(t) if x.get('k') == 'call']
                    if not on_item_attrs(t):
                        return '?'
                    if t.get('k') == 'call' and t.get('f') in ('target_os_accepted', 'accept_target_os'):
                        return 'T'
                    if t.get('k') == 'call' and t.get('f') == 'has_typeshare_annotation':
                        return 'A'
                    names_ts = '"v": "typeshare"' in txt or '"TYPESHARE"' in txt
                    if names_ts and 'segments' in txt and ('any' in calls or 'contains' in calls) and 'is_ident' not in calls:
                        return 'A'
                    if names_ts:
                        return 'A-weak'
                    return '?'
                def disj_neg(v):
                    # ¬(¬a ∨ ¬b ∨ …) = a ∧ b ∧ … : terms of an early exit `if !a || !b { return }`; None when not of that form
                    v = vt.unvar(v)
                    if isinstance(v, dict) and v.get('k') == 'paren':
                        return disj_neg(v.get('v'))
                    if isinstance(v, dict) and v.get('k') == 'op' and v.get('op') == '||':
                        parts = [disj_neg(a) for a in v['args']]
                        return None if any(p_ is None for p_ in parts) else [t for p_ in parts for t in p_]
                    if isinstance(v, dict) and v.get('k') == 'op' and v.get('op') == '!' and len(v.get('args', [])) == 1:
                        return conj(v['args'][0])
                    return None
                terms, negated = [], False
                for fr in frames:
                    if fr.get('neg'):
                        dm = disj_neg(fr['c'])
                        if dm is not None:
                            terms += dm
                            continue
                        negated = True
                    terms += conj(fr['c'])
                kinds = sorted(classify(t) for t in terms)
                tests = ' && '.join(sorted(vt.show(t).replace(' ', '')[:70] for t in terms))
                if 'A-weak' in kinds:
                    rep.fail('S1', f"{f['name']}:guard:any-segment", f"{f['name']} recognises the annotation with `{next(vt.show(t)[:90] for t in terms if classify(t) == 'A-weak')}`: only the bare path `#[typeshare]` matches — items annotated `#[typeshare::typeshare]` / `#[::typeshare::typeshare(..)]` are silently omitted (every segment of the attribute path must be compared)", site)
                else:
                    rep.check(kinds == ['A', 'T'] and not negated, 'S1', f"{f['name']}:guard", 'collected iff annotated ∧ target accepted', f"{f['name']} collects the item under `{tests[:160]}` — expected exactly (annotated with #[typeshare]) ∧ (target accepted) on {item}.attrs: items are dropped or un-annotated items generated", site)
        if f['name'] in LEAF_VISITORS:
            continue
        default = [c for c in f['calls'] if c.get('f') == f"syn::visit::{f['name']}"]
        if f['name'] == 'visit_file':
            # the conditions under which the default visit is reached, each with its effective polarity: `if accepted { visit }`
            # and `if !accepted { return } visit` are the same guard
            gtxt = None
            if len(default) == 1:
                gtxt = []
                for fr in default[0]['guard']:
                    if fr.get('k') != 'if':
                        continue
                    c_, pos_ = vt.unvar(fr.get('c')), not fr.get('neg')
                    while isinstance(c_, dict) and c_.get('k') == 'op' and c_.get('op') == '!' and len(c_.get('args', [])) == 1:
                        c_, pos_ = vt.unvar(c_['args'][0]), not pos_
                    gtxt.append(('' if pos_ else '!') + vt.show(c_).replace(' ', ''))
            p1 = f['params'][1]['name']
            ok = gtxt in ([f"self.target_os_accepted({p1}.attrs)"], [f"accept_target_os({p1}.attrs,self.parse_context.target_os)"])
            rep.check(ok, 'S1', 'visit_file:descends', 'descends under the file-level target test only', 'visit_file does not descend into the file exactly when its inner cfg attributes accept the target', site)
            continue
        uncond = [c for c in default if not [fr for fr in c['guard'] if fr.get('k') in ('if', 'arm', 'for')]]
        early = [r for r in f['returns']]
        rep.check(bool(uncond) and not early, 'S1', f"{f['name']}:keeps-descending", 'default visit called on every path', f"{f['name']} does not call syn::visit::{f['name']} on every path — annotated items nested below (modules, function bodies) are no longer found", site)
    for need in ITEM_VISITORS:
        rep.check(need in names, 'S1', f'{need}:exists', 'override present', f'TypeShareVisitor no longer overrides {need}: items of that kind are never collected', {'file': 'core/src/visitors.rs', 'line': 0})
    # annotation test
    hs = [g for g in ctx.astq['functions'] if g['name'] == 'has_typeshare_annotation' and g['file'].endswith(('parser.rs', 'visitors.rs'))]
    for h in hs[:1]:
        txt = json.dumps(h['tail'])
        ok = '"segments"' in txt and '"any"' in txt and ('"TYPESHARE"' in txt or '"v": "typeshare"' in txt) and '"is_ident"' not in txt
        rep.check(ok, 'S1', 'has_typeshare_annotation:any-segment', 'any path segment equal to `typeshare`', "has_typeshare_annotation no longer tests every segment of the attribute path: `#[typeshare::typeshare]` / `#[::typeshare::typeshare]` items are silently omitted", {'file': h['file'], 'line': h['line']})
    c = ctx.items('const', 'TYPESHARE', 'parser.rs')
    rep.check(bool(c) and c[0]['strings'] == ['typeshare'], 'S1', 'const:TYPESHARE', 'TYPESHARE = "typeshare"', 'const TYPESHARE changed', {'file': 'core/src/parser.rs', 'line': c[0]['line'] if c else 0})


def s2(ctx, rep):
    # the collector: the function of visitors.rs whose body decides what happens to a parser's Result — found by content (a
    # match over Ok/Err whose arms push into parsed_data / parsed_data.errors), whatever it is called
    cands = []
    for g in ctx.fns(file='visitors.rs'):
        for m in g['matches']:
            if {'Ok', 'Err'} <= {v for a in m['arms'] for v in a['variants']} and 'parsed_data' in json.dumps([a['body'] for a in m['arms']]):
                cands.append((g, m))
    if not cands:
        raise core.Incomplete('visitors.rs: no match over Ok/Err that stores into parsed_data found (the collector)')
    f, m0 = cands[0]
    site = {'file': f['file'], 'line': f['line']}
    cname = f['name'].split('::')[-1]
    for a in m0['arms']:
        if a['variants'] == ['Ok']:
            rep.check(re.search(r'parsed_data\s*\.\s*push\s*\(\s*\w+\s*\)', a['body']) is not None and a['bindings'] and a['bindings'][0]['uses'] > 0, 'S2', 'collect_result:Ok', 'parsed item pushed', f'{cname} drops successfully parsed items', site)
        if a['variants'] == ['Err']:
            recorded = re.search(r'errors\s*\.\s*push', a['body']) is not None
            if not recorded:
                # the push may sit in a helper the arm hands the error to (`Err(e) => self.record_error(e)`): inlined view
                fxv = ctx.x(f)
                recorded = any(c.get('f') == 'push' and c.get('recv') is not None and vt.show(vt.strip(c['recv'])).replace(' ', '').endswith('parsed_data.errors')
                               and any(fr.get('k') == 'arm' and fr.get('variants') == ['Err'] and fr.get('line') == a.get('line') for fr in c.get('guard', []))
                               and any(x.get('k') == 'payload' and str(x.get('variant', '')).split('::')[-1] == 'Err' for a_ in c.get('args', []) for x in vt.walk(a_)) for c in fxv['calls'])
            rep.check(recorded and a['bindings'] and a['bindings'][0]['uses'] > 0, 'S2', 'collect_result:Err', 'error recorded', f'{cname} discards parse errors: an annotated item that cannot be generated is silently omitted instead of reported', site)
    p = ctx.fnx('ParsedData::push', file='parser.rs')
    ri = ctx.item('enum', 'RustItem')
    item_param = next((q['name'] for q in p['params'] if q.get('ty') == 'RustItem'), None)
    if item_param is None:
        raise core.Incomplete('ParsedData::push: RustItem parameter not found')
    # store events: `self.<vec>.push(x)` / `.extend(..)` whose argument is the payload of the item parameter
    stores = {}
    for c in p['calls']:
        if c.get('f') in ('push', 'push_back', 'insert', 'extend') and c.get('recv') is not None and c.get('args'):
            rv = vt.strip(c['recv'])
            av = vt.strip(c['args'][-1])
            if isinstance(rv, dict) and rv.get('k') == 'atom' and rv.get('root') == 'self' and len(rv.get('path', [])) == 1 \
                    and isinstance(av, dict) and av.get('k') == 'payload' and isinstance(vt.strip(av.get('of')), dict) and vt.strip(av['of']).get('root') == item_param and not vt.strip(av['of']).get('path'):
                stores.setdefault(str(av.get('variant', '')).split('::')[-1], []).append(rv['path'][0])
    targets = {}
    for v in ri['variants']:
        got = stores.get(v['name'], [])
        ok = len(got) == 1
        rep.check(ok, 'S2', f"push:RustItem::{v['name']}", f"→ self.{got[0] if got else '?'}", f"ParsedData::push does not store RustItem::{v['name']} exactly once (stores: {got})", {'file': p['file'], 'line': p['line']})
        if ok:
            targets[v['name']] = got[0]
    rep.check(len(set(targets.values())) == len(targets), 'S2', 'push:distinct-vectors', str(targets), f'ParsedData::push files two item kinds into the same vector: {targets}', {'file': p['file'], 'line': p['line']})
    for c in p['calls']:
        if c.get('f') in ('push',):
            conds = [fr for fr in c['guard'] if fr.get('k') == 'if']
            rep.check(not conds, 'S2', f"push:unconditional:{vt.show(c.get('recv'))[-12:]}", 'unconditional', f"ParsedData::push stores an item only under `{vt.show(conds[0]['c'])[:80] if conds else ''}` — some annotated items are dropped (and differently so depending on how items are split across files)", {'file': p['file'], 'line': c.get('line')})


REMOVERS = ('dedup', 'dedup_by', 'dedup_by_key', 'retain', 'retain_mut', 'truncate', 'clear', 'pop', 'remove', 'swap_remove', 'drain', 'split_off', 'drain_filter', 'extract_if')
ITEM_VECS = ('structs', 'enums', 'aliases', 'consts')


def s7(ctx, rep, T):
    """S7: nothing between parsing and generation removes items: no removing operation on the item vectors of a
    ParsedData anywhere in the workspace; and no member of an item is inspected for rejection before the skip filter."""
    n = 0
    bad = 0
    for f in ctx.astq['functions']:
        if not (f['file'].startswith('core/src') or f['file'].startswith('cli/src')):
            continue
        for c in f['calls']:
            if c.get('f') not in REMOVERS or c.get('recv') is None:
                continue
            r = vt.strip(c['recv'])
            canon = T.canon_s(r) if isinstance(r, dict) else None
            txt = vt.show(r)
            is_item_vec = (canon or '').startswith('ParsedData.') and (canon or '').split('.')[-1] in ITEM_VECS
            if not is_item_vec:
                # a local destructured from a ParsedData (`let ParsedData { structs, .. } = data`) keeps the field name
                is_item_vec = isinstance(r, dict) and r.get('k') in ('payload', 'field') and r.get('field', r.get('name')) in ITEM_VECS and 'ParsedData' in json.dumps(r)[:600]
            n += 1
            if is_item_vec:
                bad += 1
                rep.fail('S7', f"{f['name']}:{c['f']}:{(canon or txt)[-24:]}", f"{f['qual']} removes items from `{txt[:50]}` with `{c['f']}`: annotated items disappear from the output without a diagnostic (same-named items in different modules/files compare equal on the Rust name alone)", {'file': f['file'], 'line': c.get('line')})
    rep.analysed['S7:removing calls scanned'] = n
    if not bad:
        rep.ok('S7', 'no-item-removal', f'no removing operation on ParsedData.{{structs,enums,aliases,consts}} ({n} removing calls scanned)')
    # … and the merge of per-file results keeps the items of both operands
    for lst in ITEM_VECS:
        got = pr.merge_sides(ctx, lst)
        if got is None:
            raise core.Incomplete('S7: `impl AddAssign for ParsedData` not found (the merge of per-file results)')
        rep.check({'self', 'rhs'} <= got, 'S7', f'merge:{lst}-of-both-sides', 'ParsedData += keeps the items of both operands', f"ParsedData::add_assign leaves `{lst}` with the {sorted(got) or 'neither'} side only: the annotated items of the other operand disappear when per-file results are merged", {'file': 'core/src/parser.rs', 'line': 0})
    # members are only looked at after the skip filter
    NEUTRAL = ('is_skipped', 'iter', 'iter_mut', 'into_iter', 'filter', 'map', 'inspect', 'collect', 'len', 'is_empty', 'enumerate', 'peekable', 'clone', 'count')
    for fn in ('parse_struct', 'parse_enum', 'parse_enum_variant'):
        f = ctx.fnx(fn, file='parser.rs')
        early = []
        for c in f['calls']:
            if str(c.get('f', '')).split('::')[-1] in NEUTRAL:
                continue
            vals = list(c.get('args', [])) + ([c['recv']] if c.get('recv') is not None else [])
            def member_of(v3):
                # the loop/closure element a value is a (field of a) member of: `f`, `f.attrs`, `f.ident.as_ref()`, `&f.ty`
                v3 = vt.strip(v3)
                d3 = 0
                while isinstance(v3, dict) and d3 < 12:
                    d3 += 1
                    if v3.get('k') == 'elem':
                        return v3
                    if v3.get('k') == 'field':
                        v3 = vt.strip(v3.get('base'))
                    elif v3.get('k') in ('ref', 'paren', 'some'):
                        v3 = vt.strip(v3.get('v'))
                    elif v3.get('k') == 'call' and v3.get('recv') is not None and not v3.get('args'):
                        v3 = vt.strip(v3['recv'])
                    else:
                        return None
                return None
            elems = [e3 for e3 in (member_of(v2) for v2 in vals) if e3 is not None]
            for x in elems:
                if not isinstance(x.get('of'), dict):
                    continue
                chain, src = [], vt.unvar(x['of'])
                while isinstance(src, dict) and src.get('k') == 'call' and src.get('recv') is not None:
                    chain.append(src)
                    src = vt.unvar(src['recv'])
                last = (src.get('path') or [None])[-1] if isinstance(src, dict) and src.get('k') == 'atom' else (src.get('name') if isinstance(src, dict) and src.get('k') == 'field' else None)
                if last not in ('named', 'unnamed', 'variants') or 'syn' in str(src.get('ty') or '') and False:
                    continue
                rt = str(src.get('root_ty') or '') + json.dumps(src)[:300]
                if not any(t in rt for t in ('ItemStruct', 'ItemEnum', 'Variant', 'FieldsNamed', 'FieldsUnnamed', 'Fields::')):
                    continue
                filtered = any(k2.get('f') == 'filter' and 'is_skipped' in json.dumps(k2.get('args')) for k2 in chain)
                if not filtered and not chain:
                    # loop form: the call sits behind `if is_skipped(member.attrs, target_os) { continue }` of the loop over the list
                    filtered = pr.loop_skip_filter(c.get('guard', [])) is not None
                if not filtered:
                    early.append((c, last))
        key = f'{fn}:members-read-after-skip-filter'
        rep.check(not early, 'S3', key, 'members are only inspected after the skip filter', f"{fn} inspects members of the `{early[0][1] if early else ''}` list with `{early[0][0].get('f') if early else ''}` before skipped members are filtered out: a member under serde(skip)/typeshare(skip) still influences (here: can fail) the item — the generated type must depend on the non-skipped members only", {'file': f['file'], 'line': early[0][0].get('line') if early else f['line']})


def chain_of(v):
    """Method-call chain (outermost last) of an iterator expression."""
    out = []
    while isinstance(v, dict):
        if v.get('k') in ('var', 'try', 'some'):
            v = v['v']
            continue
        if v.get('k') == 'call' and v.get('recv') is not None:
            out.append(v)
            v = v['recv']
            continue
        break
    return list(reversed(out)), v


def s3(ctx, rep):
    wanted = [('parse_struct', 'RustStruct', 'fields'), ('parse_enum', 'RustEnumShared', 'variants'), ('parse_enum_variant', 'RustEnumVariant::AnonymousStruct', 'fields')]
    for fn_name, owner, fld in wanted:
        f = ctx.fnx(fn_name, file='parser.rs')
        st = [s for s in f['structs'] if s['path'].endswith(owner.split('::')[-1]) or s['path'] == owner]
        if not st:
            raise core.Incomplete(f'{fn_name}: construction of {owner} not found')
        v = st[0]['v']['fields'].get(fld)
        # the list may come back from a helper wrapped in a private enum / Result (`struct_shape(s)?` → `Shape::Fields(f)`):
        # fold that away; an empty literal (`vec![]`, unit struct) has no members to judge
        from .. import special
        alts = [a_ for a_ in special.simplify(v) if not (isinstance(vt.strip(a_), dict) and vt.strip(a_).get('k') == 'vecof' and not vt.strip(a_).get('items'))]
        if len(alts) == 1:
            v = alts[0]
        calls, root = chain_of(v)
        names = [c['f'] for c in calls]
        site = {'file': f['file'], 'line': st[0]['line']}
        key = f'{fn_name}:{fld}'
        if isinstance(root, dict) and root.get('k') == 'vecof' and root.get('items') and not [c for c in calls if c['f'] in FILTERS]:
            # the list is filled by a loop: every `push` must sit behind the skip test of its loop, and behind nothing else
            verdicts = [pr.loop_skip_filter(it.get('guard', [])) for it in root['items']]
            ok = all(x is not None and not x[1] for x in verdicts)
            extra = [vt.show(fr.get('c') or fr.get('scrut'))[:60] for x in verdicts if x for fr in x[1]]
            rep.check(ok, 'S3', key + ':one-filter', 'loop: every push behind `if is_skipped(member.attrs, target_os) { continue }` only', f"{fn_name}: the {fld} list is filled in a loop where {'a member is pushed without the is_skipped(&member.attrs, target_os) test' if not extra else 'further conditions decide whether a member is taken: ' + '; '.join(extra)} — exactly the skip markers may drop members", site)
            if ok:
                rep.ok('S3', key + ':predicate', '!is_skipped(member.attrs, target_os) (loop form)')
                rep.ok('S3', key + ':filter-before-parse', 'the member is parsed inside the skip guard')
            continue
        filters = [c for c in calls if c['f'] in FILTERS]
        ok = len(filters) == 1 and filters[0]['f'] == 'filter'
        rep.check(ok, 'S3', key + ':one-filter', f"chain: {'.'.join(names)}", f"{fn_name}: the {fld} list is built through {[c['f'] for c in filters]} — exactly one `filter(!is_skipped)` may drop members (chain: {'.'.join(names)})", site)
        if ok:
            clo = vt.strip(filters[0]['args'][0])
            body = clo.get('body') if isinstance(clo, dict) else None
            b = body
            while isinstance(b, dict) and b.get('k') == 'var':
                b = b['v']
            good = isinstance(b, dict) and b.get('k') == 'op' and b.get('op') == '!' and isinstance(b['args'][0], dict) and vt.strip(b['args'][0]).get('f') == 'is_skipped'
            if good:
                a = vt.strip(b['args'][0])['args']
                good = vt.show(vt.strip(a[0])).endswith('.attrs') and vt.show(vt.strip(a[1])) == 'target_os'
            rep.check(good, 'S3', key + ':predicate', '!is_skipped(member.attrs, target_os)', f"{fn_name}: the {fld} filter is `{vt.show(body)[:100]}`, not !is_skipped(&member.attrs, target_os)", site)
            order = names.index('filter') < names.index('map') if 'map' in names else False
            rep.check(order, 'S3', key + ':filter-before-parse', 'skipped members are never parsed', f"{fn_name}: members are parsed before the skip filter — an unsupported construct under serde(skip) fails the run", site)
    sk = ctx.fn('is_skipped', file='parser.rs')
    site = {'file': sk['file'], 'line': sk['line']}
    sk_value, why_not = pr.bool_result(sk)
    rep.check(sk_value is not None, 'S3', 'is_skipped:no-early-exit', 'single exit, or early `return true/false` under one test (folded into the result)', f"is_skipped returns early ({why_not}; under `{vt.show(next((fr['c'] for fr in (sk['returns'][0]['guard'] if sk['returns'] else []) if fr.get('k') == 'if'), None))[:60]}`): on that path the skip markers are never consulted", site)
    if sk_value is None:
        sk_value = sk['tail']
    # C03 is about the skip markers; --target-os filtering is C13's business.  With accept_target_os ≡ true (no target
    # list) is_skipped must reduce to "some attribute carries the bare `skip` path under serde or typeshare".
    red = no_target(sk_value)
    closed, open_ = pr.lookup_closed(ctx, 'is_skipped')
    want = {('SERDE', 'skip', 'Path'), ('TYPESHARE', 'skip', 'Path')}
    rep.check(closed == want and not open_, 'S3', 'is_skipped:skip-marker', 'bare `skip` under serde or typeshare', f"is_skipped looks for {sorted(closed)} {sorted(map(str, open_))} — expected exactly the bare path `skip` under #[serde(..)] and under #[typeshare(..)]", site)
    lookups = {g['name'] for g in ctx.fns(file='parser.rs') if pr.lookup_summary(ctx, g['name'])}
    extra = [c for c in calls_in(red) if c.get('f') not in ('iter', 'any', 'chain', 'get_meta_items', 'is_ident', 'filter', 'filter_map', 'flat_map', 'map', 'into_iter') and not (c.get('recv') is None and c.get('f') in lookups)]
    ok = isinstance(red, dict) and not extra
    rep.check(ok, 'S3', 'is_skipped:truth-table', 'without a target list: skipped ⇔ a skip marker is present', f"is_skipped (`{vt.show(sk['tail'])[:140]}`) does not reduce to the skip-marker test when no --target-os is given: residual `{vt.show(red)[:100] if isinstance(red, dict) else red}`{' uses ' + str(sorted({c.get('f') for c in extra})) if extra else ''}", site)


def no_target(v):
    """Partially evaluate a boolean value tree under accept_target_os(..) = true."""
    while isinstance(v, dict) and v.get('k') == 'var':
        v = v['v']
    if not isinstance(v, dict):
        return v
    k = v.get('k')
    if k == 'call' and v.get('f') == 'accept_target_os':
        return True
    if k == 'paren':
        return no_target(v.get('v'))
    if k == 'op' and v.get('op') == '!':
        x = no_target(v['args'][0])
        return (not x) if isinstance(x, bool) else dict(v, args=[x])
    if k == 'op' and v.get('op') in ('||', '&&'):
        xs = [no_target(x) for x in v['args']]
        dom = v['op'] == '||'
        if any(x is dom for x in xs):
            return dom
        rest = [x for x in xs if not isinstance(x, bool)]
        if not rest:
            return not dom
        return rest[0] if len(rest) == 1 else dict(v, args=rest)
    if k == 'cond':
        tt, ee = no_target(v.get('t')), no_target(v.get('e'))
        if isinstance(tt, bool) and isinstance(ee, bool) and tt == ee:
            return tt
        cv = v.get('c')
        while isinstance(cv, dict) and cv.get('k') == 'var':
            cv = cv['v']
        # `if attr.path().is_ident("cfg") { <target-os part> } else { <marker part> }`: an attribute named neither serde nor
        # typeshare can never carry a skip marker, so with the target-os part gone the test only selects which part applies
        ns_test = isinstance(cv, dict) and cv.get('k') == 'call' and cv.get('f') == 'is_ident' and isinstance(vt.strip(cv.get('recv')), dict) and vt.strip(cv['recv']).get('f') == 'path' \
            and cv.get('args') and isinstance(vt.strip(cv['args'][0]), dict) and vt.strip(cv['args'][0]).get('k') == 'lit' and vt.strip(cv['args'][0]).get('v') not in ('serde', 'typeshare')
        if ns_test and tt is False:
            return ee
        if ns_test and ee is False and not isinstance(tt, bool):
            return v
        return dict(v, t=tt, e=ee) if not (isinstance(tt, bool) or isinstance(ee, bool)) else v
    if k == 'call' and v.get('f') in ('any', 'all') and v.get('args') and isinstance(v['args'][0], dict) and v['args'][0].get('k') == 'closure':
        body = no_target(v['args'][0].get('body'))
        if isinstance(body, bool):
            # any(|_| false) = false ; all(|_| true) = true ; the other two depend on emptiness
            if (v['f'] == 'any' and body is False) or (v['f'] == 'all' and body is True):
                return body
            return v
        return dict(v, args=[dict(v['args'][0], body=body)] + v['args'][1:])
    return v


def calls_in(v, out=None):
    out = [] if out is None else out
    if isinstance(v, dict):
        if v.get('k') == 'call':
            out.append(v)
        for x in v.values():
            calls_in(x, out)
    elif isinstance(v, list):
        for x in v:
            calls_in(x, out)
    return out


def s4(ctx, rep):
    pd = ctx.item('struct', 'ParsedData')
    aa = ctx.fn('ParsedData::add_assign', file='parser.rs')
    ie = ctx.fn('ParsedData::is_empty', file='parser.rs')
    body_calls = aa['calls']
    for fld in pd['fields']:
        t = fld['ty']
        site = {'file': aa['file'], 'line': aa['line']}
        if t.startswith('Vec<'):
            ok = any(c.get('f') in ('append', 'extend') and vt.show(c.get('recv')).endswith('self.' + fld['name']) and fld['name'] in vt.show(c['args'][0]) for c in body_calls)
            rep.check(ok, 'S4', f"add_assign:{fld['name']}", 'appended', f"AddAssign for ParsedData does not merge `{fld['name']}`: items of that kind from all but one file vanish", site)
            if fld['name'] != 'errors' or True:
                ok = fld['name'] in vt.show(ie['tail'])
                rep.check(ok, 'S4', f"is_empty:{fld['name']}", 'counted', f"ParsedData::is_empty ignores `{fld['name']}`: a file containing only such items is treated as empty and dropped", {'file': ie['file'], 'line': ie['line']})
        elif t.startswith('HashSet<') or t.startswith('BTreeSet<'):
            ok = any(c.get('f') == 'extend' and vt.show(c.get('recv')).endswith('self.' + fld['name']) for c in body_calls)
            rep.check(ok, 'S4', f"add_assign:{fld['name']}", 'extended', f"AddAssign for ParsedData does not merge `{fld['name']}`", site)


def s5(ctx, rep):
    vecs = ['aliases', 'structs', 'enums', 'consts']
    for qual, file in (('Language::generate_types', 'language/mod.rs'), ('Go::generate_types', 'language/go.rs'), ('Python::generate_types', 'language/python.rs'), ('Scala::generate_types', 'language/scala.rs')):
        d = ctx.fnx(qual, file=file)
        site = {'file': d['file'], 'line': d['line']}
        data = next(p['name'] for p in d['params'] if p.get('ty') == 'ParsedData')
        text = json.dumps([c for c in d['calls']]) + json.dumps(d['loops']) + json.dumps(d['lets'])
        for v in vecs:
            used = (f'"{v}"' in text)
            rep.check(used, 'S5', f'{qual}:{v}', 'consumed', f"{qual} never reads `{data}.{v}`: annotated items of that kind are silently omitted from this backend's output (exit 0, no diagnostic)", site)
        writes = {c['f'] for c in d['calls'] if c.get('f', '').startswith('write_')}
        for w, v in (('write_type_alias', 'aliases'), ('write_struct', 'structs'), ('write_enum', 'enums'), ('write_const', 'consts')):
            rep.check(w in writes, 'S5', f'{qual}:{w}', 'dispatched', f"{qual} never calls {w}: `{v}` are not generated by this driver", site)


def s6(ctx, rep, T):
    d0 = ctx.fn('Language::write_types_for_anonymous_structs')
    d = ctx.fnx('Language::write_types_for_anonymous_structs', file='language/mod.rs')
    site = {'file': d['file'], 'line': d['line']}
    ms = [m for m in d0['matches'] if any(v.startswith('RustEnumVariant::') for a in m['arms'] for v in a['variants'])]

    def selects_struct_variant(fr):
        """`let RustEnumVariant::AnonymousStruct { .. } = v else { continue }` / `if let … = v { … }`: the frame under which only
        struct variants get here"""
        c = vt.unvar(fr.get('c')) if fr.get('k') == 'if' else None
        if isinstance(c, dict) and c.get('k') == 'iflet' and [str(x).split('::')[-1] for x in c.get('variants', [])] == ['AnonymousStruct']:
            return (not fr.get('neg')) if (fr.get('let_else_rest') or not (fr.get('let_else') or fr.get('early_exit'))) else bool(fr.get('neg'))
        return fr.get('k') == 'arm' and [str(x).split('::')[-1] for x in fr.get('variants', [])] == ['AnonymousStruct'] and fr.get('guard') is None
    ws = [c for c in d['calls'] if c.get('f') == 'write_struct']
    if ms:
        arm = [a for a in ms[0]['arms'] if 'RustEnumVariant::AnonymousStruct' in a['variants']]
        ok = bool(arm) and arm[0]['guard'] is None and 'Some' in arm[0]['body']
        why = vt.show(arm[0]['guard'])[:60] if arm and arm[0]['guard'] else ''
    else:
        # no selecting match: the selection is a frame around the write (let-else / if-let on the variant)
        sel = [[fr for fr in c['guard'] if selects_struct_variant(fr)] for c in ws]
        if not ws or not all(sel):
            raise core.Incomplete('write_types_for_anonymous_structs: neither a match selecting RustEnumVariant::AnonymousStruct nor a let-else / if-let selection around write_struct found')
        ok, why = True, ''
    rep.check(ok, 'S6', 'helper-structs:every-struct-variant', 'every struct variant yields a helper struct', f"write_types_for_anonymous_structs selects struct variants under an extra condition (`{why}`): the backends still reference `<Enum><Variant>Inner` for the variants it skips, but the type is never defined", site)
    loops = [l for l in d['loops'] if l.get('kind') == 'for' and not l.get('via')]
    for l in loops:
        chain = [c.get('f') for c in vt.calls_in(l['over'])]
        bad = [c for c in chain if c in ('filter', 'skip', 'take', 'step_by', 'skip_while', 'take_while', 'rev')]
        rep.check(not bad, 'S6', 'helper-structs:loop-unfiltered', 'only the AnonymousStruct selection', f'write_types_for_anonymous_structs iterates variants through {bad}', {'file': d['file'], 'line': l['line']})
    conds = [fr for c in ws for fr in c['guard'] if fr.get('k') == 'if' and not selects_struct_variant(fr)]
    rep.check(bool(ws) and not conds, 'S6', 'helper-structs:written-unconditionally', 'write_struct called for each', 'write_types_for_anonymous_structs writes the helper struct only under a condition', site)
    # member loops in printers
    n = 0
    for be, (struct, file) in emit.BACKENDS.items():
        for g in [x for x in ctx.astq['functions'] if x['file'].endswith(file) and x['name'].startswith(('write_struct', 'write_enum', 'write_algebraic'))]:
            for l in g['loops']:
                if l.get('kind') == 'for' and re.search(r'\.(fields|variants)', vt.show(l['over'])):
                    n += 1
                    chain = [c.get('f') for c in vt.calls_in(l['over'])]
                    bad = [c for c in chain if c in FILTERS]
                    rep.check(not bad, 'S6', f"{be}:{g['name']}:member-loop:{vt.show(l['over'])[-14:]}", 'unfiltered', f"{be}: {g['qual']} iterates members through {bad}: some fields/variants are not generated", {'file': g['file'], 'line': l['line']})
            for c in g['calls']:
                if c.get('f') in ('try_for_each', 'for_each') and isinstance(c.get('recv'), dict) and re.search(r'\.(fields|variants)', vt.show(c['recv'])):
                    n += 1
                    chain = [x.get('f') for x in vt.calls_in(c['recv'])]
                    bad = [x for x in chain if x in FILTERS]
                    rep.check(not bad, 'S6', f"{be}:{g['name']}:member-iter:{vt.show(c['recv'])[-14:]}", 'unfiltered', f"{be}: {g['qual']} iterates members through {bad}", {'file': g['file'], 'line': c.get('line')})
    rep.floor('S6', 'member loops in printers', n, 12)
