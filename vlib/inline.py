"""Inlined views of astq function facts.

`view(ctx, f)` returns a copy of the facts of function `f` in which every call to a *local helper* — a function of
the same file that no rule knows by name — is expanded: the helper's own facts (calls, emission sites, struct
literals, matches, assignments, loops, lets, panics, index expressions) are added to the caller with the helper's
parameters replaced by the call's arguments and the call's path guards prefixed, and in every value tree the call
is replaced by the helper's result value.  Rules anchored on a named function therefore give the same verdict
whether a piece of that function's logic is written inline or has been moved into a helper (the most common
behaviour-preserving refactoring), without the rule having to know the helper.

Functions the rules know by name (ANCHORS: every identifier quoted in the rule sources) and methods of the
`Language` trait are never expanded — they are the vocabulary the rules are written in."""
import copy
import glob
import os
import re

from . import vt

_HERE = os.path.dirname(os.path.abspath(__file__))
LISTS = ('calls', 'sites', 'structs', 'matches', 'assigns', 'loops', 'lets', 'panics', 'indexes')


def _anchors():
    names = set()
    for p in glob.glob(os.path.join(_HERE, '*.py')) + glob.glob(os.path.join(_HERE, 'rules', '*.py')):
        if os.path.basename(p) == 'inline.py':
            continue
        for m in re.findall(r'''['"]([A-Za-z_][A-Za-z0-9_]*(?:::[A-Za-z_][A-Za-z0-9_]*)*)['"]''', open(p).read()):
            names.add(m.split('::')[-1])
    return names


def _known_functions():
    import json
    try:
        return set(json.load(open(os.path.join(os.path.dirname(_HERE), 'rules', 'anchor_names.json')))['names'])
    except Exception:
        return None


_KNOWN = _known_functions()
ANCHORS = _anchors() if _KNOWN is None else (_anchors() & _KNOWN)


def _anchor_files():
    import json
    try:
        return json.load(open(os.path.join(os.path.dirname(_HERE), 'rules', 'anchor_names.json'))).get('files') or {}
    except Exception:
        return {}


ANCHOR_FILES = _anchor_files()


def is_anchor(g):
    """A function the rules know by name (never inlined): its name is quoted in a rule source, existed when the rules were
    written, and it lives in a file where a function of that name lived then."""
    nm = g['name'].split('::')[-1]
    if nm not in ANCHORS:
        return False
    fl = ANCHOR_FILES.get(nm)
    return (not fl) or g.get('file') in fl


def _json_keys(ctx):
    """Dictionary keys of the astq fact format (they are quoted all over the rule sources but are not function names)."""
    keys = set()
    todo = [ctx.astq['functions'][:40]]
    n = 0
    while todo and n < 200000:
        x = todo.pop()
        n += 1
        if isinstance(x, dict):
            keys.update(x.keys())
            todo.extend(x.values())
        elif isinstance(x, list):
            todo.extend(x)
    return keys


def _index(ctx):
    ix = getattr(ctx, '_inline_index', None)
    if ix is None:
        global ANCHORS
        ANCHORS = ANCHORS - _json_keys(ctx)
        ix = {}
        for f in ctx.astq['functions']:
            ix.setdefault((f['file'], f['name'].split('::')[-1]), []).append(f)
        ctx._inline_index = ix
        ctx._inline_memo = {}
    return ix


def resolve(ctx, f, c):
    """Facts of the local function a call (fact or value node) inside `f` refers to, or None."""
    name = str(c.get('f') or '')
    base = name.replace(' ', '').split('::')[-1]
    cands = _index(ctx).get((f['file'], base), [])
    recv = c.get('recv')
    if not cands and recv is None:
        return None
    if recv is None:
        qual = name.replace(' ', '').split('::')[:-1]
        if qual and qual[-1] not in ('Self', 'self', 'crate', 'super') and qual[-1] != (f.get('self_ty') or ''):
            cs = [g for g in cands if (g.get('self_ty') or '') == qual[-1]]
        elif qual:
            cs = [g for g in cands if (g.get('self_ty') or '') == (f.get('self_ty') or '')]
        else:
            cs = [g for g in cands if not g.get('self_ty') or not any(p['name'] == 'self' for p in g['params'])]
            cs = [g for g in cs if not g.get('self_ty')] or cs
        # `Type::method(value, ..)`: a method called by path takes its receiver as the first argument
        cs = [g for g in cs if len([p for p in g['params'] if p['name'] != 'self']) == len(c.get('args', []))
              or (qual and any(p['name'] == 'self' for p in g['params']) and len(g['params']) == len(c.get('args', [])))]
    else:
        r = vt.unvar(recv)
        if not (isinstance(r, dict) and r.get('k') == 'atom' and r.get('root') == 'self' and not r.get('path')):
            # a method of a workspace type called on a value of that type (e.g. a new accessor on an IR struct)
            t = str((r or {}).get('ty') or '').replace('&', '').replace('mut ', '').strip().split('<')[0] if isinstance(r, dict) else ''
            if (not t or t == 'Self') and isinstance(r, dict) and r.get('k') == 'call' and r.get('recv') is None and '::' in str(r.get('f', '')):
                # `Type::constructor(..).method(..)`: the receiver is a value of `Type` (constructors return Self)
                q = str(r['f']).replace(' ', '').split('::')[-2]
                if q == 'Self':
                    q = (f.get('self_ty') or '').split('<')[0]
                if any((g.get('self_ty') or '').split('<')[0] == q for g in ctx.astq['functions']):
                    t = q
            if not t or t in ('String', 'str', 'Vec', 'Option', 'bool', 'Self'):
                return None
            ms = [g for g in ctx.astq['functions'] if g['name'].split('::')[-1] == base and (g.get('self_ty') or '').split('<')[0] == t
                  and any(p['name'] == 'self' for p in g['params']) and len(g['params']) - 1 == len(c.get('args', [])) and not g.get('trait')]
            return ms[0] if len(ms) == 1 else None
        cs = [g for g in cands if any(p['name'] == 'self' for p in g['params']) and (g.get('self_ty') or '') == (f.get('self_ty') or '')
              and len(g['params']) - 1 == len(c.get('args', []))]
    return cs[0] if len(cs) == 1 else None


FN_VALUE_ADAPTORS = ('and_then', 'map', 'filter_map', 'find_map', 'flat_map', 'map_or', 'map_or_else', 'is_some_and', 'is_none_or', 'filter', 'then', 'unwrap_or_else', 'or_else')


def resolve_mir(ctx, f, c):
    """A method call the syntactic resolver cannot type (`x.m()` where m is a method of a workspace trait implemented for
    several types): rustc's resolution of the call written at that source position names the impl."""
    if c.get('recv') is None or c.get('line') is None:
        return None
    base = str(c.get('f') or '').split('::')[-1]
    ix = getattr(ctx, '_inline_mir_ix', None)
    if ix is None:
        ix = {}
        for cr in ctx.mirq()['crates'].values():
            for b in cr['bodies']:
                for mc in b.get('calls', []):
                    if mc.get('local') and not mc.get('exp') and mc.get('ckey'):
                        ix.setdefault((mc['file'], mc['line'], str(mc.get('declared') or '').split('::')[-1]), set()).add(mc['ckey'])
        ctx._inline_mir_ix = ix
        ctx._inline_mir_bodies = {b['key']: b for cr in ctx.mirq()['crates'].values() for b in cr['bodies']}
    ks = ix.get((f['file'], c['line'], base), set())
    if len(ks) != 1:
        return None
    b = ctx._inline_mir_bodies.get(next(iter(ks)))
    if b is None:
        return None
    gs = [g for g in ctx.astq['functions'] if g['file'] == b['file'] and g['line'] == b['line'] and g['name'].split('::')[-1] == base]
    return gs[0] if len(gs) == 1 else None


def expandable(g, stop=()):
    nm = g['name'].split('::')[-1]
    if is_anchor(g) or nm in stop:
        return False
    if str(g.get('trait') or '').startswith('Language'):
        return False
    # string -> string helpers are the business of transforms.summarize (escapers, case mappers, keyword wrappers):
    # they stay opaque named transforms
    ptys = [str(p.get('ty') or '') for p in g['params'] if p['name'] != 'self']
    if ptys and all(t in ('str', 'String', 'char', 'Cow<str>', '&str') for t in ptys) and str(g.get('ret') or '').replace(' ', '').lstrip('&') in ('String', 'str', "Cow<'_,str>", 'Cow<str>', "Cow<'a,str>"):
        return False
    return True


def _env(g, c):
    params = [p['name'] for p in g['params'] if p['name'] != 'self']
    has_self = any(p['name'] == 'self' for p in g['params'])
    args = list(c.get('args', []))
    if has_self and c.get('recv') is None and len(args) == len(params) + 1:
        env = dict(zip(params, args[1:]))      # `Type::method(value, ..)`
        env['self'] = args[0]
        return env
    env = dict(zip(params, args))
    if has_self and c.get('recv') is not None:
        env['self'] = c['recv']
    return env


def _subst(v, env):
    from .emit import subst
    return subst(v, env)


def _subst_closure_params(it, cenv):
    """Inside a closure literal its parameters appear as local variables / parameter atoms: replace them by the values the
    helper passes when it calls the closure."""
    def rw(v, d=0):
        if isinstance(v, list):
            return [rw(x, d + 1) for x in v]
        if not isinstance(v, dict) or d > 80:
            return v
        if v.get('k') == 'var' and v.get('name') in cenv and (v.get('v') is None or (isinstance(v.get('v'), dict) and v['v'].get('k') in ('elem', 'atom', 'param', None))):
            return cenv[v['name']]
        if v.get('k') == 'atom' and v.get('root') in cenv and not v.get('path'):
            return cenv[v['root']]
        return {k: (rw(x, d + 1) if isinstance(x, (dict, list)) else x) for k, x in v.items()}
    return rw(it)


def _nnf(v, pos):
    """Negation normal form of a boolean value tree over !, &&, || and boolean literals (other nodes are atoms)."""
    u = vt.unvar(v)
    if isinstance(u, dict) and u.get('k') == 'paren':
        return _nnf(u.get('v'), pos)
    if isinstance(u, dict) and u.get('k') == 'lit' and isinstance(u.get('v'), bool):
        return dict(u, v=(u['v'] if pos else not u['v']))
    if isinstance(u, dict) and u.get('k') == 'op' and u.get('op') == '!' and len(u.get('args', [])) == 1:
        return _nnf(u['args'][0], not pos)
    if isinstance(u, dict) and u.get('k') == 'op' and u.get('op') in ('&&', '||') and len(u.get('args', [])) == 2:
        op = u['op'] if pos else ('||' if u['op'] == '&&' else '&&')
        a, b = _nnf(u['args'][0], pos), _nnf(u['args'][1], pos)
        for x, y in ((a, b), (b, a)):
            xv = vt.unvar(x)
            if isinstance(xv, dict) and xv.get('k') == 'lit' and isinstance(xv.get('v'), bool):
                if op == '&&':
                    return y if xv['v'] else xv
                return xv if xv['v'] else y
        return {'k': 'op', 'op': op, 'args': [a, b], 'ty': 'bool'}
    return v if pos else {'k': 'op', 'op': '!', 'args': [v], 'ty': 'bool'}


def _result(G):
    """Result value of a function: its tail, or — with early returns — the alternatives `return`ed values + tail.  The guard
    frames of each early return are kept next to the alternatives (`alt_guards`), so that a specialisation of the result
    (vlib/special.py) can tell which alternative is taken."""
    rets = [r for r in G.get('returns', []) if r.get('v') is not None]
    tail = G.get('tail')
    if not rets:
        return tail
    if str(G.get('ret') or '').strip() == 'bool' and tail is not None:
        # a predicate with early `return true/false`: one boolean formula (`if c { return false } rest` ≡ ¬c ∧ rest), with the
        # negations pushed inwards so that `if !a || !b { return false } true` reads a ∧ b
        from .parser_rules import bool_result
        formula, _why = bool_result(G)
        if formula is not None:
            return _nnf(formula, True)
    return {'k': 'alt', 'alts': [r['v'] for r in rets] + ([tail] if tail is not None else []),
            'alt_guards': [r.get('guard', []) for r in rets] + ([[]] if tail is not None else []),
            'ty': (tail or {}).get('ty') if isinstance(tail, dict) else None}


def view(ctx, f, depth=3, stop=(), _stack=(), force=(), mir=False):
    """Inlined view of f (see module doc).  Memoised per (function, stop)."""
    _index(ctx)
    key = (f['file'], f['qual'], f.get('line'), tuple(sorted(stop)), depth, tuple(sorted(force)), mir)
    memo = ctx._inline_memo
    if key in memo:
        return memo[key]
    out = dict(f)
    for L in LISTS:
        out[L] = list(f.get(L, []))
    out['inlined'] = []
    if depth > 0:
        subs = {}

        def sub_view(g):
            k2 = (g['qual'], g.get('line'))
            if k2 not in subs:
                subs[k2] = view(ctx, g, depth - 1, stop, _stack + ((f['qual'], f.get('line')),), force, mir)
            return subs[k2]

        def can(c):
            g = resolve(ctx, f, c)
            if g is None and mir:
                g = resolve_mir(ctx, f, c)
            if g is None or not (expandable(g, stop) or g['name'].split('::')[-1] in force) or (g['qual'], g.get('line')) == (f['qual'], f.get('line')) or (g['qual'], g.get('line')) in _stack:
                return None
            return g

        # 1. facts of expanded callees
        for c in f.get('calls', []):
            g = can(c)
            if g is None:
                continue
            G = sub_view(g)
            env = _env(g, c)
            out['inlined'].append(g['qual'])
            for L in LISTS:
                for it in G.get(L, []):
                    it2 = _subst(it, env)
                    it2 = dict(it2, guard=list(c.get('guard', [])) + list(it2.get('guard', [])), via=it.get('via') or g['name'], via_line=c.get('line'))
                    out[L].append(it2)
            # a closure literal handed to the helper runs where the helper calls its parameter: the frames that guard that
            # call inside the helper (`if seen.insert(name) { visit(seen) }`) also guard everything written in the closure
            params_g = [p_['name'] for p_ in g['params'] if p_['name'] != 'self']
            for pn, a in zip(params_g, c.get('args', [])):
                clo = vt.strip(a)
                if not (isinstance(clo, dict) and clo.get('k') == 'closure' and clo.get('id') is not None):
                    continue
                inner = [x for x in G.get('calls', []) if x.get('f') == pn and x.get('recv') is None]
                if len(inner) != 1:
                    continue
                extra = [fr for fr in _subst(inner[0].get('guard', []), env) if fr.get('k') in ('if', 'arm', 'for', 'while', 'loop')]
                # … and the closure's parameters are the arguments of that call
                cparams = [(p_.get('names') or ['_'])[0] for p_ in clo.get('params', [])]
                cargs = _subst(inner[0].get('args', []), env)
                cenv = {n: a_ for n, a_ in zip(cparams, cargs) if n and n != '_'}
                if not extra and not cenv:
                    continue
                for L in LISTS:
                    new_l = []
                    for it in out[L]:
                        gd = it.get('guard', []) if isinstance(it, dict) else []
                        ix = next((i for i, fr in enumerate(gd) if fr.get('k') == 'closure' and fr.get('id') == clo.get('id')), None)
                        if ix is not None and not it.get('_clo_' + str(clo.get('id'))):
                            if cenv:
                                it = _subst_closure_params(it, cenv)
                            it = dict(it, guard=list(gd[:ix]) + [dict(fr, via_closure_param=pn) for fr in extra] + list(it.get('guard', gd)[ix:]))
                            it['_clo_' + str(clo.get('id'))] = True
                        new_l.append(it)
                    out[L] = new_l
            # early returns of the helper that propagate an error through `?` at the call site are exits of the caller too
            if c.get('parent') == 'try':
                for r in G.get('returns', []):
                    rv = vt.unvar(r.get('v')) if isinstance(r.get('v'), dict) else None
                    if isinstance(rv, dict) and ((rv.get('k') == 'call' and rv.get('recv') is None and str(rv.get('f')) in ('Ok', 'Some')) or rv.get('k') == 'some'):
                        continue    # `return Ok(x)` inside the helper: `?` unwraps it, the caller goes on
                    r2 = _subst(r, env)
                    out.setdefault('returns', [])
                    out['returns'] = list(out['returns']) + [dict(r2, guard=list(c.get('guard', [])) + list(r2.get('guard', [])), via=g['name'])]

        # 2. value trees: replace the call by the helper's result
        def rw(v, d=0):
            if isinstance(v, list):
                return [rw(x, d) for x in v]
            if not isinstance(v, dict) or d > 60:
                return v
            # resolve the callee on the node as written (its receiver still carries its type; once the receiver itself has been
            # replaced by an expanded result the type is gone), then rewrite the children
            # `opt.and_then(helper)` / `it.map(helper)`: a local function handed over by name is the closure `|x| helper(x)`
            if v.get('k') == 'call' and v.get('recv') is not None and v.get('f') in FN_VALUE_ADAPTORS and v.get('args'):
                new_args, changed = [], False
                for a in v['args']:
                    a0 = vt.unvar(a)
                    if isinstance(a0, dict) and a0.get('k') == 'path' and a0.get('text'):
                        elem = {'k': 'elem', 'of': v['recv'], 'param': '__x', 'pos': 0, 'via': v.get('f')}
                        probe = {'k': 'call', 'f': str(a0['text']).replace(' ', ''), 'recv': None, 'args': [elem], 'line': v.get('line')}
                        if can(probe) is not None:
                            new_args.append({'k': 'closure', 'id': None, 'line': v.get('line'), 'params': [{'names': ['__x'], 'ty': None}], 'body': probe})
                            changed = True
                            continue
                    new_args.append(a)
                if changed:
                    v = dict(v, args=new_args)
            g0 = can(v) if v.get('k') == 'call' else None
            v2 = {k: (rw(x, d + 1) if isinstance(x, (dict, list)) else x) for k, x in v.items()}
            if v2.get('k') == 'call':
                g = g0 if g0 is not None else can(v2)
                if g is not None:
                    G = sub_view(g)
                    res = _result(G)
                    if res is not None:
                        return {'k': 'var', 'name': g['name'] + '()', 'ty': v2.get('ty') or (res.get('ty') if isinstance(res, dict) else None), 'v': _subst(res, _env(g, v2)), 'inlined': g['name']}
            return v2

        fn_values = any(c.get('f') in FN_VALUE_ADAPTORS and any(isinstance(vt.unvar(a), dict) and vt.unvar(a).get('k') == 'path' for a in c.get('args', [])) for c in f.get('calls', []))
        if out['inlined'] or fn_values:
            for L in LISTS:
                out[L] = [rw(it) for it in out[L]]
            out['tail'] = rw(f.get('tail'))
            out['returns'] = [rw(r) for r in out.get('returns', [])]
    unroll(out)
    for L in LISTS:
        out[L] = [option_lists(it) for it in out.get(L, [])]
    if out.get('tail') is not None:
        out['tail'] = option_lists(out['tail'])
    out['returns'] = [option_lists(r) for r in out.get('returns', [])]
    memo[key] = out
    return out


def _table(v):
    """Items of a small literal table (array literal, possibly behind a const name / borrow / `.iter()`), else None."""
    v = vt.strip(v)
    seen = 0
    while isinstance(v, dict) and seen < 10:
        seen += 1
        if v.get('k') in ('ref', 'paren'):
            v = vt.strip(v.get('v'))
        elif v.get('k') == 'call' and v.get('f') in ('iter', 'into_iter', 'as_slice', 'to_vec', 'copied', 'cloned') and v.get('recv') is not None:
            v = vt.strip(v['recv'])
        else:
            break
    if isinstance(v, dict) and v.get('k') == 'array' and 0 < len(v.get('items', [])) <= 16:
        return v['items']
    return None


def _project(v):
    """tuple.N → N-th item, after substitution."""
    if isinstance(v, list):
        return [_project(x) for x in v]
    if not isinstance(v, dict):
        return v
    v = {k: (_project(x) if isinstance(x, (dict, list)) else x) for k, x in v.items()}
    if v.get('k') == 'field' and str(v.get('name', '')).isdigit():
        b = vt.unvar(v.get('base'))
        if isinstance(b, dict) and b.get('k') == 'tuple' and int(v['name']) < len(b.get('items', [])):
            return b['items'][int(v['name'])]
    if v.get('k') == 'fmt' and isinstance(v.get('parts'), list):
        # a hole filled with a string literal is literal text
        parts = []
        for p in v['parts']:
            h = vt.unvar(p.get('hole')) if isinstance(p, dict) and 'hole' in p else None
            if isinstance(h, dict) and h.get('k') == 'lit' and h.get('t') in ('str', 'char') and not p.get('spec'):
                p = {'lit': str(h.get('v'))}
            if parts and 'lit' in p and 'lit' in parts[-1] and len(parts[-1]) == 1 and len(p) == 1:
                parts[-1] = {'lit': parts[-1]['lit'] + p['lit']}
            else:
                parts.append(p)
        v['parts'] = parts
    return v


def _opt_item(x):
    """(condition or None, value) when x is an Option-valued expression whose presence is one boolean: `c.then_some(v)` /
    `c.then(|| v)` (both evaluated by astq as `if c { Some(v) } else { None }`), `Some(v)`, and `<such>.map(|a| body)`;
    ('drop', None) for a literal None; None when it cannot be read that way."""
    x = vt.unvar(x)
    if not isinstance(x, dict):
        return None
    if x.get('k') == 'some':
        return (None, x.get('v'))
    if x.get('k') == 'none':
        return ('drop', None)
    if x.get('k') == 'cond':
        t, e = vt.unvar(x.get('t')), vt.unvar(x.get('e'))
        if isinstance(t, dict) and t.get('k') == 'some' and isinstance(e, dict) and e.get('k') == 'none':
            return (x.get('c'), t.get('v'))
        return None
    if x.get('k') == 'call' and x.get('f') == 'map' and x.get('recv') is not None and len(x.get('args', [])) == 1:
        inner = _opt_item(x['recv'])
        clo = vt.unvar(x['args'][0])
        if inner is None or inner[0] == 'drop' or not (isinstance(clo, dict) and clo.get('k') == 'closure' and isinstance(clo.get('body'), dict)):
            return inner if inner and inner[0] == 'drop' else None
        rkey = vt.ckey(x['recv'])

        def repl(v, d=0):
            if isinstance(v, list):
                return [repl(y, d + 1) for y in v]
            if not isinstance(v, dict) or d > 60:
                return v
            if v.get('k') == 'elem' and vt.ckey(v.get('of')) == rkey:
                return inner[1]
            return {k: (repl(y, d + 1) if isinstance(y, (dict, list)) else y) for k, y in v.items()}
        return (inner[0], repl(clo['body']))
    return None


def option_lists(v, d=0):
    """`[opt_a, opt_b, …].into_iter().flatten().collect()` is the list that holds a when its condition holds, then b when its
    condition holds …: rewritten into the form the evaluator gives to `let mut v = vec![]; if ca { v.push(a) } if cb { v.push(b) }`
    (a `vecof` with guarded items), so that both spellings are one value to the rules."""
    if isinstance(v, list):
        return [option_lists(x, d + 1) for x in v]
    if not isinstance(v, dict) or d > 80:
        return v
    v = {k: (option_lists(x, d + 1) if isinstance(x, (dict, list)) else x) for k, x in v.items()}
    if v.get('k') == 'call' and v.get('f') in ('collect', 'collect_vec', 'join') and v.get('recv') is not None:
        # `opt_a.into_iter().chain(opt_b)[.chain(opt_c)]` — the same list, spelled as a chain of Option iterators
        ops, cur = [], vt.unvar(v['recv'])
        while isinstance(cur, dict) and cur.get('k') == 'call' and cur.get('f') == 'chain' and cur.get('recv') is not None and len(cur.get('args', [])) == 1:
            ops.append(cur['args'][0])
            cur = vt.unvar(cur['recv'])
        if ops:
            ops.append(cur)
            ops.reverse()

            def strip_iter(x):
                x = vt.unvar(x)
                while isinstance(x, dict) and x.get('k') == 'call' and x.get('f') in ('into_iter', 'iter') and x.get('recv') is not None and not x.get('args'):
                    x = vt.unvar(x['recv'])
                return x
            items = [_opt_item(strip_iter(x)) for x in ops]
            if all(i is not None for i in items):
                lst = {'k': 'vecof', 'ty': 'Vec<String>', 'from_option_list': True,
                       'items': [{'guard': ([{'k': 'if', 'c': c, 'neg': False, 'line': v.get('line')}] if c is not None else []), 'v': val, 'how': 'push', 'line': v.get('line')} for c, val in items if c != 'drop']}
                return lst if v.get('f') != 'join' else dict(v, recv=lst)
    if v.get('k') == 'call' and v.get('f') in ('collect', 'collect_vec') and v.get('recv') is not None:
        fl = vt.unvar(v['recv'])
        if isinstance(fl, dict) and fl.get('k') == 'call' and fl.get('f') == 'flatten' and fl.get('recv') is not None:
            src = vt.unvar(fl['recv'])
            while isinstance(src, dict) and src.get('k') == 'call' and src.get('f') in ('into_iter', 'iter') and src.get('recv') is not None:
                src = vt.unvar(src['recv'])
            if isinstance(src, dict) and src.get('k') in ('array', 'tuple') and src.get('items'):
                items = [_opt_item(x) for x in src['items']]
                if all(i is not None for i in items):
                    return {'k': 'vecof', 'ty': v.get('ty') or 'Vec<String>', 'from_option_list': True,
                            'items': [{'guard': ([{'k': 'if', 'c': c, 'neg': False, 'line': v.get('line')}] if c is not None else []), 'v': val, 'how': 'push', 'line': v.get('line')} for c, val in items if c != 'drop']}
    return v


def unroll(out):
    """A loop over a small literal table is the same program as its body repeated per row: facts recorded under such a
    `for` frame are replaced by one copy per row, with the loop element replaced by the row (data-driven emission and
    a sequence of literal statements then look alike to the rules)."""
    for L in LISTS:
        new = []
        for it in out.get(L, []):
            frames = it.get('guard', []) if isinstance(it, dict) else []
            idx = next((i for i, fr in enumerate(frames) if fr.get('k') == 'for' and _table(fr.get('over')) is not None), None)
            if idx is None:
                new.append(it)
                continue
            fr = frames[idx]
            rows = _table(fr['over'])
            okey = vt.ckey(fr['over'])

            def repl(v, row):
                if isinstance(v, list):
                    return [repl(x, row) for x in v]
                if not isinstance(v, dict):
                    return v
                if v.get('k') == 'elem' and vt.ckey(v.get('of')) == okey:
                    return row
                return {k: (repl(x, row) if isinstance(x, (dict, list)) else x) for k, x in v.items()}
            for r_i, row in enumerate(rows):
                it2 = dict(it, guard=frames[:idx] + frames[idx + 1:])
                it2 = _project(repl(it2, row))
                it2['unrolled'] = r_i
                new.append(it2)
        out[L] = new


def file_views(ctx, file_suffix, stop=()):
    """Inlined views of the functions of one file, as a partition: a local helper that is expanded into (all of) its
    callers is not listed on its own — its facts are seen once per caller, specialised to that caller's arguments."""
    fns = [g for g in ctx.astq['functions'] if g['file'].endswith(file_suffix)]
    views = [view(ctx, g, stop=tuple(stop)) for g in fns]
    absorbed = set()
    for v in views:
        absorbed.update(v['inlined'])
    return [v for v in views if v['qual'] not in absorbed]
