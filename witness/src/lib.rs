//! Type-level witnesses for C18 (and a compile-pass witness for C19). Nothing here is executed except rustc:
//! every block is `compile_fail,E0xxx` or `no_run`. Each failing witness has a compiling twin that differs only
//! by the offending line, so a witness whose path is merely wrong cannot pass silently.

/// The tuple constructor is private: client code cannot build an out-of-range value directly.
/// ```compile_fail,E0423
/// let _v = typeshare::U53(u64::MAX);
/// ```
/// twin:
/// ```no_run
/// use std::convert::TryFrom;
/// let _v = typeshare::U53::try_from(1u64);
/// ```
pub struct U53ConstructorPrivate;

/// ```compile_fail,E0423
/// let _v = typeshare::I54(i64::MIN);
/// ```
/// twin:
/// ```no_run
/// use std::convert::TryFrom;
/// let _v = typeshare::I54::try_from(1i64);
/// ```
pub struct I54ConstructorPrivate;

/// There is no infallible conversion from the wide integer.
/// ```compile_fail,E0277
/// let _v: typeshare::U53 = 5u64.into();
/// ```
/// twin (a 32-bit source widens losslessly):
/// ```no_run
/// let _v: typeshare::U53 = 5u32.into();
/// ```
pub struct U53NoInfallibleFromU64;

/// ```compile_fail,E0277
/// let _v: typeshare::I54 = 5i64.into();
/// ```
/// twin:
/// ```no_run
/// let _v: typeshare::I54 = 5i32.into();
/// ```
pub struct I54NoInfallibleFromI64;

/// The wrapped integer cannot be reached (and so not mutated) from outside.
/// ```compile_fail,E0616
/// let v = typeshare::U53::from(1u32);
/// let _x = v.0;
/// ```
/// twin:
/// ```no_run
/// let v = typeshare::U53::from(1u32);
/// let _x: u64 = v.into();
/// ```
pub struct FieldPrivate;

/// Unsigned sources cannot be widened into the signed type (no sign confusion).
/// ```compile_fail,E0277
/// let _v: typeshare::I54 = 5u32.into();
/// ```
/// twin:
/// ```no_run
/// let _v: typeshare::I54 = 5i32.into();
/// ```
pub struct NoCrossSignWidening;

/// C19 compile-pass witness: the attribute on one item of each kind with helper attributes in every position.
/// ```no_run
/// use typeshare::typeshare;
/// use serde::{Serialize, Deserialize};
/// #[typeshare(swift = "Equatable")]
/// #[derive(Serialize, Deserialize)]
/// #[serde(rename_all = "camelCase")]
/// pub struct S { #[typeshare(skip)] #[serde(default)] pub a: u32, #[typeshare(typescript(type = "string"))] pub b_c: String }
/// #[typeshare]
/// #[derive(Serialize, Deserialize)]
/// pub struct N(#[typeshare(serialized_as = "String")] pub u32);
/// #[typeshare]
/// #[derive(Serialize, Deserialize)]
/// #[serde(tag = "t", content = "c")]
/// pub enum E { #[typeshare(skip)] A, B(#[typeshare(skip)] u8), C { #[typeshare(skip)] #[typeshare(redacted)] x: u8 } }
/// #[typeshare]
/// pub union U { #[typeshare(skip)] pub a: u32, pub b: f32 }
/// #[typeshare]
/// pub type Alias = Vec<S>;
/// #[typeshare]
/// pub const K: u32 = 3;
/// ```
pub struct AttributeTransparent;
