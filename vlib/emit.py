"""Emission model helpers: canonical atoms, flattening of value trees into name-component sequences."""
import json
import itertools
import re

from . import vt

OWNERS = {'RustStruct', 'RustEnumShared', 'RustEnumVariantShared', 'RustTypeAlias', 'RustConst', 'RustField', 'RustEnum', 'RustEnumVariant',
          'Kotlin', 'Swift', 'Scala', 'Go', 'Python', 'TypeScript', 'ParsedData', 'Config', 'Id'}
BACKENDS = {
    'kotlin': ('Kotlin', 'language/kotlin.rs'),
    'swift': ('Swift', 'language/swift.rs'),
    'scala': ('Scala', 'language/scala.rs'),
    'go': ('Go', 'language/go.rs'),
    'python': ('Python', 'language/python.rs'),
    'typescript': ('TypeScript', 'language/typescript.rs'),
}


class Types:
    def __init__(self, astq):
        self.structs = {}
        self.enums = {}
        # free helper functions without emission sites (candidates for inlining when they take an IR object)
        self.pure_fns = {}
        self.by_name = {}
        for f in astq['functions']:
            self.by_name.setdefault(f['name'], []).append(f)
        for f in astq['functions']:
            if not f.get('self_ty') and not f.get('sites') and not f.get('nested_in'):
                self.pure_fns.setdefault(f['name'], f)
        # inherent methods without emission sites (value helpers of a backend struct): inlined when no rule knows them by name
        self.pure_methods = {}
        for f in astq['functions']:
            if f.get('self_ty') and not f.get('trait') and not f.get('sites') and not f.get('nested_in'):
                self.pure_methods.setdefault(f['name'].split('::')[-1], []).append(f)
        for i in astq['items']:
            if i['kind'] == 'struct':
                self.structs[i['name']] = {f['name']: f['ty'] for f in i['fields']}
            elif i['kind'] == 'enum':
                self.enums[i['name']] = i

    def via_expansion(self, name, depth=0):
        """A helper that is nothing but a composition of other transforms applied to its single string parameter
        (`fn swift_property_name(x) = remove_dash(keyword_aware(x).as_ref())`) contributes those transforms, innermost first,
        to a via chain instead of its own — unknown — name.  Anything else keeps its name."""
        fn = self.pure_fns.get(name)
        if fn is None or depth > 4 or fn.get('loops') or fn.get('returns'):
            return (name,)
        params = [p_['name'] for p_ in fn['params']]
        if len(params) != 1:
            return (name,)
        chain = []
        v = vt.unvar(fn.get('tail'))
        while isinstance(v, dict):
            if v.get('k') in ('ref', 'deref', 'paren'):
                v = vt.unvar(v.get('v'))
                continue
            if v.get('k') == 'atom' and v.get('root') == params[0] and not v.get('path'):
                out = ()
                for c_ in reversed(chain):
                    out += self.via_expansion(c_, depth + 1) if c_ in self.pure_fns and c_ != name else (c_,)
                return out or (name,)
            if v.get('k') == 'call':
                subject = v.get('recv') if v.get('recv') is not None else (v['args'][0] if len(v.get('args', [])) == 1 else None)
                if subject is None or (v.get('recv') is not None and v.get('args')):
                    return (name,)
                if v.get('f') not in IDENT_TRANSPARENT:
                    chain.append(v.get('f'))
                v = vt.unvar(subject)
                continue
            return (name,)
        return (name,)

    def field_ty(self, owner, f):
        if owner is None:
            return None
        base = owner.split('<')[0]
        return self.structs.get(base, {}).get(f)

    def reduce(self, owner, path):
        """Re-anchor (owner, path) at the last IR owner type met along the path."""
        cur = owner
        anchor_ty, anchor_ix = owner, 0
        for ix, f in enumerate(path):
            nxt = self.field_ty(cur, f)
            if nxt is None:
                break
            cur = nxt
            b = cur.split('<')[0]
            if b in OWNERS and b != 'Id':
                anchor_ty, anchor_ix = b, ix + 1
        return anchor_ty, list(path[anchor_ix:])

    def canon(self, v):
        """(owner type, field path) of an access expression, or None."""
        v0 = v
        v = vt.strip(v)
        if not isinstance(v, dict):
            return None
        kk = v.get('k')
        if kk == 'atom':
            rt = v.get('root_ty')
            if rt is None:
                return ('?' + v.get('root', ''), list(v.get('path', [])))
            return self.reduce(rt.split('<')[0] if rt.split('<')[0] in OWNERS else rt, v.get('path', []))
        if kk == 'field':
            b = self.canon(v['base'])
            if b is None:
                bt = (v['base'].get('ty') or '').split('<')[0] if isinstance(v['base'], dict) else ''
                if bt in OWNERS:
                    return self.reduce(bt, [v['name']])
                return None
            return self.reduce(b[0], b[1] + [v['name']])
        ty = (v.get('ty') or '').split('<')[0]
        if ty in OWNERS and kk in ('call', 'payload', 'elem', 'index'):
            return (ty, [])
        if kk == 'payload':
            # unnamed owner type: describe by variant + field
            return ('@' + str(v.get('variant')), [str(v.get('field', v.get('pos', '')))])
        if kk == 'elem':
            of = self.canon(v['of']) if isinstance(v.get('of'), dict) else None
            if of:
                return (of[0], of[1] + ['[]'])
        return None

    def canon_s(self, v):
        c = self.canon(v)
        if c is None:
            return None
        return c[0] + ('.' + '.'.join(c[1]) if c[1] else '')


IDENT_TRANSPARENT = vt.TRANSPARENT_CALLS | {'&'}

SEQ_TRANSPARENT = {'collect', 'collect_vec', 'iter', 'into_iter', 'sorted', 'cloned', 'copied', 'rev', 'unique', 'filter', 'skip', 'take', 'dedup',
                   'to_vec', 'as_slice', 'peekable', 'inspect', 'by_ref', 'iter_mut'}


def elem_source(v, depth=0):
    """For an `elem` node (element of an iterated collection): the value each element was built from, when the
    collection is a local map(closure)/zip(..) pipeline; else None."""
    if depth > 20 or not isinstance(v, dict):
        return None
    src = v.get('of') if v.get('k') == 'elem' else v
    while isinstance(src, dict):
        kk = src.get('k')
        if kk in ('var', 'try', 'some'):
            src = src['v']
            continue
        if kk == 'call' and src.get('f') in SEQ_TRANSPARENT and src.get('recv') is not None:
            src = src['recv']
            continue
        if kk == 'call' and src.get('f') in ('map', 'filter_map') and src.get('args'):
            clo = vt.strip(src['args'][0])
            if isinstance(clo, dict) and clo.get('k') == 'closure' and isinstance(clo.get('body'), dict) and clo['body'].get('k') != 'big':
                return clo['body']
            return None
        if kk == 'call' and src.get('f') == 'flat_map' and src.get('args'):
            clo = vt.strip(src['args'][0])
            if isinstance(clo, dict) and clo.get('k') == 'closure' and isinstance(clo.get('body'), dict) and clo['body'].get('k') != 'big':
                return {'k': 'elem', 'of': clo['body']}
            return None
        if kk == 'call' and src.get('f') == 'enumerate' and src.get('recv') is not None:
            a = {'k': 'elem', 'of': src['recv']}
            return {'k': 'tuple', 'items': [{'k': 'index'}, elem_source(a, depth + 1) or a]}
        if kk == 'call' and src.get('f') == 'zip' and src.get('args'):
            a = {'k': 'elem', 'of': src['recv']}
            b = {'k': 'elem', 'of': src['args'][0]}
            return {'k': 'tuple', 'items': [elem_source(a, depth + 1) or a, elem_source(b, depth + 1) or b]}
        return None
    return None


def resolve_proj(v, depth=0):
    """Resolve tuple projections over locally built sequences: field(elem(..), "0") -> the tuple component."""
    if depth > 20 or not isinstance(v, dict):
        return None
    if v.get('k') == 'elem':
        return elem_source(v, depth + 1)
    if v.get('k') == 'field' and str(v.get('name', '')).isdigit():
        b = v.get('base')
        rb = resolve_proj(b, depth + 1) if isinstance(b, dict) else None
        cand = rb if rb is not None else b
        while isinstance(cand, dict) and cand.get('k') in ('var', 'try', 'some'):
            cand = cand['v']
        if isinstance(cand, dict) and cand.get('k') == 'tuple':
            i = int(v['name'])
            if i < len(cand.get('items', [])):
                return cand['items'][i]
    return None


def flatten(T, v, depth=0, limit=64):
    """Alternatives of component sequences (conditions dropped); see flatten_c."""
    return [seq for _, seq in flatten_c(T, v, depth, limit)]


def _prod(a, b, limit):
    out = []
    for ca, sa in a:
        for cb, sb in b:
            out.append((ca + cb, sa + sb))
            if len(out) >= limit:
                return out
    return out


def _source_items(T, v, depth, limit):
    """Element alternatives of a joined / collected sequence expression."""
    v = vt.strip(v)
    if not isinstance(v, dict):
        return None
    kk = v.get('k')
    if kk == 'vecof':
        out = []
        for it in v.get('items', []):
            conds = tuple(('g', fr) for fr in it.get('guard', []) if fr.get('k') in ('if', 'arm'))
            for c, sq in flatten_c(T, it['v'], depth + 1, limit):
                out.append((conds + c, sq))
        return out
    if kk == 'call':
        f = v.get('f')
        if f in ('collect', 'collect_vec', 'iter', 'into_iter', 'sorted', 'cloned', 'copied', 'rev', 'unique', 'chain', 'filter', 'skip', 'take', 'dedup', 'to_vec', 'as_slice', 'peekable'):
            return _source_items(T, v.get('recv'), depth + 1, limit) if v.get('recv') is not None else None
        if f in ('map', 'filter_map', 'flat_map') and v.get('args'):
            clo = vt.strip(v['args'][0])
            if isinstance(clo, dict) and clo.get('k') == 'closure':
                return flatten_c(T, clo.get('body'), depth + 1, limit)
    if kk in ('cond', 'match', 'alt'):
        out = []
        for c, sq in flatten_c(T, v, depth + 1, limit):
            out.append((c, sq))
        return out
    if kk == 'field':
        rf = field_of_call(T, v)
        if rf is not None:
            return _source_items(T, rf, depth + 1, limit)
    return None


def flatten_c(T, v, depth=0, limit=64):
    """Alternatives [(conds, seq)].  Component = ('lit', text) | ('atom', canon, via tuple) | ('call', f, shown arg) |
    ('opaque', text).  conds = tuple of ('c', condV, polarity) / ('m', scrutV, variants) / ('g', guard-frame)."""
    if depth > 40:
        return [((), [('opaque', 'deep')])]
    if v is None:
        return [((), [])]
    if not isinstance(v, dict):
        return [((), [('opaque', repr(v))])]
    kk = v.get('k')
    if kk in ('var', 'try', 'some'):
        return flatten_c(T, v['v'], depth + 1, limit)
    if kk == 'lit':
        return [((), [('lit', str(v.get('v')))])] if v.get('v') != '' else [((), [])]
    if kk == 'payload' and v.get('variant') in ('Some', 'Ok') and isinstance(v.get('of'), dict):
        return [(c, a) for c, a in flatten_c(T, v['of'], depth + 1, limit) if a] or [((), [])]
    if kk in ('none', 'unit'):
        return [((), [])]
    if kk == 'fmt':
        alts = [((), [])]
        for p in v.get('parts', []):
            if 'lit' in p:
                alts = [(c, a + [('lit', p['lit'])]) for c, a in alts]
            else:
                sub = flatten_c(T, p['hole'], depth + 1, limit)
                if p.get('spec') == '?':
                    sub = [(c, [('lit', '"')] + sq + [('lit', '"')]) for c, sq in sub]
                alts = _prod(alts, sub, limit)
        return alts
    if kk == 'cond':
        t = [((('c', v['c'], True),) + c, sq) for c, sq in flatten_c(T, v['t'], depth + 1, limit)]
        e = [((('c', v['c'], False),) + c, sq) for c, sq in flatten_c(T, v['e'], depth + 1, limit)]
        return (t + e)[:limit]
    if kk == 'match':
        out = []
        for a in v.get('arms', []):
            for c, sq in flatten_c(T, a['v'], depth + 1, limit):
                out.append(((('m', v['scrut'], tuple(a.get('variants', []))),) + c, sq))
        return out[:limit] or [((), [])]
    if kk == 'alt':
        out = []
        for a in v.get('alts', []):
            out.extend(flatten_c(T, a, depth + 1, limit))
        return out[:limit] or [((), [])]
    if kk == 'call':
        f = v.get('f')
        if v.get('local_closure') and v.get('result') is not None:
            return flatten_c(T, v['result'], depth + 1, limit)
        c = T.canon_s(v)
        if c is not None and vt.strip(v) is not v:
            return flatten_c(T, vt.strip(v), depth + 1, limit)
        if f in IDENT_TRANSPARENT:
            inner = v.get('recv') if v.get('recv') is not None else (v['args'][0] if v.get('args') else None)
            return flatten_c(T, inner, depth + 1, limit)
        if v.get('recv') is None and f in T.pure_fns and depth < 30:
            fn = T.pure_fns[f]
            params = [p['name'] for p in fn['params']]
            args = v.get('args', [])
            takes_object = False
            for a in args:
                ca = T.canon(a)
                if ca is not None and ca[1] == [] and ca[0] in OWNERS and ca[0] != 'Id':
                    takes_object = True
            # a string builder that assembles its result in a loop (`for c in comments { text.push_str(..) }`): the evaluator models
            # the accumulated value after one iteration (`if <loop ran> …`), which is what a template rule needs to see — the text
            # around each element and the transforms applied to it
            from . import inline as _inl2
            loop_builder = bool(fn.get('loops')) and f not in _inl2.ANCHORS and fn.get('tail') is not None and 'loop_ran' in json.dumps(fn.get('tail'))[:20000] \
                and any(cc.get('f') in ('push_str', 'push') for cc in fn.get('calls', []))
            # a helper no rule knows by name is just part of the expression that calls it: expand it (its own calls to known
            # transforms stay visible in the via chain) — `swift_property_name(x)` ≡ remove_dash(keyword_aware(x))
            if (takes_object or loop_builder) and len(params) == len(args):
                env = dict(zip(params, args))
                out = []
                for body in [fn['tail']] + [r['v'] for r in fn.get('returns', []) if r.get('v')]:
                    out.extend(flatten_c(T, subst(body, env), depth + 1, limit))
                return [(c2, sq) for c2, sq in out if sq or True][:limit]
        if v.get('recv') is not None and f in getattr(T, 'pure_methods', {}) and depth < 30:
            from . import inline as _inl
            r0 = vt.unvar(v['recv'])
            cands = [m for m in T.pure_methods[f] if isinstance(r0, dict) and r0.get('k') == 'atom' and not r0.get('path') and (r0.get('root_ty') or '').split('<')[0] == (m.get('self_ty') or '').split('<')[0]]
            if len(cands) == 1 and f not in _inl.ANCHORS and not cands[0].get('loops') and cands[0].get('tail') is not None:
                fn = cands[0]
                params = [p_['name'] for p_ in fn['params'] if p_['name'] != 'self']
                args = v.get('args', [])
                if len(params) == len(args):
                    env = dict(zip(params, args))
                    out = []
                    for body in [fn['tail']] + [r['v'] for r in fn.get('returns', []) if r.get('v')]:
                        out.extend(flatten_c(T, subst(body, env), depth + 1, limit))
                    return out[:limit]
        if f in ('map', 'filter_map') and v.get('recv') is not None and v.get('args'):
            clo = vt.strip(v['args'][0])
            if isinstance(clo, dict) and clo.get('k') == 'closure' and isinstance(clo.get('body'), dict) and clo['body'].get('k') != 'big':
                return flatten_c(T, clo['body'], depth + 1, limit)
        if f in ('join', 'join_with', 'concat'):
            items = _source_items(T, v.get('recv'), depth + 1, limit)
            sep = ''
            if v.get('args'):
                sp = flatten_c(T, v['args'][0], depth + 1, 4)
                if sp:
                    sep = ''.join(x[1] if x[0] in ('lit', 'lit*') else '{}' for x in sp[0][1])
            if items is not None:
                return [(c2, [('joined', f, sep)] + sq) for c2, sq in items][:limit] or [((), [])]
            rcan = T.canon_s(v['recv']) if isinstance(v.get('recv'), dict) else None
            if rcan is not None:
                return [((), [('joined', f, sep), ('atom', rcan + '.[]', ())])]
            return [((), [('opaque', 'join(' + vt.show(v.get('recv'))[:80] + ')')])]
        rc = T.canon(v['recv']) if isinstance(v.get('recv'), dict) else None
        if rc is not None and rc[1] == [] and rc[0] in OWNERS:
            if f in ('format_type', 'format_simple_type', 'format_generic_type', 'format_special_type', 'generic_constraints', 'format_generic_parameters', 'type_override') or not v.get('args'):
                return [((), [('call', f, vt.show(v['args'][0])[:60] if v.get('args') else '')])]
            sub = flatten_c(T, v['args'][0], depth + 1, limit)
            return [(c2, [(('atom', x[1], x[2] + (f,)) if x[0] == 'atom' else x) for x in sq]) for c2, sq in sub]
        subject = v.get('recv') if v.get('recv') is not None else (v['args'][0] if v.get('args') else None)
        if len(v.get('args', [])) > 1 and v.get('recv') is None:
            subject = v['args'][-1]
        if subject is None:
            return [((), [('opaque', vt.show(v)[:80])])]
        sub = flatten_c(T, subject, depth + 1, limit)
        fname = f
        if f in ('replace', 'split', 'trim_matches', 'strip_prefix', 'strip_suffix', 'trim_start_matches', 'trim_end_matches') and v.get('args'):
            a0 = vt.strip(v['args'][0])
            if isinstance(a0, dict) and a0.get('k') == 'lit':
                fname = f + '(' + repr(str(a0.get('v'))) + ')'
                # a literal replacement is part of the operation's identity: `replace(P → R)`
                a1 = vt.strip(v['args'][1]) if f == 'replace' and len(v['args']) == 2 else None
                if isinstance(a1, dict) and a1.get('k') == 'lit':
                    fname = f + '(' + repr(str(a0.get('v'))) + ' → ' + repr(str(a1.get('v'))) + ')'
        fnames = T.via_expansion(fname) if v.get('recv') is None and fname == f else (fname,)
        return [(c2, [(('atom', x[1], x[2] + fnames) if x[0] == 'atom' else (('lit*', x[1], f) if x[0] == 'lit' else x)) for x in sq]) for c2, sq in sub]
    if kk in ('elem', 'field'):
        rp = resolve_proj(v)
        if rp is not None:
            return flatten_c(T, rp, depth + 1, limit)
    if kk == 'elem':
        # an element of a string split into pieces: the piece carries the provenance of the whole, via the splitter
        src = v.get('of')
        while isinstance(src, dict) and src.get('k') in ('var', 'try', 'some'):
            src = src['v']
        if isinstance(src, dict) and src.get('k') == 'call' and src.get('f') in ('split', 'lines', 'split_terminator', 'split_inclusive', 'split_whitespace', 'rsplit', 'splitn') and src.get('recv') is not None:
            return flatten_c(T, src, depth + 1, limit)
    if kk == 'field':
        rf = field_of_call(T, v)
        if rf is not None:
            return flatten_c(T, rf, depth + 1, limit)
    c = T.canon_s(v)
    if c is not None:
        return [((), [('atom', c, ())])]
    if kk == 'index':
        sub = flatten_c(T, v['base'], depth + 1, limit)
        return [(c2, [(('atom', x[1], x[2] + ('index',)) if x[0] == 'atom' else x) for x in sq]) for c2, sq in sub]
    if kk == 'op':
        return [((), [('opaque', vt.show(v)[:80])])]
    return [((), [('opaque', vt.show(v)[:80])])]


def seq_str(seq):
    out = []
    for c in seq:
        if c[0] == 'lit':
            out.append(repr(c[1]))
        elif c[0] == 'atom':
            out.append('{' + c[1] + ('|' + '>'.join(c[2]) if c[2] else '') + '}')
        elif c[0] == 'call':
            out.append('<' + c[1] + '(' + c[2] + ')>')
        elif c[0] == 'joined':
            out.append('<each of ' + c[1] + ':>')
        elif c[0] == 'lit*':
            out.append(repr(c[1]) + '|' + c[2])
        else:
            out.append('<' + c[1] + '>')
    return ' '.join(out)


def merge_lits(seq):
    out = []
    for c in seq:
        if c[0] == 'lit' and out and out[-1][0] == 'lit':
            out[-1] = ('lit', out[-1][1] + c[1])
        elif c[0] == 'lit' and c[1] == '':
            continue
        else:
            out.append(c)
    return out


def site_alternatives(T, site, limit=64):
    """Flattened alternatives of a whole emission site's template."""
    alts = flatten(T, site['fmt'], limit=limit)
    return [merge_lits(a) for a in alts]


def site_alternatives_c(T, site, env=None, limit=64):
    v = subst(site['fmt'], env) if env else site['fmt']
    return [(c, merge_lits(a)) for c, a in flatten_c(T, v, limit=limit)]


def subst(v, env):
    """Substitute param atoms (root in env, empty root path prefix) by caller-side values."""
    if isinstance(v, list):
        return [subst(x, env) for x in v]
    if not isinstance(v, dict):
        return v
    if v.get('k') == 'atom' and v.get('root') in env:
        rep = env[v['root']]
        path = v.get('path', [])
        cur = rep
        if path and isinstance(rep, dict) and rep.get('k') == 'atom':
            # a field path of a parameter bound to a plain access path stays a plain access path
            cur = dict(rep, path=list(rep.get('path', [])) + list(path))
            cur.pop('ty', None)
            if v.get('ty'):
                cur['ty'] = v['ty']
            return cur
        for f in path:
            # a field of a struct literal passed by the caller (parameter objects, `&Args { a, b }`) is that field's value
            lit = vt.strip(cur)
            while isinstance(lit, dict) and lit.get('k') in ('ref', 'deref', 'paren'):
                lit = vt.strip(lit.get('v'))
            if isinstance(lit, dict) and lit.get('k') == 'struct' and isinstance(lit.get('fields'), dict) and f in lit['fields']:
                cur = lit['fields'][f]
                continue
            cur = {'k': 'field', 'base': cur, 'name': f}
        if isinstance(cur, dict) and v.get('ty') and 'ty' not in cur:
            cur = dict(cur)
            cur['ty'] = v['ty']
        return cur
    if v.get('k') == 'call' and v.get('recv') is None and v.get('f') in env and isinstance(env[v['f']], dict) and vt.strip(env[v['f']]).get('k') == 'closure':
        # calling a closure parameter: beta-reduce with the closure's generic body
        clo = vt.strip(env[v['f']])
        params = [p['names'][0] if p['names'] else '_' for p in clo.get('params', [])]
        args = [subst(a, env) for a in v.get('args', [])]
        inner_env = dict(zip(params, args))
        return subst(clo.get('body'), inner_env)
    return {k2: subst(x, env) if isinstance(x, (dict, list)) else x for k2, x in v.items()}


def caller_env(fns, g):
    """Bind g's parameters to the arguments of its callers inside the same backend (only when all callers agree
    on a parameter's value or it is a closure); returns {param: value}."""
    params = [p['name'] for p in g['params'] if p['name'] != 'self']
    envs = []
    for f in fns:
        for c in f['calls']:
            if c.get('f') == g['name'] and c.get('recv') is not None and len(c.get('args', [])) == len(params):
                envs.append(dict(zip(params, c['args'])))
    if not envs:
        return {}
    out = {}
    for p in params:
        vals = [e[p] for e in envs]
        first = vt.strip(vals[0])
        if isinstance(first, dict) and first.get('k') == 'closure' and all(vt.strip(v) == first for v in vals):
            out[p] = vals[0]
    return out


def canons_in(T, v):
    """Canonical strings of every access expression occurring in v."""
    out = []
    for x in vt.walk(v):
        if x.get('k') in ('atom', 'field', 'payload', 'elem'):
            c = T.canon_s(x)
            if c:
                out.append(c)
    return out


def object_helpers(T, v):
    """Free pure helper functions called in v with a whole IR object as argument: {name: fn facts}."""
    out = {}
    for c in vt.calls_in(v):
        f = c.get('f')
        if c.get('recv') is None and f in T.pure_fns and len(T.pure_fns[f]['params']) == len(c.get('args', [])):
            for a in c.get('args', []):
                ca = T.canon(a)
                if ca is not None and ca[1] == [] and ca[0] in OWNERS and ca[0] != 'Id':
                    out[f] = T.pure_fns[f]
    return out


def canons_in_deep(T, v, depth=0):
    """canons_in, also looking through free helper functions that are handed a whole IR object."""
    out = canons_in(T, v)
    if depth < 4:
        for c in vt.calls_in(v):
            fn = object_helpers(T, c).get(c.get('f')) if c.get('recv') is None else None
            if fn:
                env = dict(zip([p['name'] for p in fn['params']], c.get('args', [])))
                for body in [fn['tail']] + [r['v'] for r in fn.get('returns', []) if r.get('v')]:
                    if body is not None:
                        out.extend(canons_in_deep(T, subst(body, env), depth + 1))
    return out


def caller_env_deep(fns, g, depth=3):
    """Bind g's parameters to caller arguments when every in-backend caller passes the same value; values that are
    themselves parameters of the (single) caller are resolved recursively."""
    params = [p['name'] for p in g['params'] if p['name'] != 'self']
    callers = []
    for f in fns:
        for c in f['calls']:
            if c.get('f') == g['name'] and c.get('recv') is not None and len(c.get('args', [])) == len(params):
                callers.append((f, dict(zip(params, c['args']))))
    if not callers:
        return {}
    out = {}
    for p in params:
        vals = [e[p] for _, e in callers]
        first = vt.strip(vals[0])
        same = all(sig(vt.strip(v)) == sig(first) for v in vals)
        if same:
            out[p] = vals[0]
    if depth > 0:
        cf = {id(f): f for f, _ in callers}
        if len(cf) == 1:
            f = callers[0][0]
            up = caller_env_deep(fns, f, depth - 1)
            if up:
                out = {k2: subst(v, up) for k2, v in out.items()}
    return out


def sig(v):
    """Structural signature of a value tree ignoring source positions."""
    import json as _j

    def clean(x):
        if isinstance(x, dict):
            return {k2: clean(y) for k2, y in x.items() if k2 not in ('line', 'id', 'recv_text')}
        if isinstance(x, list):
            return [clean(y) for y in x]
        return x
    return _j.dumps(clean(v), sort_keys=True)


def field_of_call(T, v):
    """`self.helper(..)?.field` where helper returns Ok(Struct { field: value, .. }): the value, with the helper's
    parameters replaced by the call's arguments."""
    b = v.get('base')
    while isinstance(b, dict) and b.get('k') in ('var', 'try', 'some'):
        b = b['v']
    if not (isinstance(b, dict) and b.get('k') == 'call' and b.get('recv') is not None):
        return None
    cands = [f for f in T.by_name.get(b.get('f'), []) if f.get('self_ty')]
    rc = T.canon(b['recv']) if isinstance(b.get('recv'), dict) else None
    if rc is not None and len(cands) > 1:
        cands = [f for f in cands if (f.get('self_ty') or '').split('<')[0] == rc[0]]
    if len(cands) != 1:
        return None
    g = cands[0]
    t = g['tail']
    while isinstance(t, dict) and t.get('k') in ('var', 'try', 'some'):
        t = t['v']
    if isinstance(t, dict) and t.get('k') == 'call' and t.get('f') == 'Ok' and t.get('args'):
        t = t['args'][0]
        while isinstance(t, dict) and t.get('k') in ('var', 'try', 'some'):
            t = t['v']
    if not (isinstance(t, dict) and t.get('k') == 'struct' and v.get('name') in t.get('fields', {})):
        return None
    params = [p['name'] for p in g['params'] if p['name'] != 'self']
    env = dict(zip(params, b.get('args', []))) if len(params) == len(b.get('args', [])) else {}
    val = t['fields'][v['name']]
    return subst(val, env) if env else val
