"""What the type parser (`impl TryFrom<&syn::Type> for RustType`) yields for a type path whose last segment is named N.

The question is asked of the *inlined view* of `try_from` (helpers such as `from_path_segment` expanded), specialised with
vlib/special.py under two assumptions: the `syn::Type` is a `Type::Path`, and the segment's identifier equals N.  Whether the
dispatch is one `match id.as_str()` arm per literal, a look-up in constant tables, guard arms, or early returns makes no
difference to the answer."""
from . import core, special, vt

_TRANSPARENT = {'as_str', 'clone', 'to_string', 'to_owned', 'as_ref', 'borrow', 'deref', 'into', 'as_deref'}


def name_key(v):
    """`segment.ident.to_string()` and the spellings derived from it (`id`, `id.as_str()`, `&id`, `id.clone()`)."""
    d = 0
    while isinstance(v, dict) and d < 16:
        d += 1
        kk = v.get('k')
        if kk == 'var':
            v = v.get('v')
        elif kk in ('ref', 'deref', 'paren'):
            v = v.get('v')
        elif kk == 'call' and v.get('recv') is not None and v.get('f') in _TRANSPARENT and not v.get('args'):
            v = v['recv']
        elif kk == 'atom':
            return bool(v.get('path')) and v['path'][-1] == 'ident'
        elif kk == 'field':
            return v.get('name') == 'ident'
        else:
            return False
    return False


def parser_fn(ctx):
    fs = [x for x in ctx.fns(file='rust_types.rs', name='try_from') if any('Type' in str(p.get('ty') or p.get('ty_text') or '') for p in x['params'])]
    if not fs:
        raise core.Incomplete('type parser: `try_from(&syn::Type)` not found in rust_types.rs')
    return fs[0]


def outcomes_for(ctx, name):
    f = parser_fn(ctx)
    G = ctx.x(f)
    param = next((p['name'] for p in f['params'] if p['name'] != 'self'), 'ty')
    return special.outcomes(G, [special.EnumSpec(param, 'Path'), special.KeySpec(name_key, name)])


def is_err(v):
    v = vt.unvar(v)
    return isinstance(v, dict) and v.get('k') == 'call' and v.get('recv') is None and str(v.get('f')) == 'Err'


def ok_payload(v):
    v = vt.unvar(v)
    if isinstance(v, dict) and v.get('k') == 'call' and v.get('recv') is None and str(v.get('f')) == 'Ok' and v.get('args'):
        return v['args'][0]
    return None
