"""C07 — never panics / always terminates with a diagnostic.

Decided: every panic-capable construct reachable from the CLI entry point (resolved call graph, receiver-context
sensitive for `Language` default methods; callbacks through external traits such as syn::visit::Visit are roots)
is either structurally discharged, or listed as guarded with a reason, or is a finding.  Plus the shape of the
worker/collector channel protocol.  Not decided: loop termination, dead-lock freedom beyond the channel shape,
stack depth."""
import json
import os
import re

from .. import guards, cg, core, vt

WS = {'typeshare_core', 'typeshare', 'typeshare#bin', 'typeshare_annotation'}

UNWRAPS = ('::unwrap', '::expect', '::unwrap_err', '::expect_err')
PANIC_FN_PREFIX = ('core::panicking::', 'std::panicking::', 'std::rt::begin_panic', 'std::rt::panic', 'core::option::expect_failed',
                   'core::option::unwrap_failed', 'core::result::unwrap_failed', 'core::slice::index::', 'core::str::slice_error_fail')
VEC_MUT = ('::remove', '::swap_remove', '::insert', '::drain', '::split_off', '::truncate', '::replace_range', '::split_at', '::split_at_mut',
           '::copy_from_slice', '::clone_from_slice', '::swap', '::rotate_left', '::rotate_right')
OTHER = ('::step_by', '::chunks', '::chunks_exact', '::windows', '::borrow_mut', '::abort')


def norm(s):
    return re.sub(r'\s+', '', s or '')


def user_macro(macs):
    for m in macs:
        if not m.startswith('$crate') and m not in ('format_args', 'const_format_args'):
            pass
    ms = [m for m in macs if not m.startswith('$crate')]
    return ms[-1] if ms else None


def site_kind(c):
    """Classify a resolved call as panic-capable; returns kind or None."""
    callee = c['callee']
    ck = c.get('ckey') or ''
    if any(ck.startswith(p) for p in PANIC_FN_PREFIX) or ('panicking::' in callee):
        m = user_macro(c.get('macros', []))
        if m in ('assert', 'assert_eq', 'assert_ne', 'debug_assert', 'debug_assert_eq', 'debug_assert_ne'):
            return 'assert'
        if m in ('todo', 'unimplemented', 'unreachable', 'panic'):
            return m
        return 'panic'
    if c.get('exp') and user_macro(c.get('macros', [])) in ('write', 'writeln', 'format', 'println', 'print', 'eprintln', 'info', 'debug', 'warn', 'error', 'log', 'vec', 'matches', 'lazy_format', 'Desugaring(QuestionMark)', 'Desugaring(ForLoop)'):
        return None
    if callee.endswith(UNWRAPS) and ('Option' in callee or 'Result' in callee):
        return 'unwrap'
    if callee.endswith('>::index') or callee.endswith('>::index_mut'):
        return 'index'
    if callee.endswith(VEC_MUT) and ('vec::Vec' in callee or 'string::String' in callee or 'VecDeque' in callee or 'slice::<impl' in callee or 'str::<impl' in callee):
        return 'mutate-at'
    if callee.endswith(OTHER) and ('RefCell' in callee or 'Iterator' in callee or 'slice::<impl' in callee or 'process::' in callee):
        return 'other'
    return None


def collect_sites(prog, reach_nodes):
    keys = sorted({n[0] for n in reach_nodes})
    sites = []
    for k in keys:
        b = prog.bodies[k]
        if b.get('derived'):
            continue
        root = prog.bodies.get(b.get('root')) if b.get('root') else b
        rootid = (root or b)['id']
        for c in b['calls']:
            kd = site_kind(c)
            if kd:
                sites.append({'body': k, 'fn': rootid, 'kind': kd, 'callee': c['callee'], 'snippet': norm(c['snippet']), 'file': c['file'], 'line': c['line'], 'bb': c['bb'], 'macros': c.get('macros', [])})
        for a in b['asserts']:
            if a['kind'] in ('BoundsCheck', 'DivisionByZero', 'RemainderByZero'):
                sites.append({'body': k, 'fn': rootid, 'kind': 'assert-' + a['kind'], 'callee': a['kind'], 'snippet': norm(a['snippet']), 'file': a['file'], 'line': a['line'], 'bb': a['bb'], 'macros': a.get('macros', [])})
    return sites


def astq_guard_at(ctx, file, line):
    """Guard frames (astq) of the innermost recorded construct at file:line."""
    best = None
    for f in ctx.astq['functions']:
        if not file.endswith(f['file']) or not (f['line'] <= line <= f['end_line']):
            continue
        for coll in ('panics', 'indexes', 'calls', 'sites'):
            for x in f[coll]:
                if x.get('line') == line:
                    g = x.get('guard', [])
                    if best is None or len(g) > len(best[1]):
                        best = (f, g)
    return best


def inherited_arm_variants(ctx, prog, s):
    """Match-arm variants under which *every* caller reaches the construct, when it sits in a private helper: the helper body
    (`write_unit_enum(shared)`) carries no frame of its own, but each caller's inlined view shows the construct under the arm
    that calls the helper (`RustEnum::Unit(shared) => self.write_unit_enum(w, shared)`).  Empty when some caller cannot be
    followed."""
    b = prog.bodies.get(s['body'])
    root = (b.get('root') or s['body']) if b else s['body']
    callers = sorted({k for k, cb in prog.bodies.items() for c in cb['calls'] if root in prog.targets_of_call(c) and k != root})
    if not callers:
        return []
    common = None
    for k in callers:
        cb = prog.bodies[k]
        rb = prog.bodies.get(cb.get('root') or k) or cb
        fs = [f for f in ctx.astq['functions'] if rb['file'].endswith(f['file']) and f['line'] == rb['line']]
        if len(fs) != 1:
            return []
        G = ctx.x(fs[0])
        recs = [r for r in G.get('panics', []) if r.get('line') == s['line'] and r.get('via')]
        if not recs:
            return []
        for r in recs:
            vs = {v for fr in r.get('guard', []) if fr.get('k') == 'arm' for v in fr.get('variants', [])}
            common = vs if common is None else (common & vs)
    return sorted(common or [])


def constructed_variants(prog, adt_suffix):
    """Variant names of an enum with at least one non-derived construction site anywhere in the workspace."""
    out = {}
    for k, b in prog.bodies.items():
        if b.get('derived'):
            continue
        for a in b['aggregates']:
            if a['adt'].endswith(adt_suffix):
                out.setdefault(a['variant'], []).append(f"{b['id']} ({os.path.basename(a['file'])}:{a['line']})")
    return out


def run(ctx, rep):
    rep.explanation = ('Panic freedom decided as classification of every panic-capable construct (unwrap/expect, panic-family macros, indexing and '
                       'slicing, index-taking Vec/String mutators, bounds/zero-division asserts) in every function body reachable from the CLI `main` '
                       'in the resolved call graph (rustc MIR; trait calls on `dyn Language` expanded per implementing type; impls of external traits '
                       'such as syn::visit::Visit treated as call-back roots), plus the producer/consumer shape of the bounded channel in parallel_parse.')
    rep.not_decided = 'termination of loops and of third-party code (ignore, syn), dead-lock freedom beyond the channel shape, stack exhaustion, arithmetic overflow (wraps in the shipped profile).'
    rep.trusted = ['rustc name resolution / MIR construction (nightly 1.97)', 'rules/c07_sites.json (reviewed guarded sites, one reason each)', 'std/syn/clap API contracts cited in the reasons']
    fsets = ['all'] if ctx.tier == 'quick' else ['all', 'default', 'go', 'python']
    table = json.load(open(os.path.join(core.VERIF, 'rules', 'c07_sites.json')))
    seen_keys = set()
    total_sites = 0
    for fs in fsets:
        prog = cg.Program(ctx.mirq(fs))
        cr = cg.CtxReach(prog)
        mains = prog.find('main', crate='typeshare#bin')
        if len(mains) != 1:
            raise core.Incomplete('entry point main not found in the CLI crate')
        roots = list(mains)
        # call-backs: impls of traits defined outside the workspace (syn Visit, FromStr, TryFrom, Display, Iterator, AddAssign, Ord ...)
        cb = 0
        for k, b in prog.bodies.items():
            ti = b.get('trait_item')
            if ti and ti.split('::')[0] not in WS and prog.crate_of[k] in ('typeshare_core', 'typeshare#bin'):
                roots.append(k)
                cb += 1
        reach = cr.reach(roots)
        rep.analysed[f'{fs}:bodies_reachable'] = len({n[0] for n in reach})
        rep.analysed[f'{fs}:bodies_total'] = len(prog.bodies)
        rep.analysed[f'{fs}:callback_roots'] = cb
        sites = collect_sites(prog, reach)
        rep.floor('P1', f'{fs}: panic-capable sites in reachable code', len(sites), 15)
        total_sites += len(sites)
        # first reaching node per body for paths
        first = {}
        for n in reach:
            first.setdefault(n[0], n)
        # P3 facts
        sp_constructed = constructed_variants(prog, 'rust_types::SpecialRustType')
        occ = {}
        used_entries = {}
        for s in sorted(sites, key=lambda s: (s['file'], s['line'], s['bb'])):
            base = f"{s['kind']}:{os.path.basename(s['file'])}:{s['fn'].split('::')[-1]}:{abstract(s['snippet'])[:120]}"
            occ[base] = occ.get(base, 0) + 1
            key = f"{base}#{occ[base]}"
            if (key in seen_keys):
                continue
            seen_keys.add(key)
            site = {'file': os.path.relpath(s['file'], ctx.repo) if s['file'].startswith('/') else s['file'], 'line': s['line']}
            path = ' -> '.join(cr.path_to(reach, first[s['body']])[-6:])
            # --- structural discharges -------------------------------------------------------
            g = astq_guard_at(ctx, s['file'], s['line'])
            frames = g[1] if g else []
            arm_variants = [v for fr in frames if fr.get('k') == 'arm' for v in fr.get('variants', [])]
            if s['kind'] in ('panic', 'unreachable', 'todo', 'unimplemented') and not arm_variants:
                arm_variants = inherited_arm_variants(ctx, prog, s)
            # P3: arm over never-constructed SpecialRustType variants
            last_arm = next((fr for fr in reversed(frames) if fr.get('k') == 'arm'), None)
            if s['kind'] in ('panic', 'unreachable', 'todo', 'unimplemented') and last_arm and last_arm['variants'] and all(v.startswith('SpecialRustType::') for v in last_arm['variants']):
                names = [v.split('::')[1] for v in last_arm['variants']]
                live = {n: sp_constructed[n] for n in names if n in sp_constructed}
                if not live:
                    rep.ok('P3', key, f"dead arm: SpecialRustType::{{{','.join(names)}}} have no construction site in the workspace", site)
                    continue
                rep.fail('P3', key, f"panic arm is live: variant(s) {sorted(live)} are constructed at {list(live.values())[0][:2]}; reached via {path}", site)
                continue
            # panic arm over an enum parameter that no caller ever passes with that variant (feature-gated CLI choices):
            # every caller builds the argument in its own body from a fixed set of variant constructors
            if s['kind'] in ('panic', 'unreachable', 'todo', 'unimplemented') and last_arm and last_arm['variants'] and len(last_arm['variants']) == 1 and '::' in last_arm['variants'][0]:
                dead = dead_param_variant(prog, s, last_arm)
                if dead:
                    rep.ok('P3', key, dead, site)
                    continue
            # a catch-all arm that no variant can reach: every variant of the matched enum parameter is either named by a
            # sibling arm or leaves the function earlier (`if let Some(x) = lookup(param) { return .. }`) — decided by
            # specialising the site's guard frames to each variant (vlib/special.py)
            if s['kind'] in ('panic', 'unreachable', 'todo', 'unimplemented') and last_arm and g:
                why = dead_for_every_variant(ctx, g[0], frames, last_arm)
                if why:
                    rep.ok('P3', key, why, site)
                    continue
            # unit-enum printers: `_ => unreachable!()` under RustEnum::Unit
            if s['kind'] == 'unreachable' and any(v == 'RustEnum::Unit' for v in arm_variants):
                if unit_enum_invariant(ctx, prog, rep):
                    rep.ok('P3', key, 'unreachable!() arm inside the RustEnum::Unit printer; RustEnum::Unit is only constructed after the all-variants-are-unit test (parse_enum)', site)
                    continue
            # structural discharge: constant index under a dominating length test of the same collection
            if s['kind'] == 'index':
                why = len_guard(ctx, s)
                if why:
                    rep.ok('P2', key, 'guarded: ' + why, site)
                    continue
            # table lookup
            ent = lookup(table, s, used_entries, prog)
            if ent is None:
                # the same assertion in another idiom: `let Some(..) = xs.split_first() else { panic!(..) }` / `if xs.is_empty() {
                # unreachable!() }` states what `xs.first().expect(..)` states — the construct is reached only when the
                # required list is empty, and the table's discharge (clap `required`) is about that list
                ent = emptiness_assertion(ctx, table, s, prog)
            if ent is None and s['kind'] in ('index', 'mutate-at') and s['file'].endswith('topsort.rs'):
                # index arithmetic of the sorting algorithm: its sites are table entries with a *written* argument (DESIGN D.8: not
                # machine-checked).  When the function an entry names no longer exists the algorithm was rewritten: the written
                # argument does not carry over — no verdict on the new indexing, rather than a finding
                gone = [e_ for e_ in table['sites'] if e_.get('file') == 'topsort.rs' and e_['kind'] in ('index', 'mutate-at') and e_.get('fn')
                        and not any(b_['id'].endswith(e_['fn']) or e_['fn'].split('::')[0] + '::' in b_['id'] + '::' and b_['id'].split('::{')[0].endswith(e_['fn'].split('::')[-1]) for b_ in prog.bodies.values())]
                if gone:
                    raise core.Incomplete(f"P2: the index arithmetic of topsort.rs was rewritten ({gone[0]['fn']} no longer exists): `{s['snippet'][:40]}` in {s['fn']} has no written bound argument — not decided")
            if ent is None:
                rep.fail('P2', key, f"unclassified panic-capable construct `{s['snippet'][:100]}` ({s['kind']}, {s['callee'][:70]}) in {s['fn']}; reached via {path}", site)
            elif ent['class'] == 'guarded':
                ok, why = discharge(ctx, prog, cr, ent, s, frames)
                if ok:
                    rep.ok('P2', key, 'guarded: ' + ent['reason'] + (f' [{why}]' if why else ''), site)
                else:
                    rep.fail('P2', key, f"guard no longer derivable for `{s['snippet'][:80]}` in {s['fn']}: {why}", site)
            else:
                rep.fail('P2', key, f"input-reachable panic: `{s['snippet'][:100]}` in {s['fn']} — {ent['reason']}; reached via {path}", site)
        if fs == 'all':
            p4(ctx, prog, rep)
            p5(ctx, rep)
    rep.extra['evaluations'] = total_sites
    rep.extra['feature_sets'] = fsets


_unit_inv = {}


def all_unit_form(c):
    """'parsed' / 'raw' when the condition is `<variants>.iter().all(|v| matches!(v[.fields], <Unit pattern>))`, else None."""
    if not (isinstance(c, dict) and c.get('k') == 'call' and c.get('f') == 'all' and c.get('args')):
        return None
    cl = c['args'][0]
    body = vt.strip(cl.get('body')) if isinstance(cl, dict) and cl.get('k') == 'closure' else None
    if not (isinstance(body, dict) and body.get('k') == 'matches' and not body.get('guard')):
        return None
    if body.get('variants') == ['RustEnumVariant::Unit']:
        return 'parsed'
    if body.get('variants') == ['Fields::Unit']:
        return 'raw'
    return None


def unit_enum_invariant(ctx, prog, rep):
    if 'v' in _unit_inv:
        return _unit_inv['v']
    ok = True
    why = ''
    sites = []
    for k, b in prog.bodies.items():
        if b.get('derived'):
            continue
        for a in b['aggregates']:
            if a['adt'].endswith('rust_types::RustEnum') and a['variant'] == 'Unit':
                sites.append((b['id'], a['line']))
    if not sites or any(not s[0].endswith('parse_enum') for s in sites):
        ok, why = False, f'RustEnum::Unit constructed outside parse_enum: {sites}'
    else:
        f = ctx.fnx('parse_enum', file='parser.rs')
        found = False
        for c in f['calls']:
            if c.get('f', '').replace(' ', '').endswith('RustEnum::Unit'):
                found = True
                forms = []
                for fr in guards.normalize_frames(c['guard']):
                    if fr.get('k') != 'if':
                        continue
                    cond, neg = fr['c'], bool(fr.get('neg'))
                    red = guards.reduce_tag_test(cond)
                    if red is not None:
                        cond, neg = red[0], neg != red[1]
                    if not neg:
                        forms.append(all_unit_form(vt.strip(cond)))
                if 'parsed' in forms:
                    continue
                if 'raw' in forms:
                    # the test is over the syn variants: sound iff the variant parser maps Fields::Unit to RustEnumVariant::Unit only
                    pv = ctx.fn('parse_enum_variant', file='parser.rs')
                    arms = [a for m in pv['matches'] for a in m['arms'] if a['variants'] == ['Fields::Unit']]
                    good = arms and all('RustEnumVariant::Unit' in a['body'].replace(' ', '') and not re.search(r'RustEnumVariant::(?!Unit)', a['body'].replace(' ', '')) for a in arms)
                    if good:
                        continue
                    ok, why = False, 'RustEnum::Unit is guarded by an all-Fields::Unit test over the syn variants, but parse_enum_variant does not map Fields::Unit to RustEnumVariant::Unit only'
                    continue
                ok, why = False, 'construction of RustEnum::Unit is not guarded by a test that every variant is a unit variant (`.all(matches!(.., RustEnumVariant::Unit(_)))` or the same over the syn fields)'
        if not found:
            ok, why = False, 'RustEnum::Unit(..) construction not found in parse_enum (astq)'
    rep.check(ok, 'P3', 'unit-enum-invariant', 'RustEnum::Unit constructed only in parse_enum under the all-unit test', why)
    _unit_inv['v'] = ok
    return ok


def abstract(snippet):
    """Name-independent shape of a source snippet: identifiers that are neither a member (`.x`, `::x`), a call/macro/path
    head (`x(`, `x!`, `x::`) nor `self` become `$` — renaming a local variable or parameter does not change the shape."""
    out = []
    sn = norm(snippet)
    # `x.expect("why")` and `x.unwrap()` assert the same thing: one shape (the message is not part of what can panic)
    sn = re.sub(r'\.expect\((?:"(?:[^"\\]|\\.)*"?)?', '.unwrap(', sn)
    for m in re.finditer(r'"(?:[^"\\\\]|\\\\.)*"?|[A-Za-z_][A-Za-z0-9_]*|.', sn):
        t = m.group(0)
        if t.startswith('"'):
            out.append(t)   # string literals (panic messages) are part of the shape
        elif re.fullmatch(r'[A-Za-z_][A-Za-z0-9_]*', t):
            before = sn[m.start() - 1] if m.start() > 0 else ''
            after = sn[m.end():m.end() + 2]
            keep = t in ('self', 'Self', 'true', 'false', 'as', 'mut') or (before == '.' and sn[max(0, m.start() - 2):m.start()] != '..') or sn[max(0, m.start() - 2):m.start()] == '::' or after[:1] in ('(', '!') or after == '::' or t[0].isupper()
            out.append(t if keep else '$')
        else:
            out.append(t)
    return ''.join(out)


def dead_for_every_variant(ctx, f, frames, arm):
    from .. import special
    sc = vt.unvar(arm.get('scrut'))
    while isinstance(sc, dict) and sc.get('k') in ('ref', 'deref', 'paren'):
        sc = vt.unvar(sc.get('v'))
    if not (isinstance(sc, dict) and sc.get('k') == 'atom' and sc.get('param') and not sc.get('path')):
        return None
    param = sc['root']
    pty = next((str(p_.get('ty') or '') for p_ in f['params'] if p_['name'] == param), '')
    enum_name = pty.replace('&', '').replace('mut ', '').strip().split('<')[0].split('::')[-1]
    enums = [i for i in ctx.astq['items'] if i['kind'] == 'enum' and i['name'] == enum_name]
    if len(enums) != 1:
        return None
    G = ctx.x(f)
    # the frames of the site in the inlined view (helpers such as the look-up are expanded there): same line, longest guard
    vframes = frames
    for coll in ('panics', 'calls', 'sites'):
        for x in G.get(coll, []):
            if x.get('guard') and len(x['guard']) >= len(vframes) and x.get('line') == arm.get('line') or (x.get('guard') and x['guard'][-1:] == frames[-1:] and len(x['guard']) > len(vframes)):
                vframes = x['guard']
    live = []
    for var in enums[0]['variants']:
        V = var['name']
        verdicts = []
        for fr in vframes:
            t = special.frame_truth(fr, param, V)
            if t is None and fr.get('k') == 'arm' and special._is_param(fr.get('scrut'), param):
                named = any(V in special._short(a.get('variants', [])) for m in G.get('matches', []) if vt.ckey(m.get('scrut')) == vt.ckey(fr.get('scrut')) and any(a2.get('line') == fr.get('line') for a2 in m.get('arms', [])) for a in m.get('arms', []))
                t = not named
            verdicts.append(t)
        if not any(t is False for t in verdicts):
            live.append(V)
    if live:
        return None
    return f"dead arm: for each of the {len(enums[0]['variants'])} variants of {enum_name} either a sibling arm names it or the function has returned before the match (specialisation of the guard frames per variant)"


def dead_param_variant(prog, s, arm):
    """The arm `Enum::X => panic!(..)` matches on a parameter of the function; each caller passes a local that is only
    ever assigned unit-variant constructors of Enum in the caller's own body, none of them X.  Returns the reason or None."""
    scr = arm.get('scrut')
    if not (isinstance(scr, dict) and scr.get('k') == 'atom' and scr.get('param') and not scr.get('path')):
        return None
    enum, var = arm['variants'][0].rsplit('::', 1)
    b = prog.bodies[s['body']]
    root_key = b.get('root') or s['body']
    rb = prog.bodies[root_key]
    pname = scr.get('root')
    ploc = rb.get('names', {}).get(pname)
    if not (ploc and re.fullmatch(r'_\d+', ploc)):
        return None
    pidx = int(ploc[1:]) - 1
    callers = [(k, c) for k, cb in prog.bodies.items() for c in cb['calls'] if root_key in prog.targets_of_call(c)]
    if not callers:
        return None
    seen_variants = set()
    for k, c in callers:
        cb = prog.bodies[k]
        if pidx >= len(c['args']):
            return None
        m = re.match(r'(?:move|copy) (_\d+)$', c['args'][pidx].strip())
        if not m:
            return None
        flow, todo = set(), [m.group(1)]
        while todo:
            x = todo.pop()
            if x in flow:
                continue
            flow.add(x)
            if int(x[1:]) <= cb.get('arg_count', 0):
                return None   # comes from the caller's own parameter: unknown
            defs = [st for blk in cb['blocks'] for st in blk['stmts'] if st.startswith(x + ' = ')]
            if any(str(cc.get('dest') or '').split(' ')[0] == x for cc in cb['calls']):
                return None   # produced by a call: unknown
            for st in defs:
                rhs = st[len(x) + 3:]
                mm = re.fullmatch(r'(?:move|copy) (_\d+)', rhs)
                if mm:
                    todo.append(mm.group(1))
                    continue
                mv = re.fullmatch(r'(?:[A-Za-z_0-9]+::)*' + re.escape(enum.split('::')[-1]) + r'::(\w+)', rhs)
                if mv:
                    seen_variants.add(mv.group(1))
                    continue
                return None
    if var in seen_variants or not seen_variants:
        return None
    return f"dead arm: no caller of {rb['id']} passes {enum}::{var} (callers construct only {sorted(seen_variants)} in this feature configuration)"


def len_guard(ctx, s):
    """`xs[i]` with a literal i is in bounds when a dominating condition (if / match-arm guard) states `xs.len() == k` (k > i),
    `xs.len() >= k` (k > i), `xs.len() > k` (k >= i) or, for i = 0, `!xs.is_empty()` about the very same collection."""
    for f in ctx.astq['functions']:
        if not s['file'].endswith(f['file']) or not (f['line'] <= s['line'] <= f.get('end_line', 10 ** 9)):
            continue
        for ix in f.get('indexes', []):
            if ix.get('line') != s['line'] or ix.get('range'):
                continue
            iv = vt.strip(ix.get('index'))
            if not (isinstance(iv, dict) and iv.get('k') == 'lit' and str(iv.get('v', '')).isdigit()):
                continue
            i = int(iv['v'])
            base = vt.ckey(ix.get('base'))
            conds = []
            for fr in ix.get('guard', []):
                if fr.get('k') == 'if' and not fr.get('neg'):
                    conds.append(fr.get('c'))
                if fr.get('k') == 'if' and fr.get('neg'):
                    conds.append({'k': 'op', 'op': '!', 'args': [fr.get('c')]})
                if fr.get('k') == 'arm' and fr.get('guard'):
                    conds.append(fr['guard'])
            for c in conds:
                todo = [vt.unvar(c)]
                while todo:
                    x = todo.pop()
                    if not isinstance(x, dict):
                        continue
                    if x.get('k') == 'op' and x.get('op') == '&&':
                        todo.extend(vt.unvar(a) for a in x['args'])
                        continue
                    if x.get('k') == 'paren':
                        todo.append(vt.unvar(x.get('v')))
                        continue
                    if x.get('k') == 'op' and x.get('op') in ('==', '>=', '>') and len(x.get('args', [])) == 2:
                        l, r = vt.strip(x['args'][0]), vt.strip(x['args'][1])
                        if isinstance(l, dict) and l.get('k') == 'call' and l.get('f') in ('len', 'count') and isinstance(r, dict) and r.get('k') == 'lit' and str(r.get('v', '')).isdigit():
                            subj = l.get('recv')
                            while isinstance(vt.strip(subj), dict) and vt.strip(subj).get('k') == 'call' and vt.strip(subj).get('f') in ('iter', 'chars') and vt.strip(subj).get('recv') is not None and l.get('f') == 'count':
                                subj = vt.strip(subj)['recv']
                            kk = int(r['v'])
                            enough = (x['op'] in ('==', '>=') and kk > i) or (x['op'] == '>' and kk >= i)
                            if enough and vt.ckey(subj) == base:
                                return f"dominated by `{vt.show(x)[:60]}` on the indexed collection"
                    if x.get('k') == 'op' and x.get('op') == '!' and i == 0:
                        y = vt.strip(x['args'][0])
                        if isinstance(y, dict) and y.get('k') == 'call' and y.get('f') == 'is_empty' and vt.ckey(y.get('recv')) == base:
                            return 'dominated by a non-emptiness test of the indexed collection'
    return None


def lookup(table, s, used=None, prog=None):
    """Table entry for a site: same kind, file and (when given) enclosing function, same name-independent shape.
    An entry covers `count` sites (default 1) of its function; further look-alike sites are unclassified."""
    shape = abstract(s['snippet'])
    for i, e in enumerate(table['sites']):
        if e['kind'] != s['kind']:
            continue
        es = abstract(e['snippet'])
        if es != shape[:len(es)] and es != shape:
            continue
        if e.get('file') and not s['file'].endswith(e['file']):
            continue
        if e.get('fn') and e['fn'] not in s['fn']:
            # the construct may have moved into a local helper of the function the entry names
            if prog is None or s['fn'] not in helpers_of(prog, e['fn']):
                continue
        if used is not None and e.get('fn'):
            if used.get(i, 0) >= e.get('count', 1):
                continue
            used[i] = used.get(i, 0) + 1
        return e
    return None


def emptiness_assertion(ctx, table, s, prog):
    """The 'clap-required' table entry whose subject list is the one this panic-capable construct asserts to be non-empty."""
    if s['kind'] not in ('panic', 'unreachable', 'unwrap', 'expect'):
        return None
    for e in table['sites']:
        if e.get('discharge') != 'clap-required' or not e.get('fn'):
            continue
        if e['fn'] not in s['fn'] and (prog is None or s['fn'] not in helpers_of(prog, e['fn'])):
            continue
        m = re.match(r'\s*&?\s*([A-Za-z_]\w*)', e['snippet'])
        if not m:
            continue
        subject = m.group(1)
        for f in ctx.astq['functions']:
            if not s['file'].endswith(f['file'].split('/')[-1]) or not (f['line'] <= s['line'] <= f.get('end_line', 10 ** 9)):
                continue
            for rec in f.get('panics', []):
                if rec.get('line') != s['line']:
                    continue
                for fr in rec.get('guard', []):
                    if fr.get('k') != 'if':
                        continue
                    c = vt.unvar(fr.get('c'))
                    if isinstance(c, dict) and c.get('k') == 'iflet' and fr.get('neg') and c.get('variants') == ['Some']:
                        txt = vt.show(vt.strip(c.get('scrut'))).replace(' ', '')
                        if re.fullmatch(rf'&?{re.escape(subject)}\.(split_first|first|last|split_last|get\(0\)|iter\(\)\.next)\(?\)?', txt) or txt in (f'{subject}.split_first()', f'{subject}.first()', f'{subject}.last()', f'{subject}.split_last()'):
                            return e
                    if isinstance(c, dict) and c.get('k') == 'call' and c.get('f') == 'is_empty' and not fr.get('neg') and vt.show(vt.strip(c.get('recv'))).replace(' ', '').lstrip('&') == subject:
                        return e
    return None


_helpers = {}


def helpers_of(prog, fn):
    """Readable ids of the functions reachable from `fn` through same-crate calls (its local helpers)."""
    key = (id(prog), fn)
    if key not in _helpers:
        roots = [k for k, b in prog.bodies.items() if b['kind'] != 'closure' and (b['id'] == fn or b['id'].endswith('::' + fn) or b['id'].endswith(fn))]
        ids = set()
        for r in roots:
            for k in prog.region([r]):
                b = prog.bodies[k]
                root = prog.bodies.get(b.get('root')) if b.get('root') else b
                ids.add(root['id'])
        _helpers[key] = ids
    return _helpers[key]


def discharge(ctx, prog, cr, ent, s, frames):
    d = ent.get('discharge')
    if not d:
        return True, ''
    if d == 'guard-contains':
        txt = json.dumps(frames)
        missing = [n for n in ent['needles'] if n not in txt]
        return (not missing), ('dominating test ' + ' & '.join(ent['needles']) + ' present' if not missing else f'expected dominating test containing {missing}')
    if d == 'no-err-from':
        # no Result::Err / error aggregate reachable from the given function in the given Self context
        starts = [(k, ent.get('self_ty')) for k in prog.find(ent['from'])]
        starts = [st for st in starts if prog.bodies[st[0]].get('is_default') or prog.bodies[st[0]].get('self_ty') == ent.get('self_ty')]
        if not starts:
            return False, f"anchor {ent['from']} not found"
        r = cr.reach(starts)
        bad = []
        for n in r:
            b = prog.bodies[n[0]]
            if b.get('derived'):
                continue
            for a in b['aggregates']:
                if a['adt'].endswith(ent['adt']):
                    bad.append(f"{b['id']}:{a['line']}")
        return (not bad), (f"no {ent['adt']} value is constructed in {len(r)} bodies reachable from {ent['from']}[Self={ent.get('self_ty')}]" if not bad else f"{ent['adt']} constructed at {bad[:3]}")
    if d == 'syn-path-segments':
        b = prog.bodies[s['body']]
        uw = [c for c in b['calls'] if c['bb'] == s['bb'] and c['callee'].endswith(UNWRAPS)]
        if len(uw) != 1 or not any('syn::PathSegment' in t2 for t2 in uw[0].get('arg_tys', [])):
            return False, 'the unwrapped value is not an Option<&syn::PathSegment>'
        m = re.match(r'(?:move|copy) (_\d+)', uw[0]['args'][0]) if uw[0].get('args') else None
        prod = [c for c in b['calls'] if m and str(c.get('dest') or '').split(' ')[0] == m.group(1)]
        ok = len(prod) == 1 and (re.search(r'punctuated::Punctuated::<T, P>::(last|first)$', prod[0]['callee'])
                                 or (re.search(r'Iterator>?::(last|next)$|DoubleEndedIterator>?::next_back$', prod[0]['callee']) and any('punctuated::Iter<' in t2 and 'PathSegment' in t2 for t2 in prod[0].get('arg_tys', []))))
        return bool(ok), ('first/last element of the segment list of a parsed syn::Path' if ok else f"produced by `{prod[0]['callee'][-60:] if prod else '?'}`, not by first()/last() of a Punctuated<PathSegment>")
    if d == 'clap-required':
        a = [i for i in ctx.astq['items'] if i['kind'] == 'struct' and i['file'].endswith('args.rs')]
        txt = json.dumps(a)
        missing = [n for n in ent['needles'] if n not in txt]
        return (not missing), ('clap attributes ' + ', '.join(ent['needles']) + ' present in args.rs' if not missing else f'clap attribute(s) {missing} not found in args.rs')
    return False, f'unknown discharge {d}'


def p5(ctx, rep):
    """P5: the dependency collectors of topsort.rs recurse through the *name table* (a graph that may contain cycles:
    self-referential and mutually recursive types are legal input), so each of them must enter its recursion only after
    `seen.insert(<its own key>)` succeeded — the visited-set discipline that bounds the recursion depth by the number of
    items.  Without it a type that reaches itself through two fields recurses until the stack overflows (process abort,
    no diagnostic).  Structural recursion on a finite type tree (container arms of get_dependencies_from_type) needs no guard."""
    from .. import inline
    # views of the collectors; helper functions no rule knows are seen inside their callers (with the callers' guards)
    fns = [f for f in inline.file_views(ctx, 'topsort.rs') if any('HashSet<String>' in str(q.get('ty') or '') for q in f['params'])]
    names = {f['name'] for f in fns}
    n = 0
    for f in fns:
        fx = f
        seen_p = next(q['name'] for q in f['params'] if 'HashSet<String>' in str(q.get('ty') or ''))
        for c in fx['calls']:
            cal = str(c.get('f') or '').split('::')[-1]
            if cal not in names or c.get('recv') is not None:
                continue
            through_table = (f['name'] != 'get_dependencies_from_type') or cal != 'get_dependencies_from_type'
            # the dispatcher get_dependencies only forwards one item to its collector
            if f['name'] == 'get_dependencies':
                continue
            if not through_table:
                continue
            n += 1

            def guards(fr):
                cv = vt.unvar(fr.get('c'))
                hit = isinstance(cv, dict) and cv.get('k') == 'call' and cv.get('f') == 'insert' and vt.show(vt.strip(cv.get('recv'))) == seen_p
                if not hit and isinstance(cv, dict) and cv.get('k') == 'op' and cv.get('op') == '!':
                    inner = vt.unvar(cv['args'][0])
                    return isinstance(inner, dict) and inner.get('f') == 'insert' and vt.show(vt.strip(inner.get('recv'))) == seen_p and bool(fr.get('neg'))
                return hit and not fr.get('neg')
            ok = any(fr.get('k') == 'if' and guards(fr) for fr in c['guard'])
            rep.check(ok, 'P5', f"{f['name']}->{cal}:visited-guard", f'entered only after {seen_p}.insert(..) succeeded', f"{f['name']} recurses into {cal} without first recording itself in `{seen_p}` (`if {seen_p}.insert(<own id>)`): a type that reaches itself through the item table (self-referential struct with two such fields, mutually recursive types) is walked again and again until the stack overflows — typeshare aborts without output or diagnostic", {'file': f['file'], 'line': c.get('line')})
    rep.floor('P5', 'recursive collector calls through the item table', n, 3)


def p4(ctx, prog, rep):
    """Channel protocol in parallel_parse."""
    pp = prog.find('parallel_parse', crate='typeshare#bin')
    pp = [k for k in pp if prog.bodies[k]['kind'] == 'fn']
    if len(pp) != 1:
        raise core.Incomplete('parallel_parse not found')
    b = prog.bodies[pp[0]]
    site = {'file': 'cli/src/parse.rs', 'line': b['line']}
    calls = b['calls']
    bounded = [c for c in calls if c['callee'].endswith('channel::bounded')]
    run = [c for c in calls if c['callee'].endswith('WalkParallel::run')]
    spawn = [c for c in calls if c['callee'].endswith('thread::spawn')]
    rep.floor('P4', 'WalkParallel::run call in parallel_parse', len(run), 1)
    if not bounded:
        rep.ok('P4', 'channel-bounded', 'channel is not bounded; producers cannot block', site)
        return
    # where is the receiver consumed?
    consumers = []
    whole = prog.region(pp, stop=('parse_dir_entry',))   # parallel_parse, its closures, and local helpers they call
    for k in whole:
        for c in prog.bodies[k]['calls']:
            if 'crossbeam_channel' in c['callee'] and re.search(r'(IntoIter|Iter|TryIter).*::next$|Receiver<T>::(recv|try_recv|recv_timeout|iter|try_iter)$|IntoIterator>::into_iter$', c['callee']):
                consumers.append((k, c))
    rep.floor('P4', 'receiver consumption sites', len(consumers), 1)
    spawned_closures = set()
    for sp in spawn:
        # closure aggregate built in the same block region: take closures referenced before the spawn call
        for r in b['refs']:
            if r['kind'] == 'closure' and prog.dominates(b, r['bb'], sp['bb']):
                spawned_closures.add(r['key'])
    ok = False
    why = 'the bounded channel is consumed only on the thread that also runs the walker, after/around WalkParallel::run — more than capacity pending results block every producer forever'
    on_thread = set(prog.region(sorted(spawned_closures), stop=('parse_dir_entry',))) if spawned_closures else set()
    for k, c in consumers:
        if k in on_thread and k != pp[0] and any(prog.dominates(b, sp['bb'], r['bb']) for sp in spawn for r in run):
            ok = True
    rep.check(ok, 'P4', 'consumer-runs-concurrently', 'receiver is drained by a closure handed to thread::spawn before WalkParallel::run starts', why, site)
    # worker sends vs collector early exit
    send_unwraps = []
    for k in whole:
        for c in prog.bodies[k]['calls']:
            if c['callee'].endswith(UNWRAPS) and 'send(' in c['snippet']:
                send_unwraps.append(c)
    early = False
    for k in on_thread:
        for c in prog.bodies[k]['calls']:
            if c['callee'].endswith('Try>::branch') or 'Try::branch' in c['callee'] or re.search(r'FromIterator<.*Result', c['callee']):
                early = True
    if send_unwraps and early:
        rep.fail('P4', 'send-unwrap-vs-early-exit', f'collector returns on the first Err (drops the receiver) while {len(send_unwraps)} worker-side `send(..).unwrap()` panic on a disconnected channel — two failing files panic a walker thread', {'file': 'cli/src/parse.rs', 'line': send_unwraps[0]['line']})
    else:
        rep.ok('P4', 'send-unwrap-vs-early-exit', 'no panicking send against an early-exiting collector', site)
