"""Emission model helpers: canonical atoms, flattening of value trees into name-component sequences."""
import itertools
import re

from . import vt

OWNERS = {'RustStruct', 'RustEnumShared', 'RustEnumVariantShared', 'RustTypeAlias', 'RustConst', 'RustField', 'RustEnum', 'RustEnumVariant',
          'Kotlin', 'Swift', 'Scala', 'Go', 'Python', 'TypeScript', 'ParsedData', 'Config', 'Id'}
BACKENDS = {
    'kotlin': ('Kotlin', 'language/kotlin.rs'),
    'swift': ('Swift', 'language/swift.rs'),
    'scala': ('Scala', 'language/scala.rs'),
    'go': ('Go', 'language/go.rs'),
    'python': ('Python', 'language/python.rs'),
    'typescript': ('TypeScript', 'language/typescript.rs'),
}


class Types:
    def __init__(self, astq):
        self.structs = {}
        self.enums = {}
        for i in astq['items']:
            if i['kind'] == 'struct':
                self.structs[i['name']] = {f['name']: f['ty'] for f in i['fields']}
            elif i['kind'] == 'enum':
                self.enums[i['name']] = i

    def field_ty(self, owner, f):
        if owner is None:
            return None
        base = owner.split('<')[0]
        return self.structs.get(base, {}).get(f)

    def reduce(self, owner, path):
        """Re-anchor (owner, path) at the last IR owner type met along the path."""
        cur = owner
        anchor_ty, anchor_ix = owner, 0
        for ix, f in enumerate(path):
            nxt = self.field_ty(cur, f)
            if nxt is None:
                break
            cur = nxt
            b = cur.split('<')[0]
            if b in OWNERS and b != 'Id':
                anchor_ty, anchor_ix = b, ix + 1
        return anchor_ty, list(path[anchor_ix:])

    def canon(self, v):
        """(owner type, field path) of an access expression, or None."""
        v0 = v
        v = vt.strip(v)
        if not isinstance(v, dict):
            return None
        kk = v.get('k')
        if kk == 'atom':
            rt = v.get('root_ty')
            if rt is None:
                return ('?' + v.get('root', ''), list(v.get('path', [])))
            return self.reduce(rt.split('<')[0] if rt.split('<')[0] in OWNERS else rt, v.get('path', []))
        if kk == 'field':
            b = self.canon(v['base'])
            if b is None:
                bt = (v['base'].get('ty') or '').split('<')[0] if isinstance(v['base'], dict) else ''
                if bt in OWNERS:
                    return self.reduce(bt, [v['name']])
                return None
            return self.reduce(b[0], b[1] + [v['name']])
        ty = (v.get('ty') or '').split('<')[0]
        if ty in OWNERS and kk in ('call', 'payload', 'elem', 'index'):
            return (ty, [])
        if kk == 'payload':
            # unnamed owner type: describe by variant + field
            return ('@' + str(v.get('variant')), [str(v.get('field', v.get('pos', '')))])
        if kk == 'elem':
            of = self.canon(v['of']) if isinstance(v.get('of'), dict) else None
            if of:
                return (of[0], of[1] + ['[]'])
        return None

    def canon_s(self, v):
        c = self.canon(v)
        if c is None:
            return None
        return c[0] + ('.' + '.'.join(c[1]) if c[1] else '')


IDENT_TRANSPARENT = vt.TRANSPARENT_CALLS | {'&'}


def flatten(T, v, depth=0, limit=64):
    """Alternatives of component sequences.  Component = ('lit', text) | ('atom', canon string, via tuple) | ('opaque', text).
    Conditionals / matches multiply alternatives (capped)."""
    if depth > 40:
        return [[('opaque', 'deep')]]
    if v is None:
        return [[]]
    if not isinstance(v, dict):
        return [[('opaque', repr(v))]]
    kk = v.get('k')
    if kk in ('var', 'try', 'some'):
        return flatten(T, v['v'], depth + 1, limit)
    if kk == 'lit':
        return [[('lit', str(v.get('v')))]] if v.get('v') != '' else [[]]
    if kk == 'payload' and v.get('variant') in ('Some', 'Ok') and isinstance(v.get('of'), dict):
        return [a for a in flatten(T, v['of'], depth + 1, limit) if a] or [[]]
    if kk in ('none', 'unit'):
        return [[]]
    if kk == 'fmt':
        alts = [[]]
        for p in v.get('parts', []):
            if 'lit' in p:
                alts = [a + [('lit', p['lit'])] for a in alts]
            else:
                sub = flatten(T, p['hole'], depth + 1, limit)
                if p.get('spec') == '?':
                    sub = [[('lit', '"')] + s + [('lit', '"')] for s in sub]
                alts = [a + s for a in alts for s in sub][:limit]
        return alts
    if kk == 'cond':
        return (flatten(T, v['t'], depth + 1, limit) + flatten(T, v['e'], depth + 1, limit))[:limit]
    if kk == 'match':
        out = []
        for a in v.get('arms', []):
            out.extend(flatten(T, a['v'], depth + 1, limit))
        return out[:limit] or [[]]
    if kk == 'alt':
        out = []
        for a in v.get('alts', []):
            out.extend(flatten(T, a, depth + 1, limit))
        return out[:limit] or [[]]
    if kk == 'call':
        f = v.get('f')
        if v.get('local_closure') and v.get('result') is not None:
            return flatten(T, v['result'], depth + 1, limit)
        c = T.canon_s(v)
        if c is not None and vt.strip(v) is not v:
            inner = vt.strip(v)
            return flatten(T, inner, depth + 1, limit)
        if f in IDENT_TRANSPARENT:
            inner = v.get('recv') if v.get('recv') is not None else (v['args'][0] if v.get('args') else None)
            return flatten(T, inner, depth + 1, limit)
        if f in ('join', 'join_with'):
            return [[('opaque', 'join(' + vt.show(v.get('recv'))[:80] + ')')]]
        # method on the backend object itself: type formatting is opaque, string helpers wrap their argument
        rc = T.canon(v['recv']) if isinstance(v.get('recv'), dict) else None
        if rc is not None and rc[1] == [] and rc[0] in OWNERS:
            if f in ('format_type', 'format_simple_type', 'format_generic_type', 'format_special_type', 'generic_constraints', 'format_generic_parameters') or not v.get('args'):
                return [[('call', f, vt.show(v['args'][0])[:60] if v.get('args') else '')]]
            sub = flatten(T, v['args'][0], depth + 1, limit)
            return [[(('atom', c[1], c[2] + (f,)) if c[0] == 'atom' else c) for c in s_] for s_ in sub]
        # wrapper call: keep the callee as via on the atoms of its (single) string argument
        subject = v.get('recv') if v.get('recv') is not None else (v['args'][0] if v.get('args') else None)
        if len(v.get('args', [])) > 1 and v.get('recv') is None:
            # e.g. convert_acronyms_to_uppercase(list, &name): subject = last arg
            subject = v['args'][-1]
        if subject is None:
            return [[('opaque', vt.show(v)[:80])]]
        sub = flatten(T, subject, depth + 1, limit)
        out = []
        for s in sub:
            out.append([(c[0], c[1], (c[2] + (f,)) if c[0] == 'atom' else None) if c[0] == 'atom' else (c if c[0] == 'lit' else c) for c in s] if True else s)
        # mark literals as transformed too
        res = []
        for s in out:
            res.append([(('atom', c[1], c[2]) if c[0] == 'atom' else (('lit', c[1]) if c[0] == 'lit' else c)) for c in s])
        return res
    c = T.canon_s(v)
    if c is not None:
        return [[('atom', c, ())]]
    if kk == 'index':
        sub = flatten(T, v['base'], depth + 1, limit)
        return [[(('atom', x[1], x[2] + ('index',)) if x[0] == 'atom' else x) for x in s] for s in sub]
    return [[('opaque', vt.show(v)[:80])]]


def seq_str(seq):
    out = []
    for c in seq:
        if c[0] == 'lit':
            out.append(repr(c[1]))
        elif c[0] == 'atom':
            out.append('{' + c[1] + ('|' + '>'.join(c[2]) if c[2] else '') + '}')
        elif c[0] == 'call':
            out.append('<' + c[1] + '(' + c[2] + ')>')
        else:
            out.append('<' + c[1] + '>')
    return ' '.join(out)


def merge_lits(seq):
    out = []
    for c in seq:
        if c[0] == 'lit' and out and out[-1][0] == 'lit':
            out[-1] = ('lit', out[-1][1] + c[1])
        elif c[0] == 'lit' and c[1] == '':
            continue
        else:
            out.append(c)
    return out


def site_alternatives(T, site, limit=64):
    """Flattened alternatives of a whole emission site's template."""
    alts = flatten(T, site['fmt'], limit=limit)
    return [merge_lits(a) for a in alts]


def subst(v, env):
    """Substitute param atoms (root in env, empty root path prefix) by caller-side values."""
    if isinstance(v, list):
        return [subst(x, env) for x in v]
    if not isinstance(v, dict):
        return v
    if v.get('k') == 'atom' and v.get('root') in env:
        rep = env[v['root']]
        path = v.get('path', [])
        cur = rep
        for f in path:
            cur = {'k': 'field', 'base': cur, 'name': f}
        if isinstance(cur, dict) and v.get('ty') and 'ty' not in cur:
            cur = dict(cur)
            cur['ty'] = v['ty']
        return cur
    if v.get('k') == 'call' and v.get('recv') is None and v.get('f') in env and isinstance(env[v['f']], dict) and vt.strip(env[v['f']]).get('k') == 'closure':
        # calling a closure parameter: beta-reduce with the closure's generic body
        clo = vt.strip(env[v['f']])
        params = [p['names'][0] if p['names'] else '_' for p in clo.get('params', [])]
        args = [subst(a, env) for a in v.get('args', [])]
        inner_env = dict(zip(params, args))
        return subst(clo.get('body'), inner_env)
    return {k2: subst(x, env) if isinstance(x, (dict, list)) else x for k2, x in v.items()}


def caller_env(fns, g):
    """Bind g's parameters to the arguments of its callers inside the same backend (only when all callers agree
    on a parameter's value or it is a closure); returns {param: value}."""
    params = [p['name'] for p in g['params'] if p['name'] != 'self']
    envs = []
    for f in fns:
        for c in f['calls']:
            if c.get('f') == g['name'] and c.get('recv') is not None and len(c.get('args', [])) == len(params):
                envs.append(dict(zip(params, c['args'])))
    if not envs:
        return {}
    out = {}
    for p in params:
        vals = [e[p] for e in envs]
        first = vt.strip(vals[0])
        if isinstance(first, dict) and first.get('k') == 'closure' and all(vt.strip(v) == first for v in vals):
            out[p] = vals[0]
    return out
