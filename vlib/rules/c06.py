"""C06 — output is a deterministic function of the inputs.

Decided: no order-sensitive consumer of hash-iteration order and no explicit nondeterminism source on any path
to an output byte; arrival order of per-file results is erased by sorting every merged item vector under a total
key before generation; per-file state never decides what is kept.
(D1) every Iterator/Extend consumer whose receiver type mentions a std hash_map/hash_set iterator anywhere in its
adaptor stack (resolved MIR types) is order-insensitive by construction (collect/extend into a set or map, any/all/
count/min/max/sum, itertools sorted), or is a reviewed site whose discharge is re-derived (sorted after collection,
membership-only use), or is reported; (D3) no clock / randomness / environment / address source reachable from
generation; (D4) the collector folds into an ordered map with `+=`; (D5) every vector AddAssign appends is sorted
in reconcile_aliases, which dominates write_generated, and the sort key covers the item; (D6) ParsedData::push is
unconditional; (D7) the writers replace the output file (nothing an earlier run left at the path survives)."""
import json
import os
import re

from .. import cg, core, vt

HASH = re.compile(r'hash_(map|set)::|hash::(map|set)::')
# min_by / max_by are in the same class as min_by_key / max_by_key: the selected element is independent of the iteration order
# up to ties of the comparator (ties among the elements of a *set* that compare equal on the key — same caveat for all four)
INSENSITIVE = {'any', 'all', 'count', 'min', 'max', 'sum', 'product', 'sorted', 'sorted_by', 'sorted_by_key', 'sorted_unstable', 'min_by_key', 'max_by_key', 'min_by', 'max_by', 'is_empty', 'len', 'contains', 'size_hint', 'unique'}
ADAPTERS = {'map', 'filter', 'cloned', 'copied', 'flat_map', 'chain', 'into_iter', 'filter_map', 'inspect', 'peekable', 'zip', 'enumerate', 'skip', 'take', 'rev', 'by_ref', 'flatten', 'map_while', 'iter', 'keys', 'values', 'drain', 'difference', 'intersection', 'union', 'skip_while', 'take_while', 'step_by', 'fuse', 'scan', 'cycle', 'clone', 'borrow', 'deref', 'as_ref', 'from', 'into'}
ORDERED_TARGETS = ('HashSet<', 'HashMap<', 'BTreeSet<', 'BTreeMap<', 'hash::set::HashSet', 'hash::map::HashMap', 'btree::set::BTreeSet', 'btree::map::BTreeMap', 'collections::HashSet', 'collections::HashMap', 'collections::BTreeSet', 'collections::BTreeMap')
NONDET = re.compile(r'SystemTime::now|Instant::now|\brand::|RandomState::new|thread::current|env::var\b|env::vars|env::var_os|process::id|getrandom|fastrand|Uuid::new|thread_rng|current_exe|temp_dir|ThreadId')


def norm(s):
    return re.sub(r'\s+', '', re.sub(r'//[^\n]*', '', s or ''))


def run(ctx, rep):
    rep.explanation = ('Determinism decided as "who may consume": the resolved MIR of every function in core and cli is scanned for iterator consumers whose receiver '
                       'type mentions a std hash-map/set iterator anywhere in the adaptor stack (so hash order cannot reach an output byte unnoticed), for '
                       'nondeterminism sources, and for the sort-after-merge discipline (field coverage of AddAssign vs. sorts in reconcile_aliases, dominance of '
                       'reconcile_aliases over write_generated, totality of the Ord keys).')
    rep.not_decided = 'particular schedules and thread counts are not enumerated: the argument is that no construct can observe them once the listed findings are repaired.'
    rep.trusted = ['rustc type checking / MIR (receiver types of iterator calls)', 'rules/c06_sites.json (reviewed hash-order consumers, one reason each)']
    table = json.load(open(os.path.join(core.VERIF, 'rules', 'c06_sites.json')))
    fsets = ['all'] if ctx.tier == 'quick' else ['all', 'default', 'go', 'python']
    seen = set()
    total = 0
    for fs in fsets:
        prog = cg.Program(ctx.mirq(fs))
        sites = []
        for k, b in sorted(prog.bodies.items()):
            if prog.crate_of[k] not in ('typeshare_core', 'typeshare#bin') or b.get('derived'):
                continue
            root = prog.bodies.get(b.get('root')) if b.get('root') else b
            for c in b['calls']:
                tys = c.get('arg_tys', [])
                if not any(HASH.search(t) for t in tys) and not (HASH.search(c['fn_ty']) and ('Iterator' in c['callee'] or 'Itertools' in c['callee'])):
                    continue
                name = c['callee'].split('::')[-1]
                if not re.search(r'Iterator|Itertools|Extend|FromIterator|IntoIterator|JoinableIterator|<impl ', c['callee']) and name not in ('extend', 'join', 'concat'):
                    continue
                if name in ADAPTERS:
                    continue
                sites.append((root or b, b, c, name))
        rep.floor('D1', f'{fs}: hash-order consumer sites', len(sites), 8)
        total += len(sites)
        occ = {}
        for root, b, c, name in sites:
            base = f"{root['id']}:{name}:{norm(c['snippet'])[:90]}"
            occ[base] = occ.get(base, 0) + 1
            key = f"{base}#{occ[base]}"
            if key in seen:
                continue
            seen.add(key)
            site = {'file': os.path.relpath(c['file'], ctx.repo) if c['file'].startswith('/') else c['file'], 'line': c['line']}
            # auto-discharge
            if name in INSENSITIVE:
                rep.ok('D1', key, f'{name} is order-insensitive', site)
                continue
            dest_ty = b['locals'].get(c.get('dest', ''), '')
            if name in ('collect', 'from_iter', 'collect_vec') and any(t in dest_ty for t in ORDERED_TARGETS) and 'Vec<' not in dest_ty.split('<')[0]:
                rep.ok('D1', key, f'collected into {dest_ty[:50]} (order-insensitive container)', site)
                continue
            if name == 'extend' and any(t in (c['arg_tys'][0] if c['arg_tys'] else '') for t in ORDERED_TARGETS):
                rep.ok('D1', key, f"extends {c['arg_tys'][0][:50]} (order-insensitive container)", site)
                continue
            if name in ('collect', 'collect_vec', 'from_iter') and sorted_before_use(prog, b, c):
                rep.ok('D1', key, 'collected into a Vec that is sorted before any other use (MIR: the sort dominates every other use)', site)
                continue
            if name == 'next' and loop_collects_then_sorts(ctx, c):
                rep.ok('D1', key, 'the loop only pushes into a local Vec that is sorted (plain sort) before any other use', site)
                continue
            ent = lookup(table, root['id'], name, norm(c['snippet']))
            if ent is None:
                rep.fail('D1', key, f"unclassified consumer of hash-iteration order: `{norm(c['snippet'])[:110]}` ({c['callee'][:60]}) in {root['id']} — iteration order of a HashMap/HashSet differs between processes (random seed); unless the result is order-insensitive it reaches the output", site)
                continue
            if ent['class'] == 'insensitive':
                ok, why = discharge(ctx, ent, root, c)
                rep.check(ok, 'D1', key, ent['reason'] + (f' [{why}]' if why else ''), f"discharge no longer derivable for `{norm(c['snippet'])[:80]}` in {root['id']}: {why}", site)
            else:
                rep.fail('D1', key, f"order-sensitive use of hash-iteration order in {root['id']}: `{norm(c['snippet'])[:100]}` — {ent['reason']}", site)
        if fs == 'all':
            d3(ctx, rep, prog)
            d45(ctx, rep, prog)
            d7(ctx, rep, prog)
            d8(ctx, rep, prog)
    rep.extra['evaluations'] = total
    rep.extra['feature_sets'] = fsets


def d7(ctx, rep, prog):
    """D7: the bytes of an output file are a function of this run's inputs only — the generation-path writers replace the
    file (truncating primitives, no append / seek), so nothing a previous run left at the path survives (shared with C17 W5)."""
    from . import c17
    for bid, (qual, file) in list(c17.gen_writers(ctx, prog).items()):
        ks = [k for k in prog.bodies if prog.bodies[k]['id'] == bid]
        if len(ks) != 1:
            raise core.Incomplete(f'writer {bid} not found')
        b = prog.bodies[ks[0]]
        sub = core.Report('C06', rep.tier)
        oo_names = c17.oo_flags(b['calls'])
        writes = [c for c in b['calls'] if c17.is_write_event(c, oo_names)]
        c17.truncating(prog, b, ks[0], sub, qual.split('::')[-1], {'file': b['file'], 'line': b['line']}, writes)
        for o in sub.obligations:
            rep.obligations.append(dict(o, rule='D7', key='D7:' + o['key'].split(':', 1)[1]))


_G = r'(?:::)?(?:<[^>]*(?:<[^>]*>)?[^>]*>)?'   # optional generic arguments, with or without turbofish
SHARED_READ = re.compile(r'\b(Mutex|RwLock|ReentrantMutex)' + _G + r'::(lock|try_lock|read|write|try_read|try_write)$'
                         r'|atomic::Atomic\w*' + _G + r'::(load|swap|fetch_\w+|compare_exchange\w*|compare_and_swap)$'
                         r'|\b(OnceLock|OnceCell)' + _G + r'::(set|get|take)$'
                         r'|\bLocalKey' + _G + r'::(with|try_with|set|get|take|replace|with_borrow\w*)$'
                         r'|\bCondvar::wait\w*$|\bDashMap\b|parking_lot::')


def d8(ctx, rep, prog):
    """D8 (worker isolation): the per-file workers of the parallel walk communicate only through the result channel.  No body
    reachable from a walker callback reads cross-thread shared mutable state (a lock, an atomic read-modify-write or load, a
    thread-local, a once-cell set from a worker): what one worker does for a file may not depend on which files other
    workers — or the same thread, earlier — happened to handle first."""
    pp = [k for k in prog.find('parallel_parse', crate='typeshare#bin') if prog.bodies[k]['kind'] == 'fn']
    pde = prog.find('parse_dir_entry', crate='typeshare#bin')
    kids = [k for k in prog.region(pp) if prog.bodies[k]['kind'] == 'closure']
    roots = [k for k in kids if any(p in prog.reach([k]) for p in pde)]
    if not roots:
        # found by role: the closure the walker invokes once per directory entry (its argument is Result<DirEntry, ignore::Error>)
        roots = [k for k in kids if str(prog.bodies[k]['locals'].get('_2', '')).replace(' ', '').startswith('std::result::Result<ignore::DirEntry,')]
    if not roots:
        raise core.Incomplete('D8: walker callback (a closure of parallel_parse that reaches parse_dir_entry, or takes the walker\'s Result<DirEntry, Error>) not found')
    pred = prog.reach(roots)
    hits = []
    for k in pred:
        b = prog.bodies[k]
        if b.get('derived'):
            continue
        for c in b['calls']:
            if SHARED_READ.search(c['callee']):
                hits.append((k, c))
    # positive control: the scanner recognises the idiom where the repository really uses it (Swift's AtomicBool, main thread)
    ctl = [c for k, b in prog.bodies.items() for c in b['calls'] if SHARED_READ.search(c['callee'])]
    if not ctl:
        raise core.Incomplete('D8: positive control failed — no shared-state access recognised anywhere in the program (Swift::should_emit_codable_void expected)')
    rep.analysed['D8:bodies reachable from the walker callbacks'] = len(pred)
    occ = {}
    for k, c in hits:
        base = f"worker-shared-state:{prog.bodies[k]['id']}:{c['callee'].split('::')[-1]}"
        occ[base] = occ.get(base, 0) + 1
        rep.fail('D8', f'{base}#{occ[base]}', f"`{norm(c['snippet'])[:80]}` ({c['callee'][-70:]}) in {prog.bodies[k]['id']} is reachable from a walker thread callback ({' -> '.join(x.split('::')[-1] for x in prog.path_to(pred, k)[-4:])}): "
                 'the worker reads state other walker threads write, so what is parsed or kept for a file depends on thread scheduling', {'file': c['file'], 'line': c['line']})
    # worker-local history: the callback invoked once per directory entry (its argument is the walker's Result<DirEntry, Error>)
    # mutably borrows or assigns a variable it captured from the per-thread builder closure — state that survives from one
    # entry to the next.  Work stealing decides which entries one thread sees and in which order, so anything derived from it
    # depends on scheduling.
    per_entry = [k for k in kids if str(prog.bodies[k]['locals'].get('_2', '')).replace(' ', '').startswith('std::result::Result<ignore::DirEntry,')]
    rep.analysed['D8:per-entry walker callbacks'] = len(per_entry)
    carried = []
    for k in per_entry:
        b = prog.bodies[k]
        upv = {m_.group(1): (nm, m_.group(2)) for nm, pl in (b.get('names') or {}).items() for m_ in [re.match(r'\(\(\*_1\)\.(\d+): (.*)\)$', str(pl))] if m_}
        for blk in b.get('blocks', []):
            for st in list(blk.get('stmts', [])) + [blk.get('term') or '']:
                for m_ in re.finditer(r'&mut \(\(\*_1\)\.(\d+)', st):
                    carried.append((k, m_.group(1), upv.get(m_.group(1), ('?', '?'))))
                m2 = re.match(r'\(\(\*_1\)\.(\d+)[^=]*\) = ', st)
                if m2:
                    carried.append((k, m2.group(1), upv.get(m2.group(1), ('?', '?'))))
    seen_c = set()
    for k, ix, (nm, ty) in carried:
        if (k, ix) in seen_c:
            continue
        seen_c.add((k, ix))
        b = prog.bodies[k]
        if re.match(r'(std::string::String|std::vec::Vec<u8>|std::path::PathBuf)$', ty.strip()):
            raise core.Incomplete(f"D8: the per-entry walker callback {b['id']} reuses a captured buffer `{nm}: {ty}` across entries — whether it is reset before every use is not modelled, no verdict")
        rep.fail('D8', f"worker-local-history:{nm}", f"the per-entry walker callback {b['id']} mutates `{nm}: {ty[:80]}`, a variable captured from the per-thread builder closure: it survives from one directory entry to the next, "
                 'so what is computed for a file depends on which files the same walker thread happened to be handed before (work stealing) — the result is no longer a function of the file alone', {'file': b['file'], 'line': b['line']})
    if per_entry and not carried:
        rep.ok('D8', 'worker-local-history', f'{len(per_entry)} per-entry callback(s): captured variables are only read (shared borrows / channel send), nothing is carried from one entry to the next')
    if not hits:
        rep.ok('D8', 'worker-shared-state', f'{len(pred)} bodies reachable from the walker callbacks: no lock / atomic read / thread-local / once-cell access; results leave a worker only through the channel', {'file': 'cli/src/parse.rs', 'line': prog.bodies[pp[0]]['line']})


def path_keyed(prog, region, sortcall):
    """The sort orders by a file-system path: its comparator / key closure (found by the closure type in the call's argument
    types) compares `PathBuf`/`Path` values, or the elements themselves are ordered and start with a path."""
    tys = ' '.join(sortcall.get('arg_tys') or [])
    m = re.search(r'\{closure@([^:}]+):(\d+):', tys)
    fm = re.search(r'-> std::cmp::Ordering \{([A-Za-z0-9_:<>]+)\}', tys) or re.search(r'\{([A-Za-z0-9_:]+)\}$', tys.strip())
    if not m and fm:
        # a named comparator / key function
        name = fm.group(1)
        for k2, fb in prog.bodies.items():
            if fb['kind'] in ('fn', 'assoc_fn') and (fb['id'] == name or fb['id'].endswith('::' + name.split('::')[-1])):
                for c in fb['calls']:
                    if re.search(r'(Ord|PartialOrd)>?::(cmp|partial_cmp)$', c['callee']) and any(re.search(r'\bPath(Buf)?\b', t) for t in c.get('arg_tys', [])):
                        return True
                if re.search(r'\bPath(Buf)?\b', fb['locals'].get('_0', '')):
                    return True
        return False
    if not m:
        # plain sort(): element type must begin with a path
        return re.search(r'\[\((?:std::path::)?PathBuf,', tys) is not None and re.search(r'::sort(_unstable)?$', sortcall['callee']) is not None
    line = int(m.group(2))
    bodies = [prog.bodies[k] for k in prog.bodies if prog.bodies[k]['kind'] == 'closure' and prog.bodies[k]['line'] == line and prog.bodies[k]['file'].endswith(m.group(1).split('/')[-1])]
    for cb in bodies:
        for c in cb['calls']:
            if re.search(r'(Ord|PartialOrd)>?::(cmp|partial_cmp)$', c['callee']) and any(re.search(r'\bPath(Buf)?\b', t) for t in c.get('arg_tys', [])):
                return True
        ret = cb['locals'].get('_0', '')
        if re.search(r'\bPath(Buf)?\b', ret):
            return True
    return False


def loop_collects_then_sorts(ctx, c):
    """The loop spelling of `set.iter().filter(..).collect::<Vec<_>>()` followed by `sort()`: a `for` over the hash collection
    whose body does nothing but push (possibly under conditions) into one local Vec, and the first thing that happens to that
    Vec after the loop is a plain `sort()` / `sort_unstable()` — the iteration order cannot reach anything else.  (syntax facts)"""
    rel = c['file']
    fs = [f for f in ctx.astq['functions'] if rel.endswith(f['file']) and f['line'] <= c['line'] <= f.get('end_line', 10 ** 9)]
    if not fs:
        return False
    f = min(fs, key=lambda g: g.get('end_line', 10 ** 9) - g['line'])
    loops = [l for l in f['loops'] if l.get('kind') == 'for' and l.get('line') == c['line']]
    if len(loops) != 1:
        return False
    lp = loops[0]

    def in_loop(x):
        return any(fr.get('k') == 'for' and fr.get('line') == lp['line'] for fr in x.get('guard', []))
    body = [x for x in f['calls'] if in_loop(x)]
    targets = set()
    for x in body:
        if x.get('f') in ('push', 'insert', 'extend') and x.get('recv') is not None:
            r = x['recv']
            while isinstance(r, dict) and r.get('k') in ('ref', 'deref', 'paren'):
                r = r.get('v')
            nm = r.get('name') if isinstance(r, dict) and (r.get('k') in ('var', 'vecof')) else None
            if not nm:
                return False
            targets.add(nm)
        elif x.get('f') in ('eq', 'ne', 'clone', 'as_str', 'as_ref', 'to_string', 'borrow', 'deref'):
            continue
        else:
            return False
    if len(targets) != 1 or [s_ for s_ in f['sites'] if in_loop(s_)] or [a for a in f['assigns'] if in_loop(a)] or [r for r in f.get('returns', []) if in_loop(r)]:
        return False
    v = targets.pop()
    # … or the loop only inserts into a local *set / map*: what such a container holds does not depend on insertion order
    lets_v = [l for l in f.get('lets', []) if l.get('names') == [v]]
    if lets_v and all(x.get('f') in ('insert', 'extend') for x in body if x.get('f') in ('push', 'insert', 'extend')):
        init = vt.show(lets_v[0].get('v')).replace(' ', '') + ' ' + str(lets_v[0].get('ty') or '') + ' ' + str((lets_v[0].get('v') or {}).get('ty') if isinstance(lets_v[0].get('v'), dict) else '')
        if re.search(r'\b(BTreeSet|BTreeMap|HashSet|HashMap)\b', init):
            return True
    def on_v(x):
        r = x.get('recv')
        if isinstance(r, dict) and r.get('k') in ('ref', 'deref'):
            r = r.get('v')
        return (isinstance(r, dict) and r.get('name') == v) or str(x.get('recv_text') or '').replace(' ', '').lstrip('&').replace('mut', '') == v
    later = sorted([x for x in f['calls'] if not in_loop(x) and x.get('line', 0) > lp['line'] and x.get('recv') is not None and on_v(x)], key=lambda x: x.get('line', 0))
    return bool(later) and later[0].get('f') in ('sort', 'sort_unstable') and not later[0].get('args')


def sorted_before_use(prog, b, c):
    """The Vec produced by this consumer (its call destination) is handed to a slice sort before anything else reads it:
    some `sort*` call on (a reborrow of) the destination dominates every other call that receives it."""
    d = str(c.get('dest') or '').split(' ')[0]
    if not d.startswith('_'):
        return False
    from . import c08
    # `let v: Vec<_> = ...collect()` / `...collect::<Result<..>>()?` are not followed: only a plain Vec destination
    if 'Vec<' not in b['locals'].get(d, ''):
        return False
    flow = c08.moved_set(b, d)
    refs = set()
    changed = True
    while changed:
        changed = False
        for blk in b['blocks']:
            for st in blk['stmts']:
                m = re.match(r'^(_\d+) = &(?:mut )?(?:\(\*)?(_\d+)\)?$', st)
                if m and (m.group(2) in flow or m.group(2) in refs) and m.group(1) not in refs:
                    refs.add(m.group(1))
                    changed = True
                m = re.match(r'^(_\d+) = (?:move|copy) (_\d+)$', st)
                if m and m.group(2) in refs and m.group(1) not in refs:
                    refs.add(m.group(1))
                    changed = True
        for x in b['calls']:
            if re.search(r'(DerefMut>::deref_mut|Deref>::deref|as_mut_slice|as_slice|AsMut.*::as_mut|IndexMut.*::index_mut|BorrowMut.*::borrow_mut)$', x['callee']) and any(re.search(rf'\b(move|copy) {r}\b', a) for a in x['args'] for r in refs):
                dd = str(x.get('dest') or '').split(' ')[0]
                if dd.startswith('_') and dd not in refs:
                    refs.add(dd)
                    changed = True

    def takes(x):
        return any(re.search(rf'\b(?:move|copy) {r}\b', a) for a in x['args'] for r in (flow | refs))
    uses = [x for x in b['calls'] if x is not c and takes(x)]
    sorts = [x for x in uses if re.search(r'slice::<impl \[T\]>::sort(_unstable)?(_by|_by_key|_by_cached_key)?$', x['callee'])]
    helpers = [x for x in uses if re.search(r'(DerefMut>::deref_mut|Deref>::deref|as_mut_slice|as_slice)$', x['callee'])]
    if not sorts:
        return False
    # a plain `sort()` (total order of the elements) or sort_unstable(); keyed sorts may tie → left to the table
    s0 = [x for x in sorts if re.search(r'::sort(_unstable)?$', x['callee'])]
    if not s0:
        return False
    first = s0[0]
    others = [x for x in uses if x not in sorts and x not in helpers]
    pre = [x for x in helpers if not prog.dominates(b, x['bb'], first['bb'])]
    return all(prog.dominates(b, first['bb'], x['bb']) and x['bb'] != first['bb'] for x in others) and not any(not prog.dominates(b, first['bb'], x['bb']) for x in pre if False)


def lookup(table, fn, name, snippet):
    for e in table['sites']:
        if e['consumer'] != name:
            continue
        if e.get('fn') and e['fn'] not in fn:
            continue
        if norm(e['snippet']) not in snippet:
            continue
        return e
    return None


def discharge(ctx, ent, root, c):
    d = ent.get('discharge')
    if not d:
        return True, ''
    fname = root['id'].split('::')[-1]
    cands = [f for f in ctx.astq['functions'] if f['name'] == fname and c['file'].endswith(f['file'])]
    if not cands:
        return False, f'function {fname} not found in astq facts'
    f = cands[0]
    if d == 'sorted-after':
        var = ent['var']
        sorts = [x for x in f['calls'] if x.get('f') in ('sort', 'sort_unstable', 'sort_by', 'sort_by_key') and (x.get('recv_text') or '').replace(' ', '') == var and x.get('line', 0) > c['line'] - 1]
        if not sorts:
            return False, f'no `{var}.sort()` after the collection'
        # nothing else may read the vector between collection and sort
        between = [x for x in f['calls'] if c['line'] < x.get('line', 0) < sorts[0]['line'] and var in (x.get('recv_text') or '') and x.get('f') not in ('push', 'sort')]
        return (not between), (f'`{var}.sort()` at line {sorts[0]["line"]} before any other use' if not between else f'`{var}` is read before it is sorted')
    if d == 'membership-only':
        var = ent['var']
        uses = [x for fn in ctx.astq['functions'] for x in fn['calls'] if var in (x.get('recv_text') or '')]
        bad = [x for x in uses if x.get('f') not in ('contains', 'as_str', 'as_slice')]
        return (bool(uses) and not bad), (f'all {len(uses)} uses of `{var}` are membership tests' if not bad else f'`{var}` is also used by `{bad[0].get("f")}`')
    return False, f'unknown discharge {d}'


def d3(ctx, rep, prog):
    cr = cg.CtxReach(prog)
    roots = prog.find('main', crate='typeshare#bin')
    for k, b in prog.bodies.items():
        ti = b.get('trait_item')
        if ti and ti.split('::')[0] not in ('typeshare_core', 'typeshare', 'typeshare#bin', 'typeshare_annotation') and prog.crate_of[k] in ('typeshare_core', 'typeshare#bin'):
            roots.append(k)
    reach = cr.reach(roots)
    bad = []
    n = 0
    for node in reach:
        b = prog.bodies[node[0]]
        for c in b['calls']:
            n += 1
            if NONDET.search(c['callee']) or '{:p}' in c.get('snippet', ''):
                bad.append((b, c))
    rep.analysed['D3:calls_scanned'] = n
    for b, c in bad:
        allowed = b['id'].endswith('find_configuration_file') or b['id'] == 'main'
        key = f"{b['id']}:{c['callee'].split('::')[-1]}"
        site = {'file': c['file'], 'line': c['line']}
        if allowed:
            rep.ok('D3', key, 'configuration discovery / logger start-up, not on the generation path', site)
        else:
            rep.fail('D3', key, f"nondeterminism source `{c['callee']}` reachable from generation in {b['id']}: `{norm(c['snippet'])[:80]}`", site)
    # current_dir in config discovery is expected; make the rule non-vacuous
    cd = [1 for node in reach for c in prog.bodies[node[0]]['calls'] if 'env::current_dir' in c['callee']]
    rep.check(bool(cd), 'D3', 'positive-control:env::current_dir', 'the scanner sees std::env calls (config discovery)', 'positive control failed: env::current_dir in find_configuration_file not seen', None)
    if not bad:
        rep.ok('D3', 'no-nondeterminism-source', f'{n} reachable calls scanned')


def d45(ctx, rep, prog):
    # D4 collector
    pp = [k for k in prog.find('parallel_parse', crate='typeshare#bin') if prog.bodies[k]['kind'] == 'fn']
    if len(pp) != 1:
        raise core.Incomplete('parallel_parse not found')
    kids = prog.region(pp, stop=('parse_dir_entry',))   # parallel_parse, its closures and the local helpers they call
    folds = [(k, c) for k in kids for c in prog.bodies[k]['calls'] if c['callee'].endswith('AddAssign>::add_assign') or 'add_assign' in c['callee']]
    ok = bool(folds) and any('BTreeMap' in ' '.join(prog.bodies[k]['locals'].values()) for k, _ in folds)
    rep.check(ok, 'D4', 'collector:ordered-map-fold', 'per-file results folded with += into a BTreeMap keyed by crate', 'the collector no longer folds per-file results with `+=` into an ordered map keyed by crate name', {'file': 'cli/src/parse.rs', 'line': prog.bodies[pp[0]]['line']})
    # D4 merge order: the fold must consume the per-file results in an order that is a function of the inputs
    # (a sorted buffer), not in channel arrival order — the sort after the merge is stable and its key is the Rust
    # name only, so same-named items keep their merge order.
    for k, a in folds[:1]:
        b = prog.bodies[k]
        site = {'file': a['file'], 'line': a['line']}
        srcs = [c for c in b['calls'] if re.search(r'Iterator>::next$|Receiver::<T>::(recv|try_recv|recv_timeout)$', c['callee']) and prog.dominates(b, c['bb'], a['bb'])]
        if not srcs and b['kind'] == 'closure' and b.get('parent') in prog.bodies:
            # the iterator spelling of the loop: `buffer.into_iter().fold(map, |mut m, x| { *m.entry(..).or_default() += x; m })` —
            # the elements come from the receiver of the fold / for_each the closure is handed to, in the enclosing body
            pb = prog.bodies[b['parent']]
            tag = f":{b['line']}:"
            drivers = [c for c in pb['calls'] if re.search(r'Iterator>?::(fold|try_fold|for_each|try_for_each)$', c['callee']) and any(tag in t for t in c.get('arg_tys', []))]
            if len(drivers) == 1:
                k, b, srcs = b['parent'], pb, drivers
        if not srcs:
            raise core.Incomplete('collector: the loop feeding `+=` was not recognised')
        src = max(srcs, key=lambda c: sum(1 for d in srcs if prog.dominates(b, d['bb'], c['bb'])))
        ty = (src.get('arg_tys') or [''])[0]
        if re.search(r'crossbeam|mpsc|Receiver|channel', ty):
            rep.fail('D4', 'collector:merge-order', f"the collector folds per-file results with `+=` directly in channel arrival order (`{ty[:70]}`): the later sort is stable and compares the Rust name only, so same-named items (cfg variants, same-named types in different files) are written in the order the walker threads happened to finish", site)
        elif re.search(r'hash_map|hash_set|HashMap|HashSet', ty):
            rep.fail('D4', 'collector:merge-order', f'the collector folds per-file results in hash iteration order (`{ty[:70]}`)', site)
        elif re.search(r'vec::IntoIter|slice::Iter|vec::Drain', ty):
            its = [c for c in b['calls'] if c['callee'].endswith('IntoIterator>::into_iter') and prog.dominates(b, c['bb'], src['bb'])]
            sorts = [c for c in b['calls'] if re.search(r'slice::<impl \[T\]>::sort(_unstable)?(_by|_by_key|_by_cached_key)?$', c['callee'])
                     and 'ParsedData' in ' '.join(c.get('arg_tys') or []) and its and all(prog.dominates(b, c['bb'], i['bb']) for i in its[-1:])]
            if not sorts:
                # the buffer may have been sorted by the caller before it was handed to this helper
                for ck, cc in prog.callers_in(kids, k):
                    cb = prog.bodies[ck]
                    sorts += [c for c in cb['calls'] if re.search(r'slice::<impl \[T\]>::sort(_unstable)?(_by|_by_key|_by_cached_key)?$', c['callee'])
                              and 'ParsedData' in ' '.join(c.get('arg_tys') or []) and prog.dominates(cb, c['bb'], cc['bb'])]
            if sorts and not any(path_keyed(prog, kids, x) for x in sorts):
                rep.fail('D4', 'collector:merge-order-key', f"the buffered per-file results are sorted (`{sorts[0]['snippet'][:60]}`) by a key that is not the source path: fields of ParsedData such as the output file name or the crate name are equal for many files (all of them in single-file mode), so the stable sort keeps the channel arrival order", {'file': sorts[0]['file'], 'line': sorts[0]['line']})
            elif sorts:
                rep.ok('D4', 'collector:merge-order-key', 'the buffer is ordered by the source path of each file (unique per file)', {'file': sorts[0]['file'], 'line': sorts[0]['line']})
            rep.check(bool(sorts), 'D4', 'collector:merge-order', f"per-file results are buffered and sorted (`{sorts[0]['snippet'][:60] if sorts else ''}`) before the fold", 'the collector buffers the per-file results but folds them without sorting the buffer first: the merge order is still the channel arrival order, and the later stable sort by Rust name keeps it for same-named items', site)
        elif re.search(r'btree', ty):
            rep.ok('D4', 'collector:merge-order', f'fold iterates an ordered collection (`{ty[:60]}`)', site)
        else:
            raise core.Incomplete(f'collector: unrecognised source of the fold loop: {ty[:80]}')
    # D5 sorts
    pd = ctx.item('struct', 'ParsedData')
    ra = ctx.fnx('reconcile_aliases', file='reconcile.rs')
    aa = ctx.fn('ParsedData::add_assign', file='parser.rs')
    # the vectors that hold items of both operands after `ParsedData += ParsedData` (in-place append/extend, or a rebuilt value)
    from .. import parser_rules as pr
    appended = [f['name'] for f in pd['fields'] if f['ty'].startswith('Vec<') and (
        any(c.get('f') in ('append', 'extend', 'extend_from_slice') and vt.show(c.get('recv')).endswith('self.' + f['name']) for c in aa['calls'])
        or {'self', 'rhs'} <= (pr.merge_sides(ctx, f['name']) or set()))]
    rep.floor('D5', 'vectors appended by AddAssign', len(appended), 4)
    for v in appended:
        site = {'file': ra['file'], 'line': ra['line']}
        if v == 'errors':
            rep.ok('D5', f'sorted:{v}', 'errors are only logged, never written to an output file', site)
            continue
        sorts = [c for c in ra['calls'] if c.get('f') in ('sort', 'sort_by', 'sort_by_key', 'sort_unstable', 'sort_unstable_by', 'sort_unstable_by_key', 'sort_by_cached_key') and vt.show(c.get('recv')).endswith('.' + v)]
        def cf(c):
            return [(vt.ckey(fr.get('c')), bool(fr.get('neg'))) for fr in c['guard'] if fr.get('k') == 'if'] + [('arm', str(fr.get('variants'))) for fr in c['guard'] if fr.get('k') == 'arm']
        uncond = [c for c in sorts if not cf(c)]
        # two sorts on complementary branches of one test (e.g. an early `continue` path and the main path) cover every path
        compl = any(len(cf(a)) == 1 and len(cf(b2)) == 1 and cf(a)[0][0] == cf(b2)[0][0] and cf(a)[0][1] != cf(b2)[0][1] for a in sorts for b2 in sorts)
        conds = [] if (uncond or compl) else [fr for c in sorts for fr in c['guard'] if fr.get('k') in ('if', 'arm')]
        rep.check(bool(sorts) and not conds, 'D5', f'sorted:{v}', 'sorted after merge', f"`{v}` are appended in file-arrival order by the collector and never sorted before generation: their order in the output (and the input order of topsort) depends on which walker thread finished first", site)
    # reconcile_aliases dominates write_generated
    gt = [k for k in prog.find('generate_types', crate='typeshare#bin') if prog.bodies[k]['kind'] == 'fn']
    b = prog.bodies[gt[0]]
    rc = [c for c in b['calls'] if c['callee'].endswith('reconcile_aliases')]
    wg = [c for c in b['calls'] if c['callee'].endswith('write_generated')]
    ok = len(rc) == 1 and len(wg) >= 1 and all(prog.dominates(b, rc[0]['bb'], w['bb']) for w in wg)
    rep.check(ok, 'D5', 'reconcile-dominates-write', 'reconcile_aliases (sorting) runs on every path before write_generated', 'write_generated can be reached without reconcile_aliases having sorted the merged items', {'file': 'cli/src/main.rs', 'line': b['line']})
    # sort key totality: Ord impls compare only id.original
    for ty in ('RustStruct', 'RustEnum', 'RustTypeAlias'):
        cmpf = [f for f in ctx.astq['functions'] if f['name'] == 'cmp' and (f.get('self_ty') or '') == ty]
        if not cmpf:
            continue
        txt = vt.show(cmpf[0]['tail'])
        only_orig = 'original' in txt and 'renamed' not in txt and 'fields' not in txt
        rep.check(not only_orig, 'D5', f'sort-key-total:{ty}', 'key covers the item', f"Ord for {ty} compares `id.original` only and the sort is stable: two items with the same Rust name (same-named types in different files/modules, cfg variants) keep their merge order (file-path order), so the output depends on how those items are split across source files", {'file': cmpf[0]['file'], 'line': cmpf[0]['line']})
    # D6 push unconditional
    p = ctx.fn('ParsedData::push', file='parser.rs')
    for c in p['calls']:
        if c.get('f') == 'push':
            conds = [fr for fr in c['guard'] if fr.get('k') == 'if']
            rep.check(not conds, 'D6', f"push:{vt.show(c.get('recv'))[-12:]}", 'unconditional', f"ParsedData::push keeps an item only under `{vt.show(conds[0]['c'])[:80] if conds else ''}` — the per-file set decides what is kept, so the output depends on how items are split across files", {'file': p['file'], 'line': c.get('line')})
