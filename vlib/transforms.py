import re
"""Summaries of small string helper functions, derived from their bodies (astq tails) on every run."""
from . import vt


def _param_names(f):
    return [p['name'] for p in f['params'] if p['name'] != 'self']


def _is_param(v, params):
    v = vt.strip(v)
    return isinstance(v, dict) and v.get('k') == 'atom' and v.get('root') in params and not v.get('path')


def char_test(v):
    """If v tests whether a string contains a given character, return (subject value, char) else None.
    Recognised: x.chars().any(|c| c == 'k'), x.contains('k'), x.contains("k")."""
    v = vt.strip(v) if not (isinstance(v, dict) and v.get('k') == 'call') else v
    while isinstance(v, dict) and v.get('k') == 'var':
        v = v['v']
    if not isinstance(v, dict) or v.get('k') != 'call':
        return None
    if v.get('f') == 'contains' and v.get('args'):
        a = vt.strip(v['args'][0])
        if isinstance(a, dict) and a.get('k') == 'lit' and len(str(a.get('v'))) == 1:
            return v['recv'], str(a['v'])
    if v.get('f') == 'any' and v.get('args'):
        r = v.get('recv')
        while isinstance(r, dict) and r.get('k') == 'var':
            r = r['v']
        if isinstance(r, dict) and r.get('k') == 'call' and r.get('f') == 'chars':
            clo = vt.strip(v['args'][0])
            if isinstance(clo, dict) and clo.get('k') == 'closure':
                b = clo.get('body')
                while isinstance(b, dict) and b.get('k') == 'var':
                    b = b['v']
                if isinstance(b, dict) and b.get('k') == 'op' and b.get('op') == '==':
                    for x in b.get('args', []):
                        x = vt.strip(x)
                        if isinstance(x, dict) and x.get('k') == 'lit' and len(str(x.get('v'))) == 1:
                            return r['recv'], str(x['v'])
    return None


def summarize(ctx, name, file_hint=None):
    """Return a dict {kind: identity|quote-select|ident-wrap|replace|case|opaque, lossy: set(chars) or None, detail}."""
    cands = [f for f in ctx.astq['functions'] if f['name'] == name]
    if file_hint:
        c2 = [f for f in cands if f['file'].endswith(file_hint)]
        cands = c2 or cands
    cands = [f for f in cands if not f.get('trait') or True]
    if not cands:
        return {'kind': 'opaque', 'detail': 'external or not found'}
    f = cands[0]
    if f.get('loops'):
        return {'kind': 'opaque', 'detail': f['qual'] + ' (contains loops)'}
    params = _param_names(f)
    tail = f['tail']
    # the Debug-quote-then-unquote idiom as a helper: `let q = format!("{:?}", name); q[1..q.len() - 1].to_owned()` — the text
    # of the parameter with string escapes applied, without the surrounding quotes (meant for a position between quotes)
    t0 = vt.strip(tail) if isinstance(tail, dict) else None
    while isinstance(t0, dict) and t0.get('k') == 'call' and t0.get('recv') is not None and t0.get('f') in ('to_owned', 'to_string', 'into') and not t0.get('args'):
        t0 = vt.strip(t0['recv'])
    if isinstance(t0, dict) and t0.get('k') == 'index' and not f.get('returns'):
        b = vt.strip(t0.get('base'))
        ix = t0.get('index') or {}
        st, en = vt.strip(ix.get('start')) if isinstance(ix.get('start'), dict) else None, ix.get('end')
        if isinstance(b, dict) and b.get('k') == 'fmt' and len(b.get('parts', [])) == 1 and isinstance(b['parts'][0], dict) and b['parts'][0].get('spec') == '?' \
                and isinstance(vt.strip(b['parts'][0].get('hole')), dict) and vt.strip(b['parts'][0]['hole']).get('k') == 'atom' and vt.strip(b['parts'][0]['hole']).get('root') in params \
                and isinstance(st, dict) and str(st.get('v')) == '1' and ix.get('k') == 'range' and not ix.get('inclusive') and re.sub(r'\s', '', vt.show(en)).endswith(".len()-'1')"):
            return {'kind': 'debug-unquote', 'detail': f['qual']}
    # early `return` values count as alternatives
    alts = [tail] + [r['v'] for r in f.get('returns', []) if r.get('v')]
    kinds = []
    lossy = set()
    for a in alts:
        k, l = _classify(a, params)
        kinds.append(k)
        lossy |= l
    ks = set(kinds)
    if ks <= {'identity'}:
        return {'kind': 'identity', 'detail': f['qual']}
    if ks <= {'identity', 'quote'} and 'quote' in ks:
        return {'kind': 'quote-select', 'detail': f['qual']}
    if ks <= {'identity', 'ident-wrap'} and 'ident-wrap' in ks:
        return {'kind': 'ident-wrap', 'detail': f['qual']}
    if ks <= {'identity', 'replace'} and 'replace' in ks:
        return {'kind': 'replace', 'lossy': lossy, 'detail': f['qual']}
    if 'case' in ks:
        return {'kind': 'case', 'detail': f['qual']}
    return {'kind': 'opaque', 'detail': f['qual'] + ': ' + vt.show(tail)[:80]}


def _classify(v, params):
    v0 = v
    while isinstance(v, dict) and v.get('k') in ('var', 'try', 'some'):
        v = v['v']
    if not isinstance(v, dict):
        return 'opaque', set()
    if v.get('k') == 'never':
        return 'identity', set()
    if _is_param(v, params):
        return 'identity', set()
    kk = v.get('k')
    if kk == 'cond':
        a, la = _classify(v['t'], params)
        b, lb = _classify(v['e'], params)
        if v['t'].get('k') == 'unit' or vt.strip(v['t']).get('k') == 'never':
            return b, lb
        if a == b:
            return a, la | lb
        order = ['identity', 'quote', 'ident-wrap', 'replace', 'case', 'opaque']
        return max(a, b, key=order.index), la | lb
    if kk == 'match':
        res = [_classify(a['v'], params) for a in v.get('arms', [])]
        order = ['identity', 'quote', 'ident-wrap', 'replace', 'case', 'opaque']
        k = max((r[0] for r in res), key=order.index)
        l = set()
        for r in res:
            l |= r[1]
        return k, l
    if kk == 'fmt':
        parts = v.get('parts', [])
        holes = [p for p in parts if 'hole' in p]
        lits = ''.join(p['lit'] for p in parts if 'lit' in p)
        if len(holes) == 1 and _classify(holes[0]['hole'], params)[0] == 'identity':
            if holes[0].get('spec') == '?' and lits == '':
                return 'quote', set()
            if lits == '``':
                return 'ident-wrap', set()
            if lits in ('""',):
                return 'quote', set()
        return 'opaque', set()
    if kk == 'call':
        f = v.get('f')
        if f in vt.TRANSPARENT_CALLS or f in ('Cow::Owned', 'into'):
            inner = v.get('recv') if v.get('recv') is not None else (v['args'][0] if v.get('args') else None)
            return _classify(inner, params)
        if f == 'replace' and v.get('recv') is not None and len(v.get('args', [])) == 2:
            base, l = _classify(v['recv'], params)
            a = vt.strip(v['args'][0])
            if base in ('identity', 'replace') and isinstance(a, dict) and a.get('k') == 'lit':
                return 'replace', l | set(str(a.get('v')))
        if f and (f.startswith('to_') and f.endswith('_case') or f in ('to_case', 'to_uppercase', 'to_lowercase', 'to_ascii_uppercase', 'to_ascii_lowercase')):
            return 'case', set()
    return 'opaque', set()
