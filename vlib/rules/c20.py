"""C20 — CLI options override typeshare.toml; generated config files round-trip.

Decided: the wiring.  (F1) every assignment to a `config.*` field in override_configuration sits under exactly
`if let Some(x) = options.<its option>` and assigns that x; the (option → field) pairs equal the table taken from
the documentation; nothing else in Config is written except target_os (CLI-only);  (F2) file-only settings are
never assigned;  (F3) each backend field is initialised from the same-named field of its own language's params and
every params field is consumed;  (F4) store_config opens with create_new and never truncates/overwrites; -g takes
the store_config path with the overridden default config;  (F5) Config and all params derive both Serialize and
Deserialize with symmetric field attributes, loaded and stored through the same toml type;  (F6) every overriding
option is an Option without a default value, so "absent on the command line" is observable.
(F7) the ancestor search is nearest-first (direction of the walk only).
Not decided: which directories exist / file-system races in the discovery, clap's own parsing."""
import json
import re

from .. import core, vt, wiring

OVERRIDES = {  # CLI option field -> config path (docs/src/usage/configuration.md, cli help)
    'swift_prefix': 'swift.prefix',
    'kotlin_prefix': 'kotlin.prefix',
    'java_package': 'kotlin.package',
    'kotlin_module_name': 'kotlin.module_name',
    'scala_package': 'scala.package',
    'scala_module_name': 'scala.module_name',
    'go_package': 'go.package',
}


def run(ctx, rep):
    rep.explanation = ('Precedence "CLI, else file, else default" decided as wiring: shape of every assignment in override_configuration (guard = presence of exactly its '
                       'option), the option→field table, absence of any other write to Config, backend construction from the own language\'s params (both directions), '
                       'create_new in store_config, symmetric serde derives, and Option-without-default for the overriding clap arguments.')
    rep.not_decided = 'the file-system side of the ancestor search for typeshare.toml (only its direction is decided, F7) and clap\'s parsing of the command line.'
    rep.trusted = ['syn', 'astq evaluator', 'option→field table from the documentation', 'serde/toml derive semantics', 'clap: Option<T> without default_value is None when the flag is absent']
    rep.section(f1, ctx, rep)
    rep.section(wiring.backend_wiring, ctx, rep, 'F3')
    rep.section(f4, ctx, rep)
    rep.section(f5, ctx, rep)
    rep.section(f6, ctx, rep)
    rep.section(f7, ctx, rep)


def f7(ctx, rep):
    """F7 (the nearest typeshare.toml is the file): the ancestor search starts at the current directory and moves towards the
    root, stopping at the first hit.  Decided by the direction of the walk only: a path that shrinks (`pop`/`parent` in a loop, or
    `ancestors()` taken in order) is nearest-first; an iteration over `components()` from the front, or `ancestors()` reversed /
    reduced with `last`, is root-first — the outermost file would win.  Any other spelling answers INCOMPLETE."""
    cands = [f for f in ctx.astq['functions'] if f['file'].endswith('cli/src/config.rs') and '#[test]' not in ' '.join(f.get('attrs', [])) and f.get('mod', '') in ('', None, 'config') and any(c.get('f', '').endswith('current_dir') for c in f['calls'])]
    cands = [f for f in cands if not any('test' in a for a in f.get('attrs', []))]
    if len(cands) != 1:
        raise core.Incomplete(f'F7: expected one function of cli/src/config.rs that reads the current directory, found {[f["qual"] for f in cands]}')
    f = ctx.x(cands[0])
    site = {'file': f['file'], 'line': f['line']}
    names = [c.get('f', '') for c in f['calls']]
    in_loop = lambda c: any(g.get('k') in ('loop', 'while', 'for') for g in c.get('guard', []))
    growing = [n for n in names if n in ('components', 'iter', 'into_iter', 'split', 'strip_prefix')]
    shrinking = any(c.get('f') in ('pop', 'parent') and in_loop(c) for c in f['calls']) and not growing
    reversing = [n for n in names if n in ('rev', 'last', 'rfind', 'next_back', 'max', 'max_by_key', 'max_by', 'min', 'min_by_key', 'min_by', 'rposition', 'fold', 'reduce', 'sort', 'sort_by_key')]
    anc = 'ancestors' in names and not growing
    if 'components' in names and not reversing:
        rep.fail('F7', 'discovery:nearest-first', f"{f['qual']} walks `components()` of the current directory from the root and stops at the first typeshare.toml: with a file in an outer directory and another next to the sources, the outer one is loaded and the nearer one ignored", site)
    elif anc and reversing:
        rep.fail('F7', 'discovery:nearest-first', f"{f['qual']} takes `ancestors()` through `{reversing[0]}`: the outermost typeshare.toml wins instead of the nearest", site)
    elif (shrinking or anc) and not reversing:
        rep.ok('F7', 'discovery:nearest-first', 'shrinking path (pop pop / parent)' if shrinking else 'ancestors() in order, first hit')
    else:
        raise core.Incomplete(f"F7: the direction of the ancestor search in {f['qual']} is not in a recognised form (calls: {sorted(set(names))})")


SETTERS = ('clone_from', 'push_str', 'insert_str', 'replace_range', 'clear', 'truncate', 'extend', 'push', 'insert', 'remove', 'retain', 'clone_into')


def config_writes(oc, cfg):
    """Write events on the configuration in (the inlined view of) a function: [(path text, value, guard, line)] —
    assignments whose target is an access path of `cfg`, and in-place setters (`x.clone_from(v)` …) on such a path."""
    out = []

    def path_of(t):
        t = vt.strip(t)
        while isinstance(t, dict) and t.get('k') in ('deref', 'ref', 'paren'):
            t = vt.strip(t.get('v'))
        if isinstance(t, dict) and t.get('k') == 'atom' and t.get('root') == cfg and t.get('path'):
            return '.'.join(t['path'])
        return None
    for a in oc['assigns']:
        if a.get('via') == 'clone_from':
            continue      # recorded again below as an in-place setter
        pth = path_of(a.get('target'))
        if pth is None and a.get('text', '').replace(' ', '').startswith(cfg + '.') and not a.get('via'):
            pth = a['text'].replace(' ', '')[len(cfg) + 1:]
        if pth is not None:
            out.append((pth, a.get('value'), a['guard'], a.get('line')))
    for c in oc['calls']:
        if c.get('f') in SETTERS and c.get('recv') is not None:
            pth = path_of(c['recv'])
            if pth is not None:
                out.append((pth, (c.get('args') or [None])[0] if c['f'] in ('clone_from',) else {'k': 'call', 'f': c['f'], 'args': c.get('args', []), 'recv': c['recv']}, c['guard'], c.get('line')))
    return out


def f1(ctx, rep):
    oc0, cfg, opts = wiring.override_fn(ctx)
    oc = ctx.x(oc0)
    ocn = oc0['name'].split('::')[-1]
    seen = {}
    for path, value, guard, line in config_writes(oc, cfg):
        site = {'file': oc['file'], 'line': line}
        if path == 'target_os':
            continue
        frames = [fr for fr in guard if fr.get('k') in ('if', 'arm', 'for', 'while')]
        src_opt = None
        ok_guard = len(frames) == 1 and frames[0].get('k') == 'if' and not frames[0].get('neg') and isinstance(frames[0]['c'], dict) and frames[0]['c'].get('k') == 'iflet' and 'Some' in ''.join(frames[0]['c'].get('variants', []))
        if frames and isinstance(frames[-1].get('c'), dict) and frames[-1]['c'].get('k') == 'iflet':
            sc = vt.strip(frames[-1]['c']['scrut'])
            if isinstance(sc, dict) and sc.get('k') == 'atom' and sc.get('root') == opts and len(sc.get('path', [])) == 1:
                src_opt = sc['path'][0]
        seen[path] = src_opt
        val = vt.strip(value)
        from_payload = isinstance(val, dict) and val.get('k') == 'payload' and val.get('variant') == 'Some'
        want_opt = next((o for o, p in OVERRIDES.items() if p == path), None)
        key = f'override:{path}'
        if want_opt is None:
            rep.fail('F1', key, f"override_configuration writes config.{path}, which is not a command-line-overridable setting (file-only settings must be applied unchanged)", site)
            continue
        extra = [fr for fr in frames[:-1]] if len(frames) > 1 else []
        if extra:
            rep.fail('F1', key, f"config.{path} is overridden only under an additional condition (`{vt.show(extra[0].get('c'))[:80]}`): the command-line value is dropped when that condition is false (e.g. when writing a config with -g), so CLI and generated file disagree", site)
            continue
        rep.check(ok_guard and src_opt == want_opt and from_payload, 'F1', key, f'config.{path} = --{want_opt} when given', f"config.{path} is assigned `{vt.show(value)[:60]}` under `{vt.show(frames[0].get('c'))[:80] if frames else 'no guard'}` — expected the value of options.{want_opt} exactly when it is Some", site)
    if not (set(OVERRIDES.values()) & set(seen)):
        # not one of the seven overrides is recognised: the step is written in a form the rule does not model (a table of
        # (&mut setting, option) pairs applied in a loop, a macro …) — that is a limit of the rule, not seven dropped options
        raise core.Incomplete(f"F1: {oc['qual']} applies none of the option overrides in a recognised form (`if let Some(x) = options.<opt> {{ config.<field> = x }}` or an equivalent per-option helper): the way the options reach the configuration is not modelled for this shape")
    for opt, path in OVERRIDES.items():
        rep.check(path in seen, 'F1', f'override-present:{path}', f'--{opt} wired', f'override_configuration never applies --{opt.replace("_", "-")} to config.{path}: the command-line value is ignored', {'file': oc['file'], 'line': oc['line']})
    t = [w for w in config_writes(oc, cfg) if w[0] == 'target_os']
    rep.check(len(t) == 1, 'F1', 'target_os', 'target_os set from the option', 'config.target_os is not set exactly once', {'file': oc['file'], 'line': oc['line']})
    # F2 nothing else writes Config
    n = 0
    for f in ctx.astq['functions']:
        if not f['file'].startswith('cli/'):
            continue
        for a in f['assigns']:
            text = a.get('text', '').replace(' ', '')
            if re.match(r'config\.', text) and f['name'].split('::')[-1] != ocn:
                n += 1
                rep.fail('F2', f"{f['name']}:{text}", f"{f['qual']} writes {text}: settings may only be changed by override_configuration", {'file': f['file'], 'line': a.get('line')})
        for c in f['calls']:
            if c.get('f') in ('insert', 'push', 'clear', 'extend', 'remove', 'retain') and re.match(r'config\b', vt.show(c.get('recv'))) and f['name'].split('::')[-1] != ocn:
                rep.fail('F2', f"{f['name']}:{c['f']}", f"{f['qual']} mutates {vt.show(c.get('recv'))[:40]} — file-only settings (type mappings, decorators, constraints, acronyms) must be applied unchanged", {'file': f['file'], 'line': c.get('line')})
    # the same inventory on resolved MIR places: methods on Config, nested helpers taking `&mut config.x.y`, whole-section moves
    from .. import cg
    prog = cg.Program(ctx.mirq('all'))
    muts = wiring.config_mutations(ctx, prog)
    # private helpers of the override function (`replace_if_given(&mut cfg.x, &opt)`) write on its behalf: every caller of such a
    # helper is the override function (or another such helper)
    ok_roots = {b_['id'] for b_ in prog.bodies.values() if b_['id'].split('::')[-1] == ocn and str(b_.get('file', '')).startswith('cli/src')}
    override_helpers = set()
    grew = True
    while grew:
        grew = False
        for b_ in prog.bodies.values():
            if b_['kind'] not in ('fn', 'assoc_fn') or b_['id'] in ok_roots or b_['id'] in override_helpers or not str(b_.get('file', '')).startswith('cli/src'):
                continue
            callers = {prog.bodies[k2]['id'].split('::{closure')[0] for k2, cb_ in prog.bodies.items() for c_ in cb_['calls'] if b_['key'] in prog.targets_of_call(c_)}
            if callers and all(x in ok_roots or x in override_helpers for x in callers):
                override_helpers.add(b_['id'])
                grew = True
    rep.floor('F2', 'writes to Config seen in MIR (override_configuration as positive control)', len([m for m in muts if m[0].split('::{closure')[0].endswith(ocn) or m[0].split('::{closure')[0] in override_helpers]), 7)
    seen2 = set()
    for fid, owner, fname, st, file, line in muts:
        root = fid.split('::{closure')[0]
        if root.endswith(ocn) or root in override_helpers:
            continue
        key = f"{root.split('::')[-1]}:{owner.split('::')[-1]}.{fname}"
        if key in seen2:
            continue
        seen2.add(key)
        n += 1
        rep.fail('F2', key, f"{fid} modifies {owner.split('::')[-1]}.{fname} (`{st[:80]}`): a value read from typeshare.toml may only be replaced by its command-line option in override_configuration — file-only settings (type mappings, decorators, constraints, acronyms) must reach the backend unchanged", {'file': file, 'line': line})
    if n == 0:
        rep.ok('F2', 'no-other-config-writes', 'Config is only written by override_configuration')
    # call order in generate_types: load_config → override_configuration → language()
    gt = ctx.fnx('generate_types', file='cli/src/main.rs')
    order = [('override_configuration' if c['f'] == ocn else c['f']) for c in gt['calls'] if c.get('f') in ('config::load_config', 'load_config', ocn, 'language')]
    rep.check(order[:3] == ['config::load_config', 'override_configuration', 'language'] or order[:3] == ['load_config', 'override_configuration', 'language'], 'F1', 'pipeline-order', ' → '.join(order), f'generate_types does not run load_config → override_configuration → language (found {order})', {'file': gt['file'], 'line': gt['line']})
    lang = [c for c in gt['calls'] if c.get('f') == 'language']
    if lang:
        arg = vt.strip(lang[0]['args'][1])
        ok = ocn in vt.show(lang[0]['args'][1])
        rep.check(ok, 'F1', 'language-gets-overridden-config', 'language(.., overridden config, ..)', 'language() is not given the configuration produced by override_configuration', {'file': gt['file'], 'line': lang[0].get('line')})


def f4(ctx, rep):
    sc = ctx.fnx('store_config', file='cli/src/config.rs')
    site = {'file': sc['file'], 'line': sc['line']}
    names = [c['f'] for c in sc['calls'] if isinstance(c.get('recv'), dict) and 'OpenOptions' in vt.show(c['recv']) or c.get('f') == 'OpenOptions::new']
    chain = [c['f'] for c in sc['calls'] if c.get('f') in ('write', 'create_new', 'create', 'truncate', 'append', 'open')]
    ok = 'create_new' in chain and 'open' in chain and not ({'create', 'truncate', 'append'} & set(chain))
    cn = [c for c in sc['calls'] if c.get('f') == 'create_new']
    ok = ok and bool(cn) and vt.strip(cn[0]['args'][0]).get('v') is True
    rep.check(ok, 'F4', 'store_config:create_new', 'OpenOptions::new().write(true).create_new(true)', f'store_config opens the file with {chain}: an existing configuration file can be overwritten', site)
    other = [c for c in sc['calls'] if c.get('f') in ('fs::write', 'std::fs::write', 'File::create', 'fs::remove_file', 'fs::rename')]
    rep.check(not other, 'F4', 'store_config:no-other-write', 'no other file API', f"store_config also uses {[c['f'] for c in other]}", site)
    m = ctx.fnx('main', file='cli/src/main.rs')
    stc = [c for c in m['calls'] if c.get('f') in ('config::store_config', 'store_config')]
    ok = bool(stc) and any(fr.get('k') == 'if' and 'generate_config' in vt.show(fr['c']) and not fr.get('neg') for fr in stc[0]['guard'])
    rep.check(ok, 'F4', 'main:-g-stores', '-g ⇒ store_config', 'main does not route --generate-config to store_config', {'file': m['file'], 'line': m['line']})
    if stc:
        txt = vt.show(stc[0]['args'][0]) + json.dumps(stc[0]['guard'])
        ocn = wiring.override_fn(ctx)[0]['name'].split('::')[-1]
        oc = [c for c in m['calls'] if c.get('f') == ocn and any('generate_config' in vt.show(fr.get('c')) and not fr.get('neg') for fr in c['guard'] if fr.get('k') == 'if')]
        # the configuration operand: first argument, or the receiver of the method form (`Config::default().overridden_by(&options)`)
        ok = bool(oc) and 'Config::default' in vt.show(oc[0]['recv'] if oc[0].get('recv') is not None else oc[0]['args'][0])
        rep.check(ok, 'F4', 'main:-g-config-source', 'stored config = override_configuration(Config::default(), options)', 'the configuration written by -g is not the default configuration overridden by the given options', {'file': m['file'], 'line': m['line']})


def f5(ctx, rep):
    structs = [i for i in ctx.astq['items'] if i['kind'] == 'struct' and i['file'].endswith('cli/src/config.rs')]
    rep.floor('F5', 'config structs', len(structs), 7)
    for s in structs:
        site = {'file': s['file'], 'line': s['line']}
        der = ' '.join(a for a in s['attrs'] if a.startswith('derive'))
        rep.check('Serialize' in der and 'Deserialize' in der, 'F5', f"{s['name']}:derives", 'Serialize + Deserialize', f"{s['name']} does not derive both Serialize and Deserialize: the generated file cannot be reloaded to the same settings", site)
        rep.check(any(a.replace(' ', '') == 'serde(default)' for a in s['attrs']), 'F5', f"{s['name']}:serde-default", 'missing keys fall back to defaults', f"{s['name']} lacks #[serde(default)]: a partial typeshare.toml fails to load instead of falling back to defaults", site)
        for fld in s['fields']:
            for a in fld['attrs']:
                a2 = a.replace(' ', '')
                if a2.startswith('serde('):
                    asym = re.search(r'skip_serializing|skip_deserializing|rename\(|serialize_with|deserialize_with|flatten|alias|with=', a2)
                    sym_ok = a2 in ('serde(skip)', 'serde(default)')
                    rep.check(not asym and (sym_ok or 'rename=' in a2), 'F5', f"{s['name']}.{fld['name']}:symmetric-attr", a2, f"{s['name']}.{fld['name']} carries `{a}`: written and read form of the configuration differ", site)
    lc = ctx.fnx('load_config', file='cli/src/config.rs')
    sc = ctx.fnx('store_config', file='cli/src/config.rs')
    rep.check(any(c.get('f') == 'toml::from_str' for c in lc['calls']), 'F5', 'load:toml', 'toml::from_str::<Config>', 'load_config does not parse the file as TOML into Config', {'file': lc['file'], 'line': lc['line']})
    rep.check(any(c.get('f') in ('toml::to_string_pretty', 'toml::to_string') for c in sc['calls']), 'F5', 'store:toml', 'toml::to_string_pretty(config)', 'store_config does not serialise Config as TOML', {'file': sc['file'], 'line': sc['line']})
    # `Config::default()` spelled out, or the Option<Config> of "a file was located" unwrapped with its Default
    defaulted = 'Config::default' in vt.show(lc['tail']) or any('Config::default' in vt.show(r.get('v')) for r in lc['returns']) or any(c.get('f') == 'Config::default' for c in lc['calls']) \
        or any(c.get('f') == 'unwrap_or_default' for c in lc['calls']) or 'unwrap_or_default' in vt.show(lc['tail']).replace(' ', '')
    rep.check(defaulted, 'F5', 'load:default-when-absent', 'no file ⇒ Config::default()', 'load_config does not fall back to Config::default() when no file is found', {'file': lc['file'], 'line': lc['line']})


def f6(ctx, rep):
    args = ctx.item('struct', 'Args', 'cli/src/args.rs')
    for opt in OVERRIDES:
        fld = next((f for f in args['fields'] if f['name'] == opt), None)
        site = {'file': args['file'], 'line': args['line']}
        if fld is None:
            rep.fail('F6', f'arg:{opt}', f'Args has no field `{opt}`', site)
            continue
        is_opt = fld['ty'].startswith('Option<')
        attrs = ' '.join(fld['attrs']).replace(' ', '')
        has_default = re.search(r'default_value|default_missing_value|default_value_t|default_value_if|env=', attrs) is not None
        rep.check(is_opt and not has_default, 'F6', f'arg:{opt}', f"{fld['ty']} without default", f"--{opt.replace('_', '-')} is declared as {fld['ty']} with `{' '.join(fld['attrs'])[:80]}`: with a default value clap always yields Some(..), so the option overrides the configuration file even when it is absent from the command line", site)
