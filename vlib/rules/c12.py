"""C12 — every helper name typeshare introduces into a file is defined or imported there.

"Emit ⇒ register ⇒ flush".  (H2) Every literal occurrence of a helper token of the target language in a template or
returned type string is paired, on the same path, with the registration that makes the epilogue/prologue define or
import it (guards compared syntactically, else by truth table over the guards' atomic tests);  (H2g) every generic
parameter list printed by a Python printer is registered as TypeVars from the item's full generic_types;
(H3) Scala's separate scan for unsigned integers is a full traversal whose leaf test names every variant whose
printer arm emits an alias name;  (H4) registries are flushed: Go/Python buffer the body and write the imports
after all printers ran but before the body; Swift's CodableVoid flag is only ever raised and is flushed by
complementary single-file / multi-file paths."""
import itertools
import json
import re

from .. import inline, core, coverage, emit, guards, vt

PY_TOKENS = [
    ('List[', ('typing', 'List')), ('Dict[', ('typing', 'Dict')), ('Optional[', ('typing', 'Optional')), ('Literal[', ('typing', 'Literal')),
    ('Union[', ('typing', 'Union')), ('Generic[', ('typing', 'Generic')), ('Annotated[', ('typing', 'Annotated')),
    ('BaseModel', ('pydantic', 'BaseModel')), ('Field(', ('pydantic', 'Field')), ('ConfigDict(', ('pydantic', 'ConfigDict')),
    ('BeforeValidator(', ('pydantic', 'BeforeValidator')), ('PlainSerializer(', ('pydantic', 'PlainSerializer')),
    ('(str, Enum)', ('enum', 'Enum')), ('TypeVar(', ('typing', 'TypeVar')),
]
GO_TOKENS = [('time.Time', ('time',)), ('json.', ('encoding/json',))]
SWIFT_TOKENS = [('CodableVoid', None)]


def lits_of(f):
    """(token-bearing literal text, conds, frames, line) occurrences in sites, returned values and string arguments of a function."""
    return None


def literals_with_context(T, f, fns):
    out = []
    env = emit.caller_env_deep(fns, f)

    def scan(v, frames, line):
        if env:
            frames = [emit.subst(fr, env) for fr in frames]
        for conds, seq in emit.flatten_c(T, emit.subst(v, env) if env else v):
            text = ''.join(c[1] for c in seq if c[0] in ('lit', 'lit*'))
            out.append((text, conds, frames, line, seq))

    for s in f['sites']:
        scan(s['fmt'], s['guard'], s['line'])
    if isinstance(f.get('tail'), dict):
        scan(f['tail'], [], f['line'])
    for r in f.get('returns', []):
        if isinstance(r.get('v'), dict):
            scan(r['v'], r['guard'], r['line'])
    for c in f['calls']:
        for a in c.get('args', []):
            if isinstance(a, dict) and any(x.get('k') == 'fmt' or (x.get('k') == 'lit' and x.get('t') == 'str') for x in vt.walk(a)) and c.get('f') not in ('add_import', 'add_type_var', 'insert', 'push'):
                scan(a, c['guard'], c.get('line'))
    return out


def frame_lits(T, frames):
    out = set()
    for fr in frames:
        if fr.get('k') == 'if':
            out.add(('if', emit.sig(vt.strip(fr['c']) if False else fr['c']), not fr.get('neg')))
        elif fr.get('k') == 'arm':
            out.add(('arm', emit.sig(fr['scrut']), tuple(fr.get('variants', []))))
    return out


def cond_lits(conds):
    out = set()
    for c in conds:
        if c[0] == 'c':
            out.add(('if', emit.sig(c[1]), c[2]))
        elif c[0] == 'm':
            out.add(('arm', emit.sig(c[1]), tuple(c[2])))
        elif c[0] == 'g':
            fr = c[1]
            if fr.get('k') == 'if':
                out.add(('if', emit.sig(fr['c']), not fr.get('neg')))
            elif fr.get('k') == 'arm':
                out.add(('arm', emit.sig(fr['scrut']), tuple(fr.get('variants', []))))
    return out


def registrations(T, f, fns, callee, want_args, inline_helpers=True):
    """[(frames, argmatch)] registration calls in f (directly, or through a helper of the same file whose body registers
    under conditions on its parameters — the helper's frames are instantiated with the call's arguments)."""
    regs = []
    for c in f['calls']:
        if c.get('f') == callee:
            lits = [vt.strip(a).get('v') for a in c.get('args', []) if isinstance(vt.strip(a), dict) and vt.strip(a).get('k') == 'lit']
            if want_args is None or tuple(lits[:len(want_args)]) == tuple(want_args):
                regs.append((c['guard'], None))
        elif inline_helpers and c.get('recv') is not None:
            for g in fns:
                if g['name'] == c.get('f') and g is not f and g.get('self_ty'):
                    params = [p['name'] for p in g['params'] if p['name'] != 'self']
                    if len(params) != len(c.get('args', [])):
                        continue
                    env = dict(zip(params, c['args']))
                    for fr_list, _ in registrations(T, g, fns, callee, want_args, inline_helpers=False):
                        inst = [emit.subst(fr, env) for fr in fr_list]
                        regs.append((list(c['guard']) + inst, g['name']))
    return regs


def implied(T, e_lits, e_conds, e_frames, r_frames):
    # an early `return` earlier in the block guards everything after it, including the returned value
    r_frames = guards.normalize_frames([fr for fr in r_frames if not fr.get('early_exit')])
    e_frames = guards.normalize_frames([fr for fr in e_frames if not fr.get('early_exit')])
    e_conds = guards.normalize_conds(e_conds)
    e_lits = cond_lits(e_conds) | frame_lits(T, e_frames)
    r_lits = frame_lits(T, r_frames)
    if r_lits <= e_lits:
        return True
    # truth-table implication over the atomic tests of both sides
    e_vs = [c[1] for c in e_conds if c[0] == 'c'] + [fr['c'] for fr in e_frames if fr.get('k') == 'if']
    r_vs = [fr['c'] for fr in r_frames if fr.get('k') == 'if']
    if any(fr.get('k') == 'arm' for fr in r_frames):
        arm_r = {l for l in r_lits if l[0] == 'arm'}
        if not arm_r <= e_lits:
            return False
    vocab = sorted(guards.vocabulary(T, e_vs + r_vs))
    if not vocab or len(vocab) > 8:
        return False
    for bits in itertools.product([False, True], repeat=len(vocab)):
        asg = dict(zip(vocab, bits))
        e = guards.conds_hold(T, [c for c in e_conds if c[0] == 'c'], asg)
        ef = guards.frames_hold(T, e_frames, asg)
        if e is False or ef is False:
            continue
        r = guards.frames_hold(T, r_frames, asg)
        if r is not True:
            if e is True and ef is True:
                return False
            if r is False:
                return False
    return True


def pair_tokens(ctx, rep, T, be, tokens, reg_callee, global_regs):
    struct, file = emit.BACKENDS[be]
    fns = inline.file_views(ctx, file)   # helpers no rule knows are seen inside their callers
    n = 0
    for f in fns:
        if f['name'] in ('write_all_imports', 'add_import', 'add_imports', 'add_type_var'):
            continue  # the prologue/epilogue writers themselves
        occ = literals_with_context(T, f, fns)
        for tok, regargs in tokens:
            seen = set()
            for text, conds, frames, line, seq in occ:
                if tok not in text:
                    continue
                if be == 'python' and tok == 'BaseModel' and 'class' not in text:
                    continue
                if be == 'swift' and re.search(r'struct\s+CodableVoid', text):
                    continue  # the definition of the helper type itself (written by the flush path), not a use
                e_lits = cond_lits(conds) | frame_lits(T, frames)
                ksig = (tok, tuple(sorted(str(x) for x in e_lits)))
                if ksig in seen:
                    continue
                seen.add(ksig)
                n += 1
                key = f"{be}:{f['name']}:{tok}"
                site = {'file': f['file'], 'line': line}
                if regargs is not None and regargs in global_regs:
                    rep.ok('H2', key, f'{regargs} registered unconditionally by the file prologue', site)
                    continue
                if be == 'swift':
                    regs = [(c['guard'], None) for c in f['calls'] if c.get('f') == 'store' and 'should_emit_codable_void' in vt.show(c.get('recv')) and vt.show(vt.strip(c['args'][0])) == 'True']
                else:
                    regs = registrations(T, f, fns, reg_callee, regargs)
                    fenv = emit.caller_env_deep(fns, f)
                    if fenv:
                        regs = [([emit.subst(fr, fenv) for fr in r[0]], r[1]) for r in regs]
                ok = any(implied(T, e_lits, conds, frames, r[0]) for r in regs)
                if not ok and not regs:
                    # registered by every caller, unconditionally, before the call
                    callers = [(g, c) for g in fns for c in g['calls'] if c.get('f') == f['name'] and c.get('recv') is not None]
                    if callers:
                        def caller_registers(g):
                            rs = registrations(T, g, fns, reg_callee, regargs, inline_helpers=False)
                            return any(not [fr for fr in r[0] if fr.get('k') in ('if', 'arm') and not fr.get('early_exit')] for r in rs)
                        ok = all(caller_registers(g) for g, _ in callers)
                what = f"{reg_callee}{regargs}" if regargs else 'raising the should_emit_codable_void flag'
                rep.check(ok, 'H2', key, f'paired with {what}', f"{be}: {f['qual']} emits `{tok}` " + (f"under {sorted(x[0] + ':' + str(x[2])[:30] for x in e_lits)[:3]} " if e_lits else '') + f"without {what} on the same path ({len(regs)} registration(s) in this function, none covering it) — the generated file uses a name it neither defines nor imports", site)
    return n


def run(ctx, rep):
    rep.explanation = ('Helper-name closure decided as an acquire/release-style pairing over the printers: literal occurrences of target-language helper tokens '
                       '(frozen token → registration table) are located in templates and returned type strings together with their path conditions; each must be '
                       'covered by a registration call whose own path conditions are implied (syntactic subset, else truth table); registries must be flushed by '
                       'the driver after all printers ran; Scala\'s scan-based detection must be a full traversal.')
    rep.not_decided = 'that the registered module paths exist in the target ecosystem; Kotlin imports (not part of the property).'
    rep.trusted = ['syn', 'astq evaluator', 'helper-token table (target-language text → registration)']
    T = emit.Types(ctx.astq)
    # --- Go: begin_file registers encoding/json unconditionally
    gb = ctx.fn('Go::begin_file', file='go.rs')
    glob_go = set()
    for c in gb['calls']:
        if c.get('f') == 'add_import' and not [fr for fr in c['guard'] if fr.get('k') in ('if', 'arm')]:
            a = vt.strip(c['args'][0])
            if isinstance(a, dict) and a.get('k') == 'lit':
                glob_go.add((a['v'],))
    n = pair_tokens(ctx, rep, T, 'go', GO_TOKENS, 'add_import', glob_go)
    rep.floor('H2', 'go: helper-token occurrences', n, 2)
    n = pair_tokens(ctx, rep, T, 'python', PY_TOKENS, 'add_import', set())
    rep.floor('H2', 'python: helper-token occurrences', n, 12)
    n = pair_tokens(ctx, rep, T, 'swift', SWIFT_TOKENS, 'store', set())
    rep.floor('H2', 'swift: helper-token occurrences', n, 1)
    rep.section(python_typevars, ctx, rep, T)
    rep.section(python_translation_keys, ctx, rep, T)
    rep.section(python_helper_text_names, ctx, rep, T)
    rep.section(scala_scan, ctx, rep, T)
    rep.section(flush, ctx, rep, T)


def python_typevars(ctx, rep, T):
    """Every printer that prints an item's generic parameter names registers all of them as TypeVars."""
    fns = [g for g in ctx.astq['functions'] if g['file'].endswith('language/python.rs')]
    n = 0
    for f in fns:
        owners = [p for p in f['params'] if p.get('ty') in ('RustStruct', 'RustTypeAlias', 'RustEnumShared')]
        if not owners or not f['sites']:
            continue
        uses_generics = any('generic_types' in vt.show(a) for c in f['calls'] if c.get('f') in ('format_type', 'write_field') for a in c.get('args', [])) or \
            any('.generic_types' in emit.seq_str(seq) or 'generic_types' in json.dumps(s['fmt']) for s in f['sites'] for seq in [[]])
        if not uses_generics:
            continue
        n += 1
        site = {'file': f['file'], 'line': f['line']}
        # inlined view: the registration loop may sit in a private helper (`self.add_type_vars(&item.generic_types)`)
        regs = [c for c in ctx.x(f)['calls'] if c.get('f') == 'add_type_var']
        key = f"python:{f['name']}:typevars"
        if not regs:
            rep.fail('H2g', key, f"python: {f['qual']} prints types in the context of the item's generic parameters but never registers them with add_type_var — `T` is used without `T = TypeVar(\"T\")`", site)
            continue
        ok = False
        why = ''
        for c in regs:
            frames = c['guard']
            over = [fr for fr in frames if fr.get('k') in ('for', 'closure')]
            src = vt.show(vt.strip(over[-1].get('over'))) if over else ''
            full = bool(re.search(r'\.generic_types(\.iter\(\))?(\.cloned\(\))?$', src))
            conds = [fr for fr in frames if fr.get('k') in ('if', 'arm')]
            if full and not conds:
                ok = True
            else:
                why = f"add_type_var is fed from `{src[:80] or 'a single value'}`" + (f" under `{vt.show(conds[0].get('c') or conds[0].get('scrut'))[:50]}`" if conds else '')
        rep.check(ok, 'H2g', key, 'all generic_types registered unconditionally', f"python: {f['qual']} registers type variables from a partial source ({why}) instead of the item's full generic_types — a parameter that only occurs in an unvisited position is printed without its TypeVar", site)
    rep.floor('H2g', 'python printers with generic context', n, 3)


def scala_scan(ctx, rep, T):
    f = ctx.fn('Scala::unsigned_integer_used', file='scala.rs')
    site = {'file': f['file'], 'line': f['line']}
    # which variants does the printer map to an alias name?
    fs = ctx.fn('Scala::format_special_type', file='scala.rs')
    alias_names = [l for l in re.findall(r'"type (\w+) = ', json.dumps(ctx.fnx('Scala::write_unsigned_aliases', file='scala.rs')['sites']))]
    rep.floor('H3', 'scala alias names', len(alias_names), 4)
    emitting = set()
    for m in fs['matches']:
        for a in m['arms']:
            for nm in alias_names:
                if f'"{nm}"' in a['body']:
                    for v in a['variants']:
                        emitting.add(v.split('::')[-1])
    # the function that inspects one type: the scan itself or a helper it applies to every collected type
    cands = [g for g in ctx.astq['functions'] if g['file'].endswith('scala.rs') and g['name'] != 'format_special_type'
             and any(re.search(r'SpecialRustType\s*::\s*U8', a['pat']) or any('SpecialRustType::U8' in v or '(SpecialRustType::U8)' in v for v in a['variants']) for m in g['matches'] for a in m['arms'])]
    leaf = set()
    for g in [f] + cands:
        for c in [x for x in vt.walk(g['tail']) if x.get('k') == 'matches'] + [x for cl in g['calls'] for a in cl.get('args', []) for x in vt.walk(a) if x.get('k') == 'matches']:
            for v in re.findall(r'SpecialRustType\s*::\s*(\w+)', c.get('pat', '')):
                leaf.add(v)
        for m in g['matches']:
            for a in m['arms']:
                if a['body'].strip() == 'true':
                    for v in re.findall(r'SpecialRustType\s*::\s*(\w+)', a['pat']):
                        leaf.add(v)
    missing = sorted(emitting - leaf)
    rep.check(not missing and bool(emitting), 'H3', 'scala:leaf-test', f'leaf test names {sorted(leaf)}', f"scala: format_special_type prints an alias name for {sorted(emitting)} but the scan only tests {sorted(leaf)}: {missing} never trigger the alias block", site)
    scan = cands[0] if cands else f
    callees = [scan['name'], 'unsigned_integer_used', 'any']
    coverage.check_recursion(rep, 'H3', ctx, scan, 'SpecialRustType', callees, 'scala:scan', uses_ok=(scan is f))
    self_rec = [g for g in ctx.astq['functions'] if g['file'].endswith('scala.rs') and any(c.get('f') == g['name'] for c in g['calls'])]
    rep.check(bool(self_rec), 'H3', 'scala:scan-recursive', 'scan recurses', 'scala: the unsigned-integer scan unwraps one container level only (no recursion): `Vec<Vec<u16>>`, `Option<Vec<u8>>`, generic arguments of generic arguments print UShort/UByte with no alias block', site)
    if scan is not f:
        # generic arguments are traversed too
        ga = [a for m in scan['matches'] for a in m['arms'] if any(v.endswith('RustType::Generic') for v in a['variants'])]
        rep.check(bool(ga) and scan['name'] in ga[0]['body'], 'H3', 'scala:scan-generic-arguments', 'generic arguments traversed', 'scala: the unsigned-integer scan does not descend into generic arguments', {'file': scan['file'], 'line': scan['line']})
        used = any(scan['name'] in vt.show(c.get('args', [{}])[0] if c.get('args') else {}) or c.get('f') == scan['name'] for c in f['calls']) or scan['name'] in json.dumps(f['tail'])
        rep.check(used, 'H3', 'scala:scan-applied', 'helper applied to every collected type', f"unsigned_integer_used does not apply {scan['name']} to the collected types", site)
    # every type-bearing position is fed into the scan
    txt = json.dumps(f['lets']) + json.dumps(f['tail'])
    for what, needle in (('alias targets', 'aliases'), ('struct fields', 'structs'), ('enum variants', 'enums')):
        rep.check(f'"{needle}"' in txt, 'H3', f'scala:scan-covers:{what}', 'scanned', f'scala: the scan never looks at {what}', site)
    # ... and of the enum variants every type-carrying payload: the tuple payload and the fields of struct variants (their helper
    # case classes are printed with the same type printer, so an unsigned field there needs the alias block just as well)
    if coverage.find_matches(f, 'RustEnumVariant'):
        coverage.check_recursion(rep, 'H3', ctx, f, 'RustEnumVariant', [], 'scala:scan-variants', needle='RustType|RustField', uses_ok=True)
    else:
        vm = [x for x in vt.walk(f.get('tail')) if x.get('k') == 'match'] + [x for l_ in f['lets'] for x in vt.walk(l_.get('v')) if x.get('k') == 'match']
        rep.check(False, 'H3', 'scala:scan-variants', '', 'scala: unsigned_integer_used has no match over RustEnumVariant: the payload types of tuple and struct variants are not scanned', site)


def python_translation_keys(ctx, rep, T):
    """H5: the set of types whose JSON translation helpers are written out is keyed by what the look-up at flush time
    understands: every `types_for_custom_json_translation.insert(X)` happens under `json_translation_for_type(X)` being Some
    for that very X (a wrapped spelling such as `Optional[datetime]` is not a key: the helpers would be used but never defined)."""
    fns = inline.file_views(ctx, 'language/python.rs')
    n = 0
    for f in fns:
        for c in f['calls']:
            if c.get('f') != 'insert' or 'types_for_custom_json_translation' not in vt.show(c.get('recv')) or not c.get('args'):
                continue
            n += 1
            x = vt.ckey(c['args'][0])
            tests = []
            for fr in c['guard']:
                if fr.get('k') == 'if' and not fr.get('neg'):
                    for y in vt.walk(vt.unvar(fr.get('c'))):
                        if y.get('k') == 'call' and str(y.get('f', '')).split('::')[-1] == 'json_translation_for_type' and y.get('args'):
                            tests.append(vt.ckey(y['args'][0]))
                if fr.get('k') == 'arm' and any(str(v2).endswith('Some') for v2 in fr.get('variants', [])):
                    for y in vt.walk(vt.unvar(fr.get('scrut'))):
                        if y.get('k') == 'call' and str(y.get('f', '')).split('::')[-1] == 'json_translation_for_type' and y.get('args'):
                            tests.append(vt.ckey(y['args'][0]))
            ok = x in tests
            rep.check(ok, 'H5', f"python:{f['name']}:translation-key#{n}", 'registered under the key that was looked up', f"python: {f['qual']} registers `{vt.show(c['args'][0])[:80]}` for JSON translation helpers, but the helper table was consulted for {'a different value' if tests else 'nothing'} on that path — at flush time json_translation_for_type(<registered text>) finds no entry, so BeforeValidator/PlainSerializer name functions the module never defines", {'file': f['file'], 'line': c.get('line')})
    rep.floor('H5', 'python: translation registrations', n, 2)


def python_helper_text_names(ctx, rep, T):
    """H6: the (de)serialiser helper functions are Python text kept in a table keyed by the *Python* type (`"bytes"`,
    `"datetime"`); they are written whenever a field's rendered type is such a key — whichever Rust type or type mapping
    produced it.  A module-level name used inside a helper text (one that typeshare imports elsewhere in this backend, e.g.
    `datetime`) must therefore be imported under the same key: an `add_import(.., name)` guarded by the key's membership in the
    translation set (or by the rendered type being the key), not by the Rust type name that usually maps to it."""
    import re as _re
    fns = inline.file_views(ctx, 'language/python.rs')
    imported = {}
    for f in fns:
        for c in f['calls']:
            if c.get('f') == 'add_import' and len(c.get('args', [])) == 2:
                lits = [next((x.get('v') for x in vt.walk(a) if x.get('k') == 'lit' and x.get('t') == 'str'), None) for a in c['args']]
                if lits[1]:
                    imported.setdefault(lits[1], []).append((f, c, lits[0]))
    tab = [g for g in ctx.astq['functions'] if g['file'].endswith('language/python.rs') and g['name'].split('::')[-1] == 'json_translation_for_type']
    if len(tab) != 1:
        raise core.Incomplete('H6: the helper-text table (json_translation_for_type) not found')
    rows = []

    def every(n, d=0):
        if d > 60:
            return
        if isinstance(n, list):
            for y in n:
                yield from every(y, d + 1)
        elif isinstance(n, dict):
            yield n
            for k_, y in n.items():
                if k_ not in ('guard',) and isinstance(y, (dict, list)):
                    yield from every(y, d + 1)
    for n in every([l.get('v') for l in tab[0].get('lets', [])] + [tab[0].get('tail')]):
        if n.get('k') in ('tuple', 'array', 'vecof') or 'items' in n:
            its = n.get('items') or []
            if len(its) == 2 and isinstance(its[0], dict) and vt.strip(its[0]).get('k') == 'lit' and isinstance(vt.strip(its[1]), dict) and vt.strip(its[1]).get('k') == 'struct':
                texts = [x.get('v') for x in every(its[1]) if x.get('k') == 'lit' and x.get('t') == 'str' and isinstance(x.get('v'), str)]
                rows.append((vt.strip(its[0]).get('v'), texts))
    rep.floor('H6', 'python: helper-text table rows', len(rows), 2)
    n = 0
    for key, texts in rows:
        used = sorted({t for txt in texts for t in _re.findall(r'[A-Za-z_][A-Za-z0-9_]*', txt)} & set(imported))
        for name in used:
            n += 1
            sites = imported[name]

            def keyed(f, c):
                for fr in c.get('guard', []):
                    if fr.get('k') != 'if' or fr.get('neg'):
                        continue
                    cond = fr.get('c')
                    lit_ok = any(x.get('k') == 'lit' and x.get('v') == key for x in every(cond))
                    about_py = 'types_for_custom_json_translation' in vt.show(cond) or any(x.get('k') == 'call' and str(x.get('f', '')).split('::')[-1] in FORMATTERS_PY for x in every(cond))
                    if lit_ok and about_py:
                        return True
                return False
            ok = any(keyed(f, c) for f, c, _m in sites)
            others = sorted({(' && '.join((('!' if fr.get('neg') else '') + vt.show(fr.get('c'))[:50]) for fr in c.get('guard', []) if fr.get('k') in ('if',)) or ('arm ' + '|'.join(str(v2) for fr in c.get('guard', []) if fr.get('k') == 'arm' for v2 in fr.get('variants', []))[:60]) or 'unconditionally in ' + f['name']) for f, c, _m in sites})
            rep.check(ok, 'H6', f'python:helper-text:{key}:{name}', f'`{name}` imported under the key "{key}"',
                      f"python: the helper functions written for the Python type \"{key}\" use `{name}`, but `{name}` is only imported {others[:3]} — never keyed on \"{key}\" being in the translation set: "
                      f"a type mapping that renders another Rust type as `{key}` gets the helpers without the import (NameError when the module is loaded)", {'file': tab[0]['file'], 'line': tab[0]['line']})
    rep.analysed['H6:imported names used inside helper texts'] = n


FORMATTERS_PY = ('format_type', 'format_simple_type', 'format_generic_type', 'format_special_type')


def flush(ctx, rep, T):
    for qual, file, imports_fn in (('Go::generate_types', 'language/go.rs', 'write_all_imports'), ('Python::generate_types', 'language/python.rs', 'write_all_imports')):
        d0 = ctx.fn(qual, file=file)
        # private helper methods of the backend (a `write_preamble` holding the import block) are expanded; an expanded call
        # is ordered by the line of the call that brought it in
        helpers = tuple(g['name'].split('::')[-1] for g in ctx.astq['functions'] if g['file'] == d0['file'] and not g.get('trait') and g['name'].split('::')[-1] not in ('write_enum', 'write_struct', 'write_type_alias', 'write_const', imports_fn))
        d = inline.view(ctx, d0, depth=2, force=())
        d = dict(d, calls=[dict(c, line=c.get('via_line') or c.get('line')) for c in d['calls']])
        site = {'file': d['file'], 'line': d['line']}
        writer = next(p['name'] for p in d['params'] if 'Write' in (p.get('ty') or ''))
        writes = [c for c in d['calls'] if c.get('f') in ('write_enum', 'write_struct', 'write_type_alias', 'write_const')]
        imp = [c for c in d['calls'] if c.get('f') == imports_fn]
        body_out = [c for c in d['calls'] if c.get('f') == 'write_all']
        rep.check(len(imp) == 1, 'H4', f'{qual}:imports-written', 'imports written once', f'{qual} calls {imports_fn} {len(imp)} times', site)
        if not imp:
            continue
        direct = [c for c in writes if vt.show(vt.strip(c['args'][0])) == writer]
        rep.check(not direct, 'H4', f'{qual}:body-buffered', 'item printers write into a buffer', f"{qual}: item printers write straight to the output while imports are collected during printing — names registered late can never reach the import block", site)
        late = [c for c in writes if c['line'] > imp[0]['line']]
        rep.check(not late, 'H4', f'{qual}:imports-after-printers', 'imports flushed after every printer ran', f"{qual}: {sorted({c['f'] for c in late})} run after the imports were written — what they register is never imported", site)
        rep.check(bool(body_out) and all(c['line'] > imp[0]['line'] for c in body_out), 'H4', f'{qual}:body-after-imports', 'buffered body follows the imports', f'{qual}: the buffered body is not written after the import block', site)
        conds = [fr for fr in imp[0]['guard'] if fr.get('k') in ('if', 'arm', 'for')]
        rep.check(not conds, 'H4', f'{qual}:imports-unconditional', 'unconditional', f'{qual}: the import block is only written under a condition', site)
    # Swift flag discipline
    fns = [g for g in ctx.astq['functions'] if g['file'].endswith('language/swift.rs')]
    lowered = []
    for g in fns:
        for c in g['calls']:
            if c.get('f') in ('store', 'swap', 'fetch_and', 'compare_exchange', 'fetch_xor') and 'should_emit_codable_void' in vt.show(c.get('recv')):
                a = vt.strip(c['args'][0]) if c.get('args') else None
                if not (isinstance(a, dict) and a.get('k') == 'lit' and a.get('v') is True and c['f'] == 'store'):
                    lowered.append((g, c))
        for a in g['assigns']:
            if 'should_emit_codable_void' in a.get('text', ''):
                lowered.append((g, a))
    for g, c in lowered:
        rep.fail('H4', f"swift:{g['name']}:flag-lowered", f"swift: {g['qual']} resets/overwrites should_emit_codable_void — the flag must stay raised from the first `()` until the epilogue (single-file) or post_generation (multi-file, which runs after *all* files): a later file without `()` makes the shared Codable.swift disappear", {'file': g['file'], 'line': c.get('line')})
    if not lowered:
        rep.ok('H4', 'swift:flag-monotone', 'should_emit_codable_void is only ever raised')
    # flush paths, decided by a truth table over (flag raised, multi-file) on the inlined views of the two drivers: the
    # definition of CodableVoid (a template containing `struct CodableVoid`) is emitted by end_file iff flag ∧ ¬multi and
    # by post_generation iff flag ∧ multi — whatever helpers, early returns or operand order the code uses
    ef = ctx.fnx('Swift::end_file', file='swift.rs', force=('write_codable_file', 'write_codable'), depth=4)
    pg = ctx.fnx('Swift::post_generation', file='swift.rs', force=('write_codable_file', 'write_codable'), depth=4)

    def def_sites(v):
        out = []
        for st in v['sites']:
            lits = ''.join(str(x.get('v', '')) for x in vt.walk(st['fmt']) if x.get('k') == 'lit') + ''.join(p2.get('lit', '') for x in vt.walk(st['fmt']) if x.get('k') == 'fmt' for p2 in x.get('parts', []) if isinstance(p2, dict))
            if re.search(r'struct\s+CodableVoid', lits):
                out.append(st)
        # the definition may also be handed to the file system in one piece (`fs::write(path, self.definition().into_bytes())`)
        for c in v['calls']:
            if str(c.get('f', '')).replace(' ', '').split('::')[-1] == 'write' and c.get('recv') is None and len(c.get('args', [])) == 2:
                lits = ''.join(str(x.get('v', '')) for x in vt.walk(c['args'][1]) if x.get('k') == 'lit') + ''.join(p2.get('lit', '') for x in vt.walk(c['args'][1]) if x.get('k') == 'fmt' for p2 in x.get('parts', []) if isinstance(p2, dict))
                if re.search(r'struct\s+CodableVoid', lits):
                    out.append({'guard': c.get('guard', []), 'fmt': c['args'][1], 'line': c.get('line')})
        return out

    def emits(v, flag, multi):
        res = []
        for st in def_sites(v):
            frames = [fr for fr in st['guard'] if fr.get('k') == 'if']
            conds = [fr['c'] for fr in frames]
            vocab = sorted(guards.vocabulary(T, conds))
            asg = {}
            for k2 in vocab:
                if 'should_emit_codable_void' in k2:
                    asg[k2] = flag
                elif 'multi_file' in k2:
                    asg[k2] = multi
            res.append(guards.frames_hold(T, frames, asg))
        return res
    table = {}
    for name, v, want_multi in (('end_file', ef, False), ('post_generation', pg, True)):
        for flag in (False, True):
            for multi in (False, True):
                r = emits(v, flag, multi)
                got = any(x is True for x in r) if all(x is not None for x in r) else None
                table[(name, flag, multi)] = (got, flag and (multi == want_multi))
    bad = {k2: v2 for k2, v2 in table.items() if v2[0] is not v2[1]}
    found = bool(def_sites(ef)) and bool(def_sites(pg))
    ok = found and not bad
    rep.check(ok, 'H4', 'swift:flush-paths', 'end_file emits CodableVoid iff flag∧¬multi_file; post_generation iff flag∧multi_file', 'swift: the CodableVoid definition is not flushed by complementary single-file / multi-file paths: ' + ('definition site not found in end_file/post_generation' if not found else '; '.join(f"{k2[0]}(flag={k2[1]}, multi={k2[2]}) emits={v2[0]} expected={v2[1]}" for k2, v2 in sorted(bad.items()))), {'file': ef['file'], 'line': ef['line']})
